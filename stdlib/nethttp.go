//go:build verif

// nethttp.go: assumed contracts of net/http header and cookie setters, as ghost events: what is put
// on the wire is recorded in log "wire" ("set <name>=<value>", "add <name>=<value>",
// "cookie <name>=<value>"). Header-name canonicalisation by net/textproto is not modelled (the
// name is logged as given).

package PKG

import (
	"net/http"
	"strings"
)

//@ extern func (h http.Header) Set(key string, value string)
//@   requires nonnil: h != nil
//@   effect wire "set " + key + "=" + value
//@ extern func (h http.Header) Add(key string, value string)
//@   requires nonnil: h != nil
//@   effect wire "add " + key + "=" + value
//@ extern func (r *http.Request) AddCookie(c *http.Cookie)
//@   effect wire "cookie " + c.Name + "=" + c.Value
//@ extern func strings.EqualFold(s string, t string) (ok bool)
//@   pure
//@   ensures asciiLen: ok && (forall i in (0, len(s)) :: s[i] < 128) && (forall j in (0, len(t)) :: t[j] < 128) ==> len(s) == len(t)
// Reading a header: deterministic functions of the header object and the name (the header is not
// written between the calls inside one decoder method); Get returns the first of Values.
//@ extern func (h http.Header) Values(key string) (vs []string)
//@   pure
//@ extern func (h http.Header) Get(key string) (v string)
//@   pure
//@   ensures first: len(h.Values(key)) > 0 ==> v == h.Values(key)[0]

// Reading a cookie: a deterministic function of the request and the name (the request is not
// written inside one decoder method).
//@ extern func (r *http.Request) Cookie(name string) (c *http.Cookie, err error)
//@   pure
//@   ensures found: err == nil ==> c != nil
//@   ensures none:  err != nil ==> c == nil

var (
	_ http.Header
	_ = strings.EqualFold
)

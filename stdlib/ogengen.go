//go:build verif

// ogengen.go: assumed contracts of the functions cmd/ogen's generate() composes. ogen.Parse and
// gen.NewGenerator are assumed to be deterministic functions of their arguments that perform no
// write under the target directory (backed by the call-graph scan recorded in the evidence, not
// proved); logging and time functions have no effect on the file system.

package PKG

import (
	"os"
	"time"

	"go.uber.org/zap"

	"github.com/ogen-go/ogen"
	"github.com/ogen-go/ogen/gen"
	"github.com/ogen-go/ogen/gen/genfs"
)

//@ extern func ogen.Parse(data []byte) (s *ogen.Spec, err error)
//@   pure
//@ extern func gen.NewGenerator(spec *ogen.Spec, opts gen.Options) (g *gen.Generator, err error)
//@   pure
//@   ensures nonnil: err == nil ==> g != nil
//@ extern func (g *gen.Generator) WriteSource(fs gen.FileSystem, pkgName string) (err error)
//@   effect fs "write " + pkgName
//@ extern func zap.NewNop() (l *zap.Logger)
//@   ensures nonnil: l != nil
//@ extern func (l *zap.Logger) Debug(msg string, fields ...zap.Field)
//@ extern func zap.Duration(key string, val time.Duration) (f zap.Field)
//@ extern func time.Now() (t time.Time)
//@ extern func time.Since(t time.Time) (d time.Duration)
//@ extern func os.ReadDir(name string) (files []os.DirEntry, err error)

var (
	_ = genfs.FormattedSource{}
	_ = os.ReadDir
	_ = time.Now
	_ = zap.NewNop
	_ = ogen.Parse
	_ = gen.NewGenerator
)

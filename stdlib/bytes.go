//go:build verif

// bytes.go: assumed contracts of package bytes (trusted base).

package PKG

import "bytes"

// indexBS is the least k >= 0 with s[k] == c, or -1 (spec function over byte slices).
func indexBS(s []byte, c byte) int {
	if len(s) == 0 {
		return -1
	}
	if s[0] == c {
		return 0
	}
	if k := indexBS(s[1:], c); k >= 0 {
		return k + 1
	}
	return -1
}

//@ lemma indexBSRange(x []byte, c byte)
//@   ensures range: -1 <= indexBS(x, c) && indexBS(x, c) < len(x)
//@   ensures hit:   indexBS(x, c) >= 0 ==> x[indexBS(x, c)] == c
//@   decreases len(x)
//@   induct x[1:], c
//@   trigger indexBS(x, c)

//@ extern func bytes.IndexByte(s []byte, c byte) (k int)
//@   pure
//@   ensures range: -1 <= k && k < len(s)
//@   ensures hit:   k >= 0 ==> s[k] == c
//@   ensures first: forall j in (0, len(s)) :: (k < 0 || j < k) ==> s[j] != c
//@   ensures spec:  k == indexBS(s, c)

var _ = bytes.IndexByte

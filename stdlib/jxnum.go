//go:build verif

// jxnum.go: assumed contracts of github.com/go-faster/jx number handling and math/big.Rat, in
// terms of one uninterpreted function: qCanon(text) — the canonical spelling of the rational
// number a JSON number text denotes (two texts denote the same number iff their qCanon agree).

package PKG

import (
	"math/big"

	"github.com/go-faster/jx"
)

// qCanon: uninterpreted.
func qCanon(text []byte) string { panic("uninterpreted: canonical spelling of the rational a JSON number text denotes") }

// sameNumber: the two JSON number texts denote the same number.
func sameNumber(a, b []byte) bool { return qCanon(a) == qCanon(b) }

//@ extern func (d *jx.Decoder) Num() (n jx.Num, err error)
//@   effect nums string(n)

//@ extern func (n jx.Num) Zero() (z bool)
//@   pure
//@   ensures zero: z == (qCanon(n) == qCanon([]byte("0")))
//@ extern func (n jx.Num) IsInt() (r bool)
//@   pure
//@ extern func (n jx.Num) Equal(v jx.Num) (r bool)
//@   pure
//@   ensures same: r ==> sameNumber(n, v)
//@   ensures ints: !r && n.IsInt() && v.IsInt() && !(n.Zero() && v.Zero()) ==> !sameNumber(n, v)
//@ extern func (n jx.Num) Float64() (f float64, err error)
//@   pure

// Rounding to float64 is a function of the number denoted: equal numbers round equally.
// (The converse is false — that is the point of known finding json-equal-float-path.)
//@ lemma float64OfSameNumber(a jx.Num, b jx.Num)
//@   trusted rounding is a function of the rational value (IEEE 754 round-to-nearest-even as implemented by strconv.ParseFloat)
//@   requires same: sameNumber(a, b)
//@   ensures  equal: float64ErrNil(a) == float64ErrNil(b) && (float64ErrNil(a) ==> float64Val(a) == float64Val(b))
//@   trigger sameNumber(a, b)

func float64Val(n jx.Num) float64 {
	f, _ := n.Float64()
	return f
}

func float64ErrNil(n jx.Num) bool {
	_, err := n.Float64()
	return err == nil
}

// big.Rat: the value is the ghost observer String (canonical "a/b").
//@ extern func (z *big.Rat) String() (s string)
//@   observer String
//@ extern func (z *big.Rat) UnmarshalText(text []byte) (err error)
//@   modifies z.String
//@   ensures exact: err == nil ==> z.String() == qCanon(text)
//@ extern func (x *big.Rat) Cmp(y *big.Rat) (r int)
//@   ensures exact: (r == 0) == (x.String() == y.String())

var _ = jx.Num(nil)
var _ = big.NewRat

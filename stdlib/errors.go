//go:build verif

// errors.go: assumed contracts of github.com/go-faster/errors (constructors return non-nil errors,
// wrappers preserve nil-ness).

package PKG

import "github.com/go-faster/errors"

//@ extern func errors.Errorf(format string, a ...interface{}) (err error)
//@   ensures nonnil: err != nil
//@ extern func errors.New(s string) (err error)
//@   ensures nonnil: err != nil
//@ extern func errors.Wrap(e error, msg string) (err error)
//@   ensures nilness: (err == nil) == (e == nil)
//@ extern func errors.Wrapf(e error, format string, a ...interface{}) (err error)
//@   ensures nilness: (err == nil) == (e == nil)

//@ extern func errors.Is(e error, target error) (r bool)
//@   pure
//@   ensures nilerr: e == nil && target != nil ==> !r
//@   ensures self:   e != nil && e == target ==> r
//@ extern func errors.Join(errs ...error) (err error)
//@   pure

var _ = errors.New

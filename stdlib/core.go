//go:build verif

// core.go (included into every verified package; `package PKG` is rewritten):
// the intrinsics of the contract language. The verifier recognises these
// functions by name; at run time (replay, witnesses) they are executable
// except for the unbounded quantifiers.

package PKG

// vForall / vExists: unbounded quantifiers (forall x T :: e). Not executable.
func vForall[T any](f func(T) bool) bool {
	panic("verif: unbounded quantifier is not executable")
}

func vExists[T any](f func(T) bool) bool {
	panic("verif: unbounded quantifier is not executable")
}

// vForallIn / vExistsIn: bounded quantifiers over lo <= j < hi.
func vForallIn(lo, hi int, f func(int) bool) bool {
	for j := lo; j < hi; j++ {
		if !f(j) {
			return false
		}
	}
	return true
}

func vExistsIn(lo, hi int, f func(int) bool) bool {
	for j := lo; j < hi; j++ {
		if f(j) {
			return true
		}
	}
	return false
}

// str1 is the one-byte string holding c (NOT string(rune(c))).
func str1(c byte) string { return string([]byte{c}) }

// vIte is the conditional expression.
func vIte[T any](c bool, a, b T) T {
	if c {
		return a
	}
	return b
}

// vTrig marks its argument as an instantiation trigger of a lemma.
func vTrig[T any](x T) bool { return true }

// vLogStr is the ghost log NAME (a sequence of strings appended to by the `effect NAME expr`
// clauses of external functions). Not executable; inside old(...) it denotes the log on entry.
func vLogStr(name string) []string    { panic("verif: ghost log is not executable") }
func vLogStrOld(name string) []string { panic("verif: ghost log is not executable") }

// vCat concatenates two slices (value semantics); vSeqEq compares two slices element-wise.
func vCat[T any](a, b []T) []T { return append(append([]T{}, a...), b...) }

func vSeqEq[T comparable](a, b []T) bool {
	if len(a) != len(b) {
		return false
	}
	for i := range a {
		if a[i] != b[i] {
			return false
		}
	}
	return true
}

// Callback protocol: vCbLog(f, name) is the ghost log NAME of the function-typed parameter f (the
// strings logged by its `callback f(...) log NAME expr` clause, one per call, in order); vCbOK(f)
// says that every call of f so far returned a nil error. Not executable.
func vCbLog(f any, name string) []string    { panic("verif: ghost log is not executable") }
func vCbLogOld(f any, name string) []string { panic("verif: ghost log is not executable") }
func vCbOK(f any) bool                      { panic("verif: ghost state is not executable") }
func vCbOKOld(f any) bool                   { panic("verif: ghost state is not executable") }

// vHas: k is a key of map m.
func vHas[K comparable, V any](m map[K]V, k K) bool {
	_, ok := m[k]
	return ok
}

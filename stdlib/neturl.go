//go:build verif

// neturl.go: assumed contracts of net/url used by the reference-resolution context.

package PKG

import "net/url"

//@ use strings

//@ extern func url.Parse(rawURL string) (u *url.URL, err error)
//@   pure
//@   ensures nonnil: err == nil ==> u != nil

var _ = url.Parse

// url.PathEscape / url.PathUnescape: uninterpreted pure functions with the inverse law (net/url doc:
// "PathUnescape does the inverse transformation of PathEscape").
//@ extern func url.PathEscape(s string) (r string)
//@   pure
//@   ensures ascii: forall j in (0, len(r)) :: r[j] < 0x80
//@ extern func url.PathUnescape(s string) (r string, err error)
//@   pure

// Trusted lemmas about net/url (not provable here: both functions are uninterpreted):
//@ lemma pathEscapeInverse(x string)
//@   trusted net/url documentation: "PathUnescape does the inverse transformation of PathEscape"
//@   ensures inv: verifUnescVal(url.PathEscape(x)) == x && verifUnescOK(url.PathEscape(x))
//@   trigger url.PathEscape(x)

//@ lemma pathUnescapePlainPrefix(a string, b string)
//@   trusted net/url unescape copies bytes other than '%' verbatim, left to right: a prefix without '%' is kept and the rest is unescaped independently
//@   requires plain: vForallIn(0, len(a), func(j int) bool { return a[j] != '%' })
//@   ensures cat: verifUnescOK(a + b) == verifUnescOK(b) && (verifUnescOK(b) ==> verifUnescVal(a + b) == a + verifUnescVal(b))
//@   trigger verifUnescVal(a + b)

//@ lemma pathUnescapeBytePrefix(c byte, b string)
//@   trusted special case of pathUnescapePlainPrefix for a one-byte prefix other than '%' (style prefixes "." and ";")
//@   requires plain: c != '%'
//@   ensures cat: verifUnescOK(str1(c) + b) == verifUnescOK(b) && (verifUnescOK(b) ==> verifUnescVal(str1(c) + b) == str1(c) + verifUnescVal(b))
//@   trigger verifUnescVal(str1(c) + b)

//@ lemma pathUnescapeCat(a string, b string)
//@   trusted net/url unescape works left to right on complete %XX tokens: if both halves unescape on their own, the concatenation unescapes to the concatenation
//@   requires ok: verifUnescOK(a) && verifUnescOK(b)
//@   ensures cat: verifUnescOK(a + b) && verifUnescVal(a + b) == verifUnescVal(a) + verifUnescVal(b)
//@   trigger verifUnescVal(a + b)

//@ lemma pathUnescapePlain(a string)
//@   trusted net/url unescape returns its argument when it contains no '%'
//@   requires plain: vForallIn(0, len(a), func(j int) bool { return a[j] != '%' })
//@   ensures id: verifUnescOK(a) && verifUnescVal(a) == a
//@   trigger verifUnescVal(a)
//@   trigger verifUnescOK(a)

// The same fact with "contains no '%'" stated through IndexByte (not derived from pathUnescapePlain
// here: the step needs positions below len(a) to be Go ints, which the integer model does not give).
//@ lemma pathUnescapeNoPct(a string)
//@   trusted net/url unescape returns its argument when it contains no '%' (same fact as pathUnescapePlain)
//@   requires none: indexB(a, '%') < 0
//@   ensures id: verifUnescOK(a) && verifUnescVal(a) == a
//@   trigger verifUnescVal(a), indexB(a, '%')

func verifUnescVal(s string) string {
	r, _ := url.PathUnescape(s)
	return r
}

func verifUnescOK(s string) bool {
	_, err := url.PathUnescape(s)
	return err == nil
}

var _ = url.PathEscape

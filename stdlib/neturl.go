//go:build verif

// neturl.go: assumed contracts of net/url used by the reference-resolution context.

package PKG

import "net/url"

//@ extern func url.Parse(rawURL string) (u *url.URL, err error)
//@   pure
//@   ensures nonnil: err == nil ==> u != nil

var _ = url.Parse

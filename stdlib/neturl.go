//go:build verif

// neturl.go: assumed contracts of net/url used by the reference-resolution context.

package PKG

import "net/url"

//@ extern func url.Parse(rawURL string) (u *url.URL, err error)
//@   pure
//@   ensures nonnil: err == nil ==> u != nil

var _ = url.Parse

// url.PathEscape / url.PathUnescape: uninterpreted pure functions with the inverse law (net/url doc:
// "PathUnescape does the inverse transformation of PathEscape").
//@ extern func url.PathEscape(s string) (r string)
//@   pure
//@   ensures ascii: forall j in (0, len(r)) :: r[j] < 0x80
//@ extern func url.PathUnescape(s string) (r string, err error)
//@   pure

var _ = url.PathEscape

//go:build verif

// fmt.go: fmt.Sprintf is a deterministic function of its arguments about which nothing is assumed
// (it only builds panic / error messages in the code under contract).

package PKG

import "fmt"

//@ extern func fmt.Sprintf(format string, a []any) (s string)
//@   pure

var _ = fmt.Sprintf

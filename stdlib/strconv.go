//go:build verif

// strconv.go: assumed contracts of package strconv (trusted base; audited against the real
// functions by the assumption audit). The only thing assumed about the decimal text of a number
// is that the matching parser reads it back, and that it does so exactly when the value fits the
// requested bit size.

package PKG

import "strconv"

func fitsInt(v int64, bits int) bool {
	switch bits {
	case 8:
		return -128 <= v && v <= 127
	case 16:
		return -32768 <= v && v <= 32767
	case 32:
		return -2147483648 <= v && v <= 2147483647
	}
	return bits == 0 || bits == 64
}

func fitsUint(v uint64, bits int) bool {
	switch bits {
	case 8:
		return v <= 255
	case 16:
		return v <= 65535
	case 32:
		return v <= 4294967295
	}
	return bits == 0 || bits == 64
}

// parseIntIs: ParseInt(s, 10, bits) succeeds with value v.
func parseIntIs(s string, bits int, v int64) bool {
	x, err := strconv.ParseInt(s, 10, bits)
	return err == nil && x == v
}

func parseIntFails(s string, bits int) bool {
	_, err := strconv.ParseInt(s, 10, bits)
	return err != nil
}

func parseUintIs(s string, bits int, v uint64) bool {
	x, err := strconv.ParseUint(s, 10, bits)
	return err == nil && x == v
}

func parseUintFails(s string, bits int) bool {
	_, err := strconv.ParseUint(s, 10, bits)
	return err != nil
}

func atoiIs(s string, v int) bool {
	x, err := strconv.Atoi(s)
	return err == nil && x == v
}

func parseBoolIs(s string, v bool) bool {
	x, err := strconv.ParseBool(s)
	return err == nil && x == v
}

func parseFloatIs(s string, bits int, v float64) bool {
	x, err := strconv.ParseFloat(s, bits)
	return err == nil && x == v
}

//@ extern func strconv.ParseInt(s string, base int, bitSize int) (v int64, err error)
//@   pure
//@   ensures fits: err == nil ==> fitsInt(v, bitSize)
// allDigits / decVal: decimal digit strings and their value (spec functions).
func allDigits(s string) bool {
	return len(s) == 0 || '0' <= s[0] && s[0] <= '9' && allDigits(s[1:])
}

// decVal: the number a string of decimal digits denotes, saturating at MaxUint64 (so that it is a
// total executable Go function; ParseUint refuses everything above MaxUint64).
func decVal(s string) uint64 {
	if len(s) == 0 {
		return 0
	}
	if decVal(s[:len(s)-1]) > (18446744073709551615-uint64(s[len(s)-1]-'0'))/10 {
		return 18446744073709551615
	}
	return decVal(s[:len(s)-1])*10 + uint64(s[len(s)-1]-'0')
}

//@ extern func strconv.ParseUint(s string, base int, bitSize int) (v uint64, err error)
//@   pure
//@   ensures fits:   err == nil ==> fitsUint(v, bitSize)
//@   ensures digits: base == 10 && err == nil ==> len(s) > 0 && allDigits(s)
//@   ensures value:  base == 10 && err == nil ==> decVal(s) == v
//@   ensures accept: base == 10 && bitSize == 64 && len(s) > 0 && allDigits(s) && decVal(s) < 18446744073709551615 ==> err == nil
//@ extern func strconv.Atoi(s string) (v int, err error)
//@   pure
//@ extern func strconv.ParseBool(s string) (v bool, err error)
//@   pure
//@ extern func strconv.ParseFloat(s string, bitSize int) (v float64, err error)
//@   pure

//@ extern func strconv.FormatInt(v int64, base int) (r string)
//@   pure
//@   ensures b64: base == 10 ==> parseIntIs(r, 64, v) && parseIntIs(r, 0, v)
//@   ensures b32: base == 10 ==> vIte(fitsInt(v, 32), parseIntIs(r, 32, v), parseIntFails(r, 32))
//@   ensures b16: base == 10 ==> vIte(fitsInt(v, 16), parseIntIs(r, 16, v), parseIntFails(r, 16))
//@   ensures b8:  base == 10 ==> vIte(fitsInt(v, 8), parseIntIs(r, 8, v), parseIntFails(r, 8))
//@   ensures atoi: base == 10 ==> atoiIs(r, int(v))
//@ extern func strconv.FormatUint(v uint64, base int) (r string)
//@   pure
//@   ensures b64: base == 10 ==> parseUintIs(r, 64, v) && parseUintIs(r, 0, v)
//@   ensures b32: base == 10 ==> vIte(fitsUint(v, 32), parseUintIs(r, 32, v), parseUintFails(r, 32))
//@   ensures b16: base == 10 ==> vIte(fitsUint(v, 16), parseUintIs(r, 16, v), parseUintFails(r, 16))
//@   ensures b8:  base == 10 ==> vIte(fitsUint(v, 8), parseUintIs(r, 8, v), parseUintFails(r, 8))
//@ extern func strconv.Itoa(v int) (r string)
//@   pure
//@   ensures back:  atoiIs(r, v) && parseIntIs(r, 64, int64(v)) && parseIntIs(r, 0, int64(v))
//@ extern func strconv.FormatBool(v bool) (r string)
//@   pure
//@   ensures back:  parseBoolIs(r, v)
//@ extern func strconv.FormatFloat(v float64, fmt byte, prec int, bitSize int) (r string)
//@   pure
//@   ensures shortest: prec == -1 && (fmt == 'g' || fmt == 'e' || fmt == 'f') && v == v ==> parseFloatIs(r, bitSize, v)

var _ = strconv.Itoa

//go:build verif

// os.go: assumed contracts of the file-system functions used by cmd/ogen. File-system writes are
// ghost events appended to the log "fs" (one string per event: operation and path).

package PKG

import (
	"os"
	"path/filepath"
)

//@ extern func os.Remove(name string) (err error)
//@   effect fs "remove " + name
//@ extern func os.MkdirAll(path string, perm os.FileMode) (err error)
//@   effect fs "mkdirall " + path
//@ extern func os.IsNotExist(err error) (r bool)
//@   pure
//@   ensures nilerr: err == nil ==> !r
//@ extern func filepath.Join(elem ...string) (r string)
//@   pure

var _ = os.Remove
var _ = filepath.Join

//go:build verif

// strings.go: assumed contracts of package strings (trusted base; audited against the real
// functions by the assumption audit).

package PKG

import "strings"

// indexFrom is the least k >= 0 with s[k] == c, or -1 (spec function, front recursion).
func indexB(s string, c byte) int {
	if len(s) == 0 {
		return -1
	}
	if s[0] == c {
		return 0
	}
	if k := indexB(s[1:], c); k >= 0 {
		return k + 1
	}
	return -1
}

//@ lemma indexBRange(x string, c byte)
//@   ensures range: -1 <= indexB(x, c) && indexB(x, c) < len(x)
//@   ensures hit:   indexB(x, c) >= 0 ==> x[indexB(x, c)] == c
//@   decreases len(x)
//@   induct x[1:], c
//@   trigger indexB(x, c)

//@ lemma indexBFirst(x string, c byte, j int)
//@   requires in: 0 <= j && j < len(x) && (indexB(x, c) < 0 || j < indexB(x, c))
//@   ensures first: x[j] != c
//@   decreases len(x)
//@   induct x[1:], c, j-1
//@   trigger indexB(x, c), x[j]

//@ extern func strings.IndexByte(s string, c byte) (k int)
//@   pure
//@   ensures range: -1 <= k && k < len(s)
//@   ensures hit:   k >= 0 ==> s[k] == c
//@   ensures first: forall j in (0, len(s)) :: (k < 0 || j < k) ==> s[j] != c
//@   ensures spec:  k == indexB(s, c)

// strings.Builder: the content is the ghost observer field String.
//@ extern func (b *strings.Builder) String() (r string)
//@   observer String
//@ extern func (b *strings.Builder) Len() (n int)
//@   pure
//@   ensures len: n == len(b.String())
//@ extern func (b *strings.Builder) Grow(n int)
//@   requires nonneg: n >= 0
//@ extern func (b *strings.Builder) WriteByte(c byte) (err error)
//@   modifies b.String
//@   ensures content: b.String() == old(b.String()) + str1(c)
//@   ensures noerr:   err == nil
//@ extern func (b *strings.Builder) WriteString(s string) (n int, err error)
//@   modifies b.String
//@   ensures content: b.String() == old(b.String()) + s
//@   ensures noerr:   err == nil && n == len(s)

// hasPrefix / hasSuffix: spec functions (value form).
func hasPrefix(s, p string) bool { return len(s) >= len(p) && s[:len(p)] == p }
func hasSuffix(s, p string) bool { return len(s) >= len(p) && s[len(s)-len(p):] == p }

//@ extern func strings.HasPrefix(s string, prefix string) (r bool)
//@   pure
//@   ensures spec: r == hasPrefix(s, prefix)
//@ extern func strings.HasSuffix(s string, suffix string) (r bool)
//@   pure
//@   ensures spec: r == hasSuffix(s, suffix)

//@ extern func strings.TrimPrefix(s string, prefix string) (r string)
//@   pure
//@   ensures hit:  hasPrefix(s, prefix) ==> r == s[len(prefix):]
//@   ensures miss: !hasPrefix(s, prefix) ==> r == s
// strings.ContainsRune for an ASCII rune (a non-ASCII rune is left unspecified).
//@ extern func strings.ContainsRune(s string, r rune) (ok bool)
//@   pure
//@   ensures ascii: 0 <= r && r < 128 ==> ok == (indexB(s, byte(r)) >= 0)

// strings.Cut with a one-byte separator.
//@ extern func strings.Cut(s string, sep string) (before string, after string, found bool)
//@   pure
//@   ensures hit:  len(sep) == 1 && indexB(s, sep[0]) >= 0 ==> found && before == s[:indexB(s, sep[0])] && after == s[indexB(s, sep[0])+1:]
//@   ensures miss: len(sep) == 1 && indexB(s, sep[0]) < 0 ==> !found && before == s && after == ""

// memberB: c occurs in chars.
func memberB(chars string, c byte) bool { return indexB(chars, c) >= 0 }

// strings.IndexAny for ASCII chars (every call site passes ASCII literals).
//@ extern func strings.IndexAny(s string, chars string) (k int)
//@   pure
//@   ensures range: -1 <= k && k < len(s)
//@   ensures hit:   k >= 0 ==> memberB(chars, s[k])
//@   ensures first: forall j in (0, len(s)) :: (k < 0 || j < k) ==> !memberB(chars, s[j])

//@ extern func strings.TrimSuffix(s string, suffix string) (r string)
//@   pure
//@   ensures hit:  hasSuffix(s, suffix) ==> r == s[:len(s)-len(suffix)]
//@   ensures miss: !hasSuffix(s, suffix) ==> r == s
//@ extern func strings.CutPrefix(s string, prefix string) (after string, found bool)
//@   pure
//@   ensures found: found == hasPrefix(s, prefix)
//@   ensures hit:   hasPrefix(s, prefix) ==> after == s[len(prefix):]
//@   ensures miss:  !hasPrefix(s, prefix) ==> after == s
//@ extern func strings.CutSuffix(s string, suffix string) (before string, found bool)
//@   pure
//@   ensures found: found == hasSuffix(s, suffix)
//@   ensures hit:   hasSuffix(s, suffix) ==> before == s[:len(s)-len(suffix)]
//@   ensures miss:  !hasSuffix(s, suffix) ==> before == s
// strings.IndexRune for an ASCII rune.
//@ extern func strings.IndexRune(s string, r rune) (k int)
//@   pure
//@   ensures ascii: 0 <= r && r < 128 ==> k == indexB(s, byte(r))

var _ = strings.IndexByte

//go:build verif

// nethttp_cred.go: assumed contracts of the net/http and net/url calls the generated security code
// uses to attach (client) and extract (server) credentials. Readers are deterministic functions of
// the object read (a request is not written inside one extraction function); writers are ghost
// events on the log "wire" (see nethttp.go). The channel laws that connect a writer with its reader
// (Header.Get after Header.Set, Request.Cookie after AddCookie, URL.Query().Get after
// RawQuery = Values.Encode(), BasicAuth after SetBasicAuth) are properties of net/http and net/url,
// NOT proved here; they are listed as assumptions of the check that uses this file.

package PKG

import (
	"net/http"
	"net/url"
)

//@ extern func (u *url.URL) Query() (v url.Values)
//@   pure
//@ extern func (v url.Values) Has(key string) (ok bool)
//@   pure
//@ extern func (v url.Values) Get(key string) (s string)
//@   pure
//@ extern func (v url.Values) Encode() (s string)
//@   pure
//@ extern func (v url.Values) Set(key string, value string)
//@   effect wire "query " + key + "=" + value
//@ extern func (r *http.Request) BasicAuth() (username string, password string, ok bool)
//@   pure
//@ extern func (r *http.Request) SetBasicAuth(username string, password string)
//@   effect wire "basic " + username + "\x00" + password

var (
	_ http.Header
	_ url.Values
)

//go:build verif

// jxtime.go: assumed contracts for the unix-time helpers of package json: jx.Decoder.Int64 reads
// one number (effect on the ghost log "ints"); the time constructors are deterministic functions
// of their arguments about which nothing else is assumed.

package PKG

import (
	"strconv"
	"time"

	"github.com/go-faster/jx"
)

//@ extern func (d *jx.Decoder) Int64() (v int64, err error)
//@   effect ints strconv.FormatInt(v, 10)
//@ extern func time.Unix(sec int64, nsec int64) (t time.Time)
//@   pure
//@ extern func time.UnixMilli(msec int64) (t time.Time)
//@   pure
//@ extern func time.UnixMicro(usec int64) (t time.Time)
//@   pure
// The accessors of time.Time that return the count of a unit since the epoch: deterministic
// functions of the instant about which nothing else is assumed.
//@ extern func (t time.Time) Unix() (v int64)
//@   pure
//@ extern func (t time.Time) UnixMilli() (v int64)
//@   pure
//@ extern func (t time.Time) UnixMicro() (v int64)
//@   pure
//@ extern func (t time.Time) UnixNano() (v int64)
//@   pure

var (
	_ = strconv.FormatInt
	_ = time.Unix
	_ jx.Decoder
)

// time.Time.Format / time.Parse / durations: deterministic functions about which nothing else is assumed.
//@ extern func (t time.Time) Format(layout string) (s string)
//@   pure
//@ extern func time.Parse(layout string, value string) (t time.Time, err error)
//@   pure
//@ extern func time.ParseDuration(s string) (d time.Duration, err error)
//@   pure
//@ extern func (d time.Duration) String() (s string)
//@   pure

// Zone and rounding operations of time.Time: deterministic functions about which nothing is assumed (so a
// text produced from t.UTC() or t.Truncate(d) is NOT known to be the text of t).
//@ extern func (t time.Time) UTC() (r time.Time)
//@   pure
//@ extern func (t time.Time) Local() (r time.Time)
//@   pure
//@ extern func (t time.Time) Truncate(d time.Duration) (r time.Time)
//@   pure
//@ extern func (t time.Time) Round(d time.Duration) (r time.Time)
//@   pure

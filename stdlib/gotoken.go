//go:build verif

// gotoken.go: go/token.IsIdentifier is the oracle for "is a valid Go identifier" (pure function of
// its argument); unicode case mapping, naming rules and strings.Join are deterministic functions
// about which nothing else is assumed.

package PKG

import (
	"go/token"
	"unicode"
)

//@ use join

//@ extern func token.IsIdentifier(name string) (ok bool)
//@   pure
//@ extern func unicode.ToUpper(r rune) (u rune)
//@   pure
//@ extern func unicode.ToLower(r rune) (u rune)
//@   pure

var (
	_ = token.IsIdentifier
	_ = unicode.ToUpper
)

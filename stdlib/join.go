//go:build verif

// join.go: strings.Join against its recursive definition; rune conversions of ASCII text.

package PKG

import "strings"

// joinS: elems joined by sep (the definition in the strings.Join documentation).
func joinS(elems []string, sep string) string {
	if len(elems) == 0 {
		return ""
	}
	if len(elems) == 1 {
		return elems[0]
	}
	return elems[0] + sep + joinS(elems[1:], sep)
}

//@ extern func strings.Join(elems []string, sep string) (r string)
//@   pure
//@   ensures def: r == joinS(elems, sep)

// asciiStr: every byte is below 0x80.
func asciiStr(s string) bool {
	return vForallIn(0, len(s), func(j int) bool { return s[j] < 0x80 })
}

// Rune conversions. Go spec, "Conversions to and from a string type": string([]rune) is the
// concatenation of the UTF-8 encodings of the code points; []rune(string) decodes UTF-8. Hence
// (trusted lemmas, not provable here: the engine keeps both conversions uninterpreted):
//@ lemma runesCat(a []rune, b []rune)
//@   trusted Go spec: string([]rune) concatenates the encodings of the elements, so it distributes over append
//@   ensures cat: string(vCat(a, b)) == string(a) + string(b)
//@   trigger string(vCat(a, b))

//@ lemma runesOfASCII(s string)
//@   trusted Go spec: decoding and re-encoding valid UTF-8 (in particular ASCII) text is the identity
//@   requires ascii: asciiStr(s)
//@   ensures id: string([]rune(s)) == s
//@   trigger []rune(s)

//@ lemma runeUnitASCII(c rune)
//@   trusted Go spec: the UTF-8 encoding of a code point below 0x80 is that single byte
//@   requires ascii: 0 <= c && c < 0x80
//@   ensures unit: string([]rune{c}) == str1(byte(c))
//@   trigger []rune{c}

var _ = strings.Join

//go:build verif

// join.go: strings.Join against its recursive definition; rune conversions of ASCII text.

package PKG

import "strings"

//@ use strings

// joinS: elems joined by sep (the definition in the strings.Join documentation).
func joinS(elems []string, sep string) string {
	if len(elems) == 0 {
		return ""
	}
	if len(elems) == 1 {
		return elems[0]
	}
	return elems[0] + sep + joinS(elems[1:], sep)
}

//@ extern func strings.Join(elems []string, sep string) (r string)
//@   pure
//@   ensures def: r == joinS(elems, sep)

// noByte: s is free of the byte c.
func noByte(s string, c byte) bool {
	return vForallIn(0, len(s), func(j int) bool { return s[j] != c })
}

// splitS: strings.Split with a one-byte separator (documentation: "slices s into all substrings
// separated by sep"; no separator: the one-element slice [s]).
func splitS(s string, d byte) []string {
	if indexB(s, d) < 0 {
		return []string{s}
	}
	return vCat([]string{s[:indexB(s, d)]}, splitS(s[indexB(s, d)+1:], d))
}

//@ extern func strings.Split(s string, sep string) (r []string)
//@   pure
//@   ensures one: len(sep) == 1 ==> vSeqEq(r, splitS(s, sep[0]))

// The first occurrence of d in a + d + rest is at len(a) when a is free of d.
//@ lemma indexBCat(a string, d byte, rest string)
//@   requires free: vForallIn(0, len(a), func(j int) bool { return a[j] != d })
//@   ensures at: indexB(a + str1(d) + rest, d) == len(a)
//@   decreases len(a)
//@   induct a[1:], d, rest
//@   trigger indexB(a + str1(d) + rest, d)

// A text free of d has no occurrence of d.
//@ lemma indexBNone(a string, d byte)
//@   requires free: vForallIn(0, len(a), func(j int) bool { return a[j] != d })
//@   ensures none: indexB(a, d) < 0
//@   decreases len(a)
//@   induct a[1:], d
//@   trigger indexB(a, d)

// Splitting a joined list gives the list back (non-empty list, items free of the separator).
//@ lemma splitJoin(items []string, d byte)
//@   requires some: len(items) > 0
//@   requires free: vForallIn(0, len(items), func(k int) bool { return vTrig(items[k]) && noByte(items[k], d) })
//@   ensures inv: vSeqEq(splitS(joinS(items, str1(d)), d), items)
//@   decreases len(items)
//@   induct items[1:], d
//@   uses indexBCat, indexBNone
//@   trigger splitS(joinS(items, str1(d)), d)

// asciiStr: every byte is below 0x80.
func asciiStr(s string) bool {
	return vForallIn(0, len(s), func(j int) bool { return s[j] < 0x80 })
}

// Rune conversions. Go spec, "Conversions to and from a string type": string([]rune) is the
// concatenation of the UTF-8 encodings of the code points; []rune(string) decodes UTF-8. Hence
// (trusted lemmas, not provable here: the engine keeps both conversions uninterpreted):
//@ lemma runesCat(a []rune, b []rune)
//@   trusted Go spec: string([]rune) concatenates the encodings of the elements, so it distributes over append
//@   ensures cat: string(vCat(a, b)) == string(a) + string(b)
//@   trigger string(vCat(a, b))

//@ lemma runesOfASCII(s string)
//@   trusted Go spec: decoding and re-encoding valid UTF-8 (in particular ASCII) text is the identity
//@   requires ascii: asciiStr(s)
//@   ensures id: string([]rune(s)) == s
//@   trigger []rune(s)

//@ lemma runeUnitASCII(c rune)
//@   trusted Go spec: the UTF-8 encoding of a code point below 0x80 is that single byte
//@   requires ascii: 0 <= c && c < 0x80
//@   ensures unit: string([]rune{c}) == str1(byte(c))
//@   trigger []rune{c}

var _ = strings.Join

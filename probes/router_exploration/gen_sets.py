import random, json, itertools, os, sys
random.seed(int(sys.argv[1]) if len(sys.argv)>1 else 1)
N=int(sys.argv[2]) if len(sys.argv)>2 else 120
statics=["a","ab","b"]
suffixes=[".j","-"]
def segs():
    out=[]
    for s in statics: out.append(s)
    out.append("{P}")
    for s in statics: out.append(s+"{P}")
    for s in suffixes: out.append("{P}"+s)
    out.append("a{P}b")
    return out
SEGS=segs()
def templates(maxdepth=3):
    ts=[]
    for d in range(1,maxdepth+1):
        for combo in itertools.product(SEGS, repeat=d):
            ts.append("/"+"/".join(combo))
            if d<maxdepth: ts.append("/"+"/".join(combo)+"/")
    return ts
ALL=templates()
def name_params(t):
    i=0; out=""
    k=0
    while k<len(t):
        if t.startswith("{P}",k):
            out+="{p%d}"%i; i+=1; k+=3
        else:
            out+=t[k]; k+=1
    return out,i
def pid(t): return t.replace("{P}","{}")
corner=[
 ["/a/{P}.j","/a/ab"],
 ["/a/{P}","/a/b"],
 ["/a/{P}/b","/a/b/a"],
 ["/a/b/{P}/a","/a/{P}/b/ab"],
 ["/{P}","/a"],
 ["/a{P}","/ab"],
 ["/a{P}b","/ab"],
 ["/{P}.j","/{P}-"],
 ["/a/{P}.j","/a/{P}-","/a/{P}"],
 ["/a/","/a","/a/{P}"],
 ["/{P}/a","/{P}/b","/ab/{P}"],
 ["/a{P}/b","/ab/b","/a{P}"],
]
sets=[c for c in corner]
seen=set(tuple(sorted(c)) for c in corner)
while len(sets)<N:
    k=random.choice([1,2,2,3,3,4])
    # bias towards shared prefixes: pick a base and vary
    base=random.choice(ALL)
    cand=[t for t in ALL if t.split("/")[1]==base.split("/")[1] or random.random()<0.05]
    c=random.sample(cand,min(k,len(cand)))
    if len(set(pid(t) for t in c))<len(c): continue
    key=tuple(sorted(c))
    if key in seen: continue
    seen.add(key); sets.append(c)
os.makedirs("specs",exist_ok=True)
index=[]
for si,c in enumerate(sets):
    paths={}
    routes=[]
    for ti,t in enumerate(c):
        nt,np=name_params(t)
        methods=["get"] if (si+ti)%3 else ["get","post"]
        ops={}
        for m in methods:
            op={"operationId":"op%d%s"%(ti,m),"responses":{"200":{"description":"ok"}}}
            if np: op["parameters"]=[{"name":"p%d"%i,"in":"path","required":True,"schema":{"type":"string"}} for i in range(np)]
            ops[m]=op
            routes.append({"method":m.upper(),"template":nt,"op":"Op%d%s"%(ti,m)})
        paths[nt]=ops
    spec={"openapi":"3.0.3","info":{"title":"t","version":"1"},"paths":paths}
    json.dump(spec,open("specs/s%03d.json"%si,"w"))
    index.append({"id":"s%03d"%si,"routes":routes})
json.dump(index,open("specs/index.json","w"))
print(len(sets),"sets")

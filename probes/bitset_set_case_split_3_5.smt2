
(set-option :smt.mbqi false)
(set-option :auto_config false)
(define-fun max2 ((a Int) (b Int)) Int (ite (>= a b) a b))


(declare-fun a0 () (Array Int Int))
(declare-fun n () Int)
(declare-fun mi () Int)
(declare-fun mj () Int)
(declare-fun v () Bool)
(define-fun i () Int (+ (* 8 mi) 3))
(define-fun j () Int (+ (* 8 mj) 5))
(assert (>= mi 0)) (assert (>= mj 0))
(assert (> n mi)) (assert (< mj n))
(assert (forall ((k Int)) (! (and (<= 0 (select a0 k)) (<= (select a0 k) 255)) :pattern ((select a0 k)))))
(define-fun setv () Int (ite v 1 0))
(define-fun sh () Int (mod (* setv 8) 256))
(define-fun old () Int (select a0 mi))
(define-fun a1 () (Array Int Int) (store a0 mi (+ (* 1 (max2 (mod (div old 1) 2) (mod (div sh 1) 2))) (* 2 (max2 (mod (div old 2) 2) (mod (div sh 2) 2))) (* 4 (max2 (mod (div old 4) 2) (mod (div sh 4) 2))) (* 8 (max2 (mod (div old 8) 2) (mod (div sh 8) 2))) (* 16 (max2 (mod (div old 16) 2) (mod (div sh 16) 2))) (* 32 (max2 (mod (div old 32) 2) (mod (div sh 32) 2))) (* 64 (max2 (mod (div old 64) 2) (mod (div sh 64) 2))) (* 128 (max2 (mod (div old 128) 2) (mod (div sh 128) 2))))))
(assert (not (= (= (mod (div (select a1 mj) 32) 2) 1) (or (= (mod (div (select a0 mj) 32) 2) 1) (and (= j i) v)))))
(check-sat)


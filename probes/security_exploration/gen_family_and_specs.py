import itertools, json, os, random
random.seed(1)
os.makedirs("specs",exist_ok=True)
subsets=[tuple(s) for r in range(0,4) for s in itertools.combinations(range(3),r)]  # 8 subsets incl. empty
structs=[]
for n in (1,2,3):
    for alts in itertools.product(subsets,repeat=n):
        structs.append([list(a) for a in alts])
random.shuffle(structs)
structs=structs[:140]
# byte-boundary structures
structs.append([[0,8],[9]])
structs.append([[7,8,16],[3]])
structs.append([list(range(10))])
structs.append([[0],[17],[8,9]])
index=[]
for si,st in enumerate(structs):
    used=sorted({i for a in st for i in a})
    nsch=max(used)+1 if used else 1
    schemes={f"k{i}":{"type":"apiKey","in":"header","name":f"X-K{i}"} for i in range(nsch)}
    sec=[{f"k{i}":[] for i in a} for a in st]
    spec={"openapi":"3.0.3","info":{"title":"t","version":"1"},
          "paths":{"/x":{"get":{"operationId":"getX","security":sec,"responses":{"200":{"description":"ok"}}}}},
          "components":{"securitySchemes":schemes}}
    json.dump(spec,open(f"specs/s{si:03d}.json","w"))
    index.append({"id":f"s{si:03d}","alts":st,"used":used})
json.dump(index,open("specs/index.json","w"))
print(len(index))

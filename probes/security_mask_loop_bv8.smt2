; generated closure: for _, requirement := range reqs { for i, mask := range requirement { if satisfied[i]&mask != mask {continue next} } return true } return false
; inner loop invariant (index i over N bytes): forall t < i: sat[t] & req[t] == req[t]
(set-option :smt.mbqi false)
(set-option :auto_config false)
(declare-fun sat () (Array Int (_ BitVec 8)))
(declare-fun req () (Array Int (_ BitVec 8)))
(declare-fun N () Int)
(declare-fun i () Int)
(define-fun okAt ((t Int)) Bool (= (bvand (select sat t) (select req t)) (select req t)))
(assert (and (<= 0 i) (< i N)))
(assert (forall ((t Int)) (! (=> (and (<= 0 t) (< t i)) (okAt t)) :pattern ((select req t)))))
; body: if !okAt(i) -> continue outer (establishes: exists t<N: !okAt(t)) else i+1 preserves
(push)
(assert (okAt i))
(declare-fun t0 () Int)
(assert (and (<= 0 t0) (< t0 (+ i 1)) (not (okAt t0))))
(check-sat)
(pop)

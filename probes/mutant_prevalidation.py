import json, os, subprocess, sys, re
env=dict(os.environ, GOFLAGS="-mod=mod", GOPROXY="off", GOSUMDB="off", GOTOOLCHAIN="local")
# (id, property, package dir, file, old, new, sanity-test regexp, draft dir)
M=[
 ("uri-01","C12","uri","normalize.go","if asciiIsLowercase(a) || asciiIsLowercase(b) {\n\t\t\tgoto slow","if asciiIsLowercase(a) && asciiIsLowercase(b) {\n\t\t\tgoto slow","TestDraftSpecNormalize","uri"),
 ("uri-02","C12","uri","normalize.go","case '-', '_', '.', '~': // §2.3","case '-', '_', '.': // §2.3","TestDraftSpecNormalize","uri"),
 ("uri-03","C12","uri","normalize.go","\t\t\t\tt.WriteByte(asciiToUpper(b))","\t\t\t\tt.WriteByte(b)","TestDraftSpecNormalize","uri"),
 ("uri-04","C06","uri","cookie_escape.go","sb.WriteByte(hex[c&15])","sb.WriteByte(hex[c&7])","TestDraftSpecCookie","uri"),
 ("uri-05","C06","uri","cookie_escape.go","\t';':    1,\n","","TestDraftSpecCookie","uri"),
 ("uri-06","C06","uri","cookie_escape.go","if i+2 >= len(s) || !ishex(s[i+1]) || !ishex(s[i+2]) {","if i+2 > len(s) || !ishex(s[i+1]) || !ishex(s[i+2]) {","TestDraftSpecCookie","uri"),
 ("uri-07","C06","uri","path_encoder.go","\t\t\tif err := checkNotContains(val, chars); err != nil {","\t\t\tif err := checkNotContains(val, \"\"); err != nil {","TestDraftSpecPathArray","uri"),
 ("uri-08","C06","uri","path_encoder.go","\t\t\treturn \".\" + strings.Join(e.items, \",\"), nil","\t\t\treturn \".\" + strings.Join(e.items, \".\"), nil","TestDraftSpecPathArray","uri"),
 ("uri-09","C06","uri","path_encoder.go","\t\t\tif e.explode {\n\t\t\t\tchars = \";\"\n\t\t\t}","\t\t\tif e.explode {\n\t\t\t\tchars = \",\"\n\t\t\t}","TestDraftSpecPathArray","uri"),
 ("uri-10","C06","uri","cursor.go","\tc.pos += len(before) + 1\n\treturn before, true, nil","\tc.pos += len(before)\n\treturn before, true, nil","TestDraftSpecPieces|TestDraftSpecPathArray","uri"),
 ("uri-11","C06","uri","path_decoder.go","\t\tdelim := byte(',')\n\t\tif d.explode {\n\t\t\tdelim = '.'\n\t\t}","\t\tdelim := byte(',')\n\t\tif !d.explode {\n\t\t\tdelim = '.'\n\t\t}","TestDraftSpecPathArray","uri"),
 ("jp-01","C16","jsonpointer","jsonpointer.go","\tif index >= uint64(len(children)) {","\tif index > uint64(len(children)) {","TestDraftSpec","jsonpointer"),
 ("jp-02","C16","jsonpointer","jsonpointer.go","\tfor i := 0; i < len(children); i += 2 {\n\t\tkey, value := children[i], children[i+1]\n\t\tif key.Value == part {\n\t\t\treturn value, true","\tfor i := 0; i < len(children); i += 2 {\n\t\tkey, value := children[i], children[i+1]\n\t\tif key.Value == part {\n\t\t\t_ = value\n\t\t\treturn key, true","TestDraftSpec","jsonpointer"),
 ("jp-03","C16","jsonpointer","jsonpointer.go","\t\"~1\", \"/\",\n\t\"~0\", \"~\",","\t\"~0\", \"/\",\n\t\"~1\", \"~\",","TestDraftSpec","jsonpointer"),
 ("jp-04","C16","jsonpointer","split.go","\t\ts = s[idx+1:]","\t\ts = s[idx:]\n\t\tif len(s) > 0 {\n\t\t\ts = s[1:]\n\t\t}\n\t\tif len(s) > 0 && s[0] == '/' {\n\t\t\ts = s[1:]\n\t\t}","TestDraftSpec","jsonpointer"),
 ("val-01","C03","validate","int.go","if t.MinSet && (v < t.Min || t.MinExclusive && v == t.Min) {","if t.MinSet && (v <= t.Min || t.MinExclusive && v == t.Min) {","TestDraftSpec","validate"),
 ("val-02","C03","validate","int.go","if t.MaxSet && (v > t.Max || t.MaxExclusive && v == t.Max) {","if t.MaxSet && (v > t.Max || t.MinExclusive && v == t.Max) {","TestDraftSpec","validate"),
 ("val-03","C03","validate","int.go","\tif v < 0 {\n\t\tv *= -1\n\t}\n","\tif v < 0 && v != -9223372036854775808 {\n\t\tv *= -1\n\t} else if v < 0 {\n\t\tv = 9223372036854775807\n\t}\n","TestDraftSpec","validate"),
 ("val-04","C03","validate","array.go","\t\tfor _, b := range arr[i+1:] {","\t\tfor _, b := range arr[i+2:] {","TestDraftSpec","validate"),
 ("bs-01","C09","internal/bitset","bitset.go","\tbitIdx := i % 8\n\n\tset := uint8(0)\n\tif v {","\tbitIdx := i % 7\n\n\tset := uint8(0)\n\tif v {","TestDraftSpec","bitset"),
 ("bs-02","C09","internal/bitset","bitset.go","\t\tif len(r) <= maskIdx {\n\t\t\tr = append(r, 0)\n\t\t}","\t\tif len(r) < maskIdx {\n\t\t\tr = append(r, 0)\n\t\t}","TestDraftSpec","bitset"),
 ("uri-12","C12","uri","normalize.go","if idx+2 >= len(iter) || !ishex(iter[idx+1]) || !ishex(iter[idx+2]) {","if idx+2 > len(iter) || !ishex(iter[idx+1]) || !ishex(iter[idx+2]) {","TestDraftSpecNormalize","uri"),
 ("uri-13","C12","uri","normalize.go","\tcase 'A' <= c && c <= 'F':\n\t\treturn c - 'A' + 10","\tcase 'A' <= c && c <= 'F':\n\t\treturn c - 'A' + 11","TestDraftSpecNormalize","uri"),
 ("uri-14","C06","uri","cursor.go","\tc.pos += idx + 1\n\treturn c.src[from : from+idx], nil","\tc.pos += idx\n\treturn c.src[from : from+idx], nil","TestDraftSpec","uri"),
 ("uri-15","C06","uri","path_encoder.go","\t\tprefix := \";\" + e.param + \"=\"\n\t\treturn prefix + strings.Join(e.items, prefix), nil","\t\tprefix := \";\" + e.param + \"=\"\n\t\treturn prefix + strings.Join(e.items, \";\"), nil","TestDraftSpecPathArray","uri"),
 ("uri-16","C06","uri","cookie_escape.go","\t\tif c >= length || cookieEscapeChars[c] == 1 {\n\t\t\tsb.WriteByte(cookieEscaper)","\t\tif c > length || cookieEscapeChars[c&127] == 1 {\n\t\t\tsb.WriteByte(cookieEscaper)","TestDraftSpecCookie","uri"),
 ("uri-17","C06","uri","path_decoder.go","\t\t\tif param != d.param {\n\t\t\t\treturn errors.Errorf(\"unexpected param name: %q\", param)\n\t\t\t}\n\n\t\t\tif !hasNext {\n\t\t\t\treturn io.EOF\n\t\t\t}\n\n\t\t\tvalue, hasNext, err := d.cur.readValue(';')","\t\t\tif param != d.param {\n\t\t\t\treturn errors.Errorf(\"unexpected param name: %q\", param)\n\t\t\t}\n\n\t\t\tif !hasNext {\n\t\t\t\treturn io.EOF\n\t\t\t}\n\n\t\t\tvalue, hasNext, err := d.cur.readValue(',')","TestDraftSpecPathArray","uri"),
 ("jp-05","C16","jsonpointer","jsonpointer.go","\tif !strings.Contains(part, \"~1\") && !strings.Contains(part, \"~0\") {","\tif !strings.Contains(part, \"~1\") {","TestDraftSpec","jsonpointer"),
 ("jp-06","C16","jsonpointer","jsonpointer.go","\tindex, err := strconv.ParseUint(part, 10, 64)","\tindex, err := strconv.ParseUint(part, 0, 64)","TestDraftSpec","jsonpointer"),
 ("val-05","C03","validate","array.go","\tif t.MinLengthSet && v < t.MinLength {","\tif t.MinLengthSet && v <= t.MinLength {","TestDraftSpec","validate"),
 ("val-06","C03","validate","int.go","\tif t.MultipleOfSet && (uint64(v)%t.MultipleOf) != 0 {","\tif t.MultipleOfSet && (uint64(uint32(v))%t.MultipleOf) != 0 {","TestDraftSpec","validate"),
 ("bs-03","C09","internal/bitset","bitset.go","\tmaskIdx := i / 8\n\tfor len(*r) <= maskIdx {","\tmaskIdx := i / 8\n\tfor len(*r) < maskIdx {","TestDraftSpec","bitset"),
]
only=set(sys.argv[1:])
rows=[]
for (mid,prop,pkg,fn,old,new,tre,draft) in M:
    if only and mid not in only: continue
    src=open(f"/repo/{pkg}/{fn}").read()
    if old not in src:
        rows.append((mid,prop,f"{pkg}/{fn}","PATTERN-NOT-FOUND","","")); continue
    mfile=f"/root/scratch/mut/{mid}_{fn}"
    open(mfile,"w").write(src.replace(old,new,1))
    # 1. existing tests of the package with the mutant (no tag)
    ov1=f"/root/scratch/mut/{mid}_ov1.json"
    json.dump({"Replace":{f"/repo/{pkg}/{fn}":mfile}},open(ov1,"w"))
    r1=subprocess.run(["go","test","-overlay",ov1,"-vet=off","-count=1","-timeout","120s",f"./{pkg}/"],cwd="/repo",env=env,capture_output=True,text=True,errors="replace")
    build_ok = "[build failed]" not in r1.stdout+r1.stderr
    tests = "pass" if r1.returncode==0 else ("BUILD-FAIL" if not build_ok else "FAIL")
    # 2. draft spec sanity with the mutant
    d=json.load(open(f"/verif/drafts/{draft}/overlay.json"))
    d["Replace"][f"/repo/{pkg}/{fn}"]=mfile
    ov2=f"/root/scratch/mut/{mid}_ov2.json"
    json.dump(d,open(ov2,"w"))
    r2=subprocess.run(["go","test","-tags","verif","-overlay",ov2,"-vet=off","-count=1","-timeout","120s","-run",tre,"-v",f"./{pkg}/"],cwd="/repo",env=env,capture_output=True,text=True,errors="replace")
    out=r2.stdout+r2.stderr
    # detection: test failed, or (for normalize) disagreement count changed / non-panic disagreement kinds
    det = "detected" if r2.returncode!=0 else "not-detected"
    m=re.search(r"(\d+) disagreements",out)
    extra=""
    if m and mid.startswith("uri-0") and "Normalize" in tre:
        extra=f"{m.group(1)} disagreements"
        kinds=re.findall(r"^\s+\S+:\d+:\s+(\S+) ×(\d+)",out,re.M)
        extra+=" "+",".join(f"{k}×{c}" for k,c in kinds)
        if m.group(1)!="140" or any(k!="panic" for k,c in kinds): det="detected"
    first=""
    for line in out.splitlines():
        if "spec" in line and ("Errorf" in line or ":" in line) and ("real" in line or "fails" in line or "differs" in line):
            first=line.strip()[:140]; break
    rows.append((mid,prop,f"{pkg}/{fn}",tests,det,(extra+" "+first).strip()))
for r in rows: print(" | ".join(r))

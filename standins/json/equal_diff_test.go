//go:build verif

package json

// Bounded stand-in for the clauses of C18 that are not under contract (arrays, objects, strings,
// kind dispatch, the decoder token protocol): Equal is compared with a reference equality computed
// on the values decoded by encoding/json (numbers compared exactly as rationals) on all pairs of a
// bounded set of JSON texts. Labelled bounded; never counted as proved.

import (
	"bytes"
	stdjson "encoding/json"
	"fmt"
	"math/big"
	"os"
	"sort"
	"testing"
)

func verifRefDecode(s string) (any, bool) {
	d := stdjson.NewDecoder(bytes.NewReader([]byte(s)))
	d.UseNumber()
	var v any
	if err := d.Decode(&v); err != nil {
		return nil, false
	}
	return v, true
}

func verifRefEqual(a, b any) bool {
	switch x := a.(type) {
	case nil:
		return b == nil
	case bool:
		y, ok := b.(bool)
		return ok && x == y
	case string:
		y, ok := b.(string)
		return ok && x == y
	case stdjson.Number:
		y, ok := b.(stdjson.Number)
		if !ok {
			return false
		}
		p, ok1 := new(big.Rat).SetString(string(x))
		q, ok2 := new(big.Rat).SetString(string(y))
		return ok1 && ok2 && p.Cmp(q) == 0
	case []any:
		y, ok := b.([]any)
		if !ok || len(x) != len(y) {
			return false
		}
		for i := range x {
			if !verifRefEqual(x[i], y[i]) {
				return false
			}
		}
		return true
	case map[string]any:
		y, ok := b.(map[string]any)
		if !ok || len(x) != len(y) {
			return false
		}
		for k, v := range x {
			w, ok := y[k]
			if !ok || !verifRefEqual(v, w) {
				return false
			}
		}
		return true
	}
	return false
}

func TestVerifStandinEqual(t *testing.T) {
	thorough := os.Getenv("VERIF_TIER") == "thorough"
	atoms := []string{"null", "true", "false", "0", "-0", "1", "1.0", "1e0", "10", "1e1", "0.5", "5e-1", "-1",
		"12345678901234567890", "12345678901234567891", "1e400", `""`, `"a"`, `"\u0061"`, `"\n"`, `"\\n"`, `"/"`, `"\/"`, `"A"`}
	texts := append([]string{}, atoms...)
	level := append([]string{}, atoms...)
	depth := 1
	if thorough {
		depth = 2
	}
	small := []string{"null", "1", "1.0", `"a"`, "true", "[]", "{}"}
	for d := 0; d < depth; d++ {
		var next []string
		elems := level
		if d > 0 {
			elems = append(append([]string{}, small...), "[null]", `{"a":null}`, "[1,null]")
		}
		next = append(next, "[]", "{}", "[ ]", "{ }")
		for _, a := range elems {
			next = append(next, "["+a+"]", "[ "+a+" ]", `{"a":`+a+`}`, `{ "a" : `+a+` }`, `{"b":`+a+`}`)
		}
		for _, a := range small {
			for _, b := range small {
				next = append(next, "["+a+","+b+"]", `{"a":`+a+`,"b":`+b+`}`, `{"b":`+b+`,"a":`+a+`}`)
			}
		}
		texts = append(texts, next...)
		level = next
	}
	seen := map[string]bool{}
	var uniq []string
	for _, s := range texts {
		if !seen[s] {
			seen[s] = true
			uniq = append(uniq, s)
		}
	}
	sort.Strings(uniq)
	vals := make([]any, len(uniq))
	valid := make([]bool, len(uniq))
	for i, s := range uniq {
		vals[i], valid[i] = verifRefDecode(s)
	}
	pairs, nviol := 0, 0
	reported := map[string]bool{}
	for i, a := range uniq {
		if !valid[i] {
			continue
		}
		for j, b := range uniq {
			if !valid[j] {
				continue
			}
			pairs++
			want := verifRefEqual(vals[i], vals[j])
			got, err := Equal([]byte(a), []byte(b))
			if err == nil && got == want {
				continue
			}
			// one report per left text (keeps the output small)
			if reported[a] || nviol >= 12 {
				continue
			}
			reported[a] = true
			nviol++
			e := ""
			if err != nil {
				e = err.Error()
			}
			fmt.Printf("VERIF-STANDIN-VIOLATION: {\"left\":%q,\"right\":%q,\"equal_returned\":%v,\"error\":%q,\"same_json_value\":%v,\"key\":%q}\n", a, b, got, e, want, a+" ~ "+b)
		}
	}
	fmt.Printf("VERIF-STANDIN: {\"texts\":%d,\"pairs\":%d,\"disagreements_reported\":%d}\n", len(uniq), pairs, nviol)
	if nviol > 0 {
		t.Fail()
	}
}

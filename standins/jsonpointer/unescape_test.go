//go:build verif

package jsonpointer

// Bounded stand-in (C16): the contract of unescape ASSUMES that the package-level
// strings.Replacer performs the single left-to-right pass of RFC 6901 section 4. This test checks
// that assumption on the real function for every token of length <= 7 over {~,0,1,/,a,2}.

import (
	"fmt"
	"testing"
)

func refUnescape(s string) string {
	out := make([]byte, 0, len(s))
	for i := 0; i < len(s); i++ {
		if s[i] == '~' && i+1 < len(s) && s[i+1] == '1' {
			out = append(out, '/')
			i++
		} else if s[i] == '~' && i+1 < len(s) && s[i+1] == '0' {
			out = append(out, '~')
			i++
		} else {
			out = append(out, s[i])
		}
	}
	return string(out)
}

func TestVerifStandinUnescape(t *testing.T) {
	alpha := []byte("~01/a2")
	n, bad := 0, 0
	var rec func(p []byte)
	rec = func(p []byte) {
		s := string(p)
		n++
		if got, want := unescape(s), refUnescape(s); got != want && bad < 5 {
			bad++
			fmt.Printf("VERIF-STANDIN-VIOLATION: {\"token\":%q,\"unescape_returned\":%q,\"rfc6901\":%q,\"key\":%q}\n", s, got, want, s)
		}
		if len(p) >= 7 {
			return
		}
		for _, c := range alpha {
			rec(append(p, c))
		}
	}
	rec(nil)
	fmt.Printf("VERIF-STANDIN: {\"tokens\":%d,\"max_len\":7,\"alphabet\":%q,\"disagreements\":%d}\n", n, string(alpha), bad)
	if bad > 0 {
		t.Fail()
	}
}

//go:build verif

package gen

// Bounded stand-in (C11, "the generator is total"): generate2 and its closures are outside the
// verifier's subset (closure-heavy, recover()-based depth limit). This test runs the REAL pipeline
// (ogen.Parse, NewGenerator) on every document of a small grammar: each keyword position that holds
// a subschema (properties, patternProperties, additionalProperties, items, allOf/oneOf/anyOf) is
// filled with each of a few subschemas including `null` (which the schema parser answers with a nil
// *jsonschema.Schema, "any value"), in three places of a document (response, request body,
// referenced component). Oracle: no panic; an error is a fine answer. Bounded, never counted as proved.

import (
	"fmt"
	"os"
	"strings"
	"testing"

	"github.com/ogen-go/ogen"
)

var verifNullShapes = []string{
	`{"type":"object","properties":{"k":§}}`,
	`{"type":"object","required":["k"],"properties":{"k":§}}`,
	`{"type":"object","properties":{"k":{"type":"string"}},"patternProperties":{"^x":§}}`,
	`{"type":"object","patternProperties":{"^x":§}}`,
	`{"type":"object","patternProperties":{"^x":§,"^y":{"type":"string"}}}`,
	`{"type":"object","properties":{"k":{"type":"string"}},"patternProperties":{"^x":§,"^y":§}}`,
	`{"type":"object","additionalProperties":§}`,
	`{"type":"object","properties":{"k":{"type":"string"}},"additionalProperties":§}`,
	`{"type":"object","properties":{"k":{"type":"string"}},"additionalProperties":§,"patternProperties":{"^x":§}}`,
	`{"type":"array","items":§}`,
	`{"allOf":[§,{"type":"object","properties":{"a":{"type":"string"}}}]}`,
	`{"oneOf":[§,{"type":"string"}]}`,
	`{"anyOf":[§,{"type":"integer"}]}`,
	`{"type":"object","properties":{"k":{"type":"string"}},"patternProperties":{"^x":{"type":"array","items":§}}}`,
}

var verifNullFills = []string{
	`null`,
	`{}`,
	`{"type":"string"}`,
	`{"type":"object","properties":{"q":{"type":"string"}},"patternProperties":{"^z":null}}`,
	`{"type":"array","items":null}`,
}

var verifNullDocs = []string{
	`{"openapi":"3.0.3","info":{"title":"t","version":"1"},"paths":{"/a":{"get":{"operationId":"a","responses":{"200":{"description":"ok","content":{"application/json":{"schema":§}}}}}}}}`,
	`{"openapi":"3.0.3","info":{"title":"t","version":"1"},"paths":{"/a":{"post":{"operationId":"a","requestBody":{"required":true,"content":{"application/json":{"schema":§}}},"responses":{"200":{"description":"ok"}}}}}}`,
	`{"openapi":"3.0.3","info":{"title":"t","version":"1"},"paths":{"/a":{"get":{"operationId":"a","responses":{"200":{"description":"ok","content":{"application/json":{"schema":{"$ref":"#/components/schemas/T"}}}}}}}},"components":{"schemas":{"T":§}}}`,
}

func verifRunPipeline(doc string) (outcome string) {
	defer func() {
		if r := recover(); r != nil {
			outcome = fmt.Sprintf("panic: %v", r)
		}
	}()
	spec, err := ogen.Parse([]byte(doc))
	if err != nil {
		return "error"
	}
	if _, err := NewGenerator(spec, Options{}); err != nil {
		return "error"
	}
	return "ok"
}

func TestVerifStandinNullSubschema(t *testing.T) {
	n, ok, errs, bad := 0, 0, 0, 0
	fills := verifNullFills
	if os.Getenv("VERIF_TIER") == "thorough" {
		// depth 2: every shape with a null slot is itself a fill
		for _, sh := range verifNullShapes {
			fills = append(fills[:len(fills):len(fills)], strings.ReplaceAll(sh, "§", "null"))
		}
	}
	for di, d := range verifNullDocs {
		for si, sh := range verifNullShapes {
			for fi, f := range fills {
				schema := strings.ReplaceAll(sh, "§", f)
				doc := strings.ReplaceAll(d, "§", schema)
				n++
				switch out := verifRunPipeline(doc); {
				case out == "ok":
					ok++
				case out == "error":
					errs++
				default:
					bad++
					if bad <= 5 {
						fmt.Printf("VERIF-STANDIN-VIOLATION: {\"doc\":%q,\"schema\":%q,\"outcome\":%q,\"key\":\"d%d/s%d/f%d\"}\n", doc, schema, out, di, si, fi)
					}
				}
			}
		}
	}
	fmt.Printf("VERIF-STANDIN: {\"documents\":%d,\"generated\":%d,\"refused_with_error\":%d,\"panics\":%d}\n", n, ok, errs, bad)
	if bad > 0 {
		t.Fail()
	}
}

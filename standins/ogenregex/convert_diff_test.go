//go:build verif

package ogenregex

// Bounded stand-in for the clause of C08 no contract can decide (language equivalence of Convert):
// for every pattern of a small ECMA-262 grammar for which Compile would use the linear-time engine
// (Convert ok and regexp.Compile ok), the converted RE2 expression and the regexp2 ECMAScript|Unicode
// engine (the oracle: the engine ogen itself falls back to) must agree on every subject string of a
// bounded set. Labelled bounded; never counted as proved.

import (
	"encoding/json"
	"fmt"
	"os"
	"regexp"
	"sort"
	"strings"
	"testing"

	"github.com/dlclark/regexp2"
)

func verifAtoms() []string {
	return []string{
		"a", "b", "1", "_", "-", " ", ".", `\d`, `\D`, `\w`, `\W`, `\s`, `\S`, `\b`, `\B`, "^", "$",
		`\n`, `\t`, `\r`, `\v`, `\f`, `\0`, `\cJ`, `\x41`, `A`, "\u00e9", "\u00a0", `\/`, `\-`, `\.`, `\$`, `\u00e9`, `\u2028`,
		"[ab]", "[^a]", "[a-b1]", `[a\-b]`, `[+\-/]`, `[\S]`, `[\D]`, `[\W]`, `[^\d]`, `[\s]`, `[\d_]`, `[^\s]`, `[\b]`, `[.]`, `[\-a]`, `[a\]]`, "[]", "[^]", `[\w-]`, `[\u00e9]`, `[^\S]`,
		"(a)", "(?:a|b)", "(a|)", "(?:)",
	}
}

func verifQuants() []string { return []string{"", "*", "+", "?", "{2}", "{1,2}", "{1,}", "*?", "+?", "??"} }

func verifSubjects(maxLen int) []string {
	alpha := []string{"a", "b", "A", "1", "_", "-", " ", "\n", "\r", "\t", "\v", "\f", "\x00", "\u00a0", "\u2028", "\ufeff", "\u00e9", "\U0001d4b3", ".", "/", "]", "$", ",", "+", "\u202f", "\u1680", "\u2003", "\u205f", "\u3000", "\u2029", "\u0085", "\U00020000", "\U0010ffff"}
	out := []string{""}
	level := []string{""}
	for l := 1; l <= maxLen; l++ {
		var next []string
		for _, p := range level {
			for _, c := range alpha {
				next = append(next, p+c)
			}
		}
		out = append(out, next...)
		level = next
	}
	return out
}

func TestVerifStandinConvert(t *testing.T) {
	thorough := os.Getenv("VERIF_TIER") == "thorough"
	atoms := verifAtoms()
	var pats []string
	seen := map[string]bool{}
	add := func(p string) {
		if !seen[p] {
			seen[p] = true
			pats = append(pats, p)
		}
	}
	for _, a := range atoms {
		for _, q := range verifQuants() {
			add(a + q)
		}
	}
	for _, a := range atoms {
		for _, b := range atoms {
			add(a + b)
			add(a + "|" + b)
			if thorough {
				add("(" + a + b + ")*")
				add("^" + a + b + "$")
				add(a + "+" + b)
				add("(?:" + a + "|" + b + ")+")
			}
		}
	}
	subjLen := 2
	if thorough {
		subjLen = 3
	}
	subjects := verifSubjects(subjLen)
	type viol struct {
		Pattern   string `json:"pattern"`
		Converted string `json:"converted"`
		Subject   string `json:"subject"`
		GoEngine  bool   `json:"linear_engine_matches"`
		ECMA      bool   `json:"ecmascript_engine_matches"`
		Key       string `json:"key"`
	}
	linear, fallback, invalid, compared := 0, 0, 0, 0
	classes := map[string]viol{}
	for _, p := range pats {
		conv, ok := Convert(p)
		if !ok {
			fallback++
			continue
		}
		re, err := regexp.Compile(conv)
		if err != nil {
			fallback++
			continue
		}
		re2, err := regexp2.Compile(p, regexp2.ECMAScript|regexp2.Unicode)
		if err != nil {
			invalid++
			continue
		}
		linear++
		// Oracle corrections (regexp2 deviates from ECMA-262 where RE2 and Convert do not): regexp2's
		// ECMAScript "." matches U+2028/U+2029 (ECMA-262 22.2.2.7: "." excludes all LineTerminators),
		// and its \b/\B treat non-ASCII letters as word characters (ECMA-262 WordCharacters is
		// [A-Za-z0-9_] without /i). Subjects on which only these deviations can show are skipped.
		skipLS := strings.Contains(conv, "\u2028\u2029]") // the rewritten dot (or [^...] spelled out) occurs
		skipNonASCII := strings.Contains(p, "\\b") || strings.Contains(p, "\\B")
		for _, s := range subjects {
			if skipLS && strings.ContainsAny(s, "\u2028\u2029") {
				continue
			}
			if skipNonASCII && strings.ContainsAny(s, "\u00e9\U0001d4b3\U00020000\U0010ffff") {
				continue
			}
			g := re.MatchString(s)
			e, err := re2.MatchString(s)
			if err != nil {
				continue
			}
			compared++
			if g != e {
				// one finding per pattern (first subject)
				if _, dup := classes[p]; !dup {
					classes[p] = viol{Pattern: p, Converted: conv, Subject: s, GoEngine: g, ECMA: e, Key: p}
				}
				break
			}
		}
	}
	keys := make([]string, 0, len(classes))
	for k := range classes {
		keys = append(keys, k)
	}
	sort.Strings(keys)
	for _, k := range keys {
		b, _ := json.Marshal(classes[k])
		fmt.Printf("VERIF-STANDIN-VIOLATION: %s\n", b)
	}
	sum, _ := json.Marshal(map[string]any{"patterns": len(pats), "linear_engine": linear, "fallback_engine": fallback, "rejected_by_oracle": invalid,
		"subjects": len(subjects), "comparisons": compared, "disagreeing_patterns": len(classes)})
	fmt.Printf("VERIF-STANDIN: %s\n", sum)
	if len(classes) > 0 {
		t.Fail()
	}
}

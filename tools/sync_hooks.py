#!/usr/bin/env python3
"""Copy the contract files of /verif/contracts/<pkg>/ into /repo/<pkg>/ (build tag verif, add-only
files named verif_contracts.go), one small commit per package, and record the commits in
MANIFEST.hooks.source_commits. The engine reads the file from the tree when it is there and falls
back to the mirror in /verif/contracts when it is not. Re-run after every change of a contract file."""
import json, os, shutil, subprocess, sys
VERIF="/verif"; REPO="/repo"
def git(*a):
    return subprocess.run(["git","-C",REPO,*a],capture_output=True,text=True)
commits=[]
for root,_,files in os.walk(os.path.join(VERIF,"contracts")):
    for f in files:
        if not (f.startswith("verif_") and f.endswith(".go")): continue
        rel=os.path.relpath(root,os.path.join(VERIF,"contracts"))
        src=os.path.join(root,f); dst=os.path.join(REPO,rel,f)
        if not os.path.isdir(os.path.join(REPO,rel)):
            print("skip (no such package in repo):",rel); continue
        head=open(src).read()
        assert head.startswith("//go:build verif"), src+": contract files must be guarded by the build tag"
        if os.path.exists(dst) and open(dst).read()==head: continue
        shutil.copy(src,dst)
        git("add",os.path.join(rel,f))
        r=git("commit","-q","-m","verif: contract file for package %s (build tag verif, add-only)\n\nSpecification comments (//@ blocks) and Go spec functions for the functions of this\npackage that are under contract; compiled only with -tags verif." % rel)
        if r.returncode!=0: print(r.stdout,r.stderr); sys.exit(1)
        sha=git("rev-parse","--short=8","HEAD").stdout.strip(); commits.append(sha); print("committed",rel,sha)
m=json.load(open(os.path.join(VERIF,"MANIFEST.json")))
hk=m["hooks"]; hk["source_commits"]=list(dict.fromkeys(hk.get("source_commits",[])+commits)); hk["add_only"]=True
json.dump(m,open(os.path.join(VERIF,"MANIFEST.json"),"w"),indent=1)
print("source_commits:",hk["source_commits"])

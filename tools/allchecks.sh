#!/bin/sh
# Runs every registered quick check on the unchanged tree; prints one line per property and exits
# non-zero if any check raised an alarm. Run before committing.
cd /verif || exit 2
bad=0
for p in $(python3 -c "import json; print(' '.join(c['property_id'] for c in json.load(open('MANIFEST.json'))['checks']))"); do
  out=$(./check $p quick 2>&1); rc=$?
  echo "$out" | tail -1
  if [ $rc -ne 0 ]; then bad=1; echo "$out" | grep -E "VIOLATION|ENGINE" | head -5; fi
done
exit $bad

//go:build verif

// Contract file of package json (build tag verif): the number comparison used for enum-duplicate
// detection and default comparison (C18).

package json

import (
	"net/netip"
	"net/url"
	"strconv"
	"time"

	"github.com/go-faster/jx"
)

var _ time.Time
var _ netip.Addr
var _ url.URL
var _ = strconv.FormatInt
var _ jx.Decoder

//@ use errors
//@ use jxnum
//@ use jxtime
//@ use strconv

// lastTwo: the two number texts the comparison read from its decoders (ghost log "nums").
func numL(log []string) []byte { return []byte(log[len(log)-2]) }
func numR(log []string) []byte { return []byte(log[len(log)-1]) }

// equalNumber decides semantic equality of the two numbers it reads: it answers true only for
// texts denoting the same number and false only for texts denoting different numbers.
//@ func (c compare) equalNumber() (ok bool, err error)
//@   requires decs: c.left != nil && c.right != nil
//@   modifies log:nums
//@   uses float64OfSameNumber
//@   ensures read:     err == nil ==> len(vLogStr("nums")) == len(old(vLogStr("nums"))) + 2
//@   ensures sound:    err == nil && ok ==> sameNumber(numL(vLogStr("nums")), numR(vLogStr("nums")))
//@   ensures complete: err == nil && !ok ==> !sameNumber(numL(vLogStr("nums")), numR(vLogStr("nums")))

// ---------------------------------------------------------------------------
// Unix-time helpers (C13): each decoder reads exactly one integer and builds the instant with the
// constructor of ITS resolution, with no intermediate arithmetic (so no int64 overflow can change
// the instant). The constructors themselves are uninterpreted.
// ---------------------------------------------------------------------------

//@ func DecodeUnixSeconds(d *jx.Decoder) (t time.Time, err error)
//@   requires dec: d != nil
//@   modifies log:ints
//@   ensures one: len(vLogStr("ints")) == len(old(vLogStr("ints"))) + 1
//@   ensures instant: err == nil ==> vExists(func(v int64) bool { return vTrig(strconv.FormatInt(v, 10)) && vLogStr("ints")[len(vLogStr("ints"))-1] == strconv.FormatInt(v, 10) && t == time.Unix(v, 0) })

//@ func DecodeUnixNano(d *jx.Decoder) (t time.Time, err error)
//@   requires dec: d != nil
//@   modifies log:ints
//@   ensures one: len(vLogStr("ints")) == len(old(vLogStr("ints"))) + 1
//@   ensures instant: err == nil ==> vExists(func(v int64) bool { return vTrig(strconv.FormatInt(v, 10)) && vLogStr("ints")[len(vLogStr("ints"))-1] == strconv.FormatInt(v, 10) && t == time.Unix(0, v) })

//@ func DecodeUnixMicro(d *jx.Decoder) (t time.Time, err error)
//@   requires dec: d != nil
//@   modifies log:ints
//@   ensures one: len(vLogStr("ints")) == len(old(vLogStr("ints"))) + 1
//@   ensures instant: err == nil ==> vExists(func(v int64) bool { return vTrig(strconv.FormatInt(v, 10)) && vLogStr("ints")[len(vLogStr("ints"))-1] == strconv.FormatInt(v, 10) && t == time.UnixMicro(v) })

//@ func DecodeUnixMilli(d *jx.Decoder) (t time.Time, err error)
//@   requires dec: d != nil
//@   modifies log:ints
//@   ensures one: len(vLogStr("ints")) == len(old(vLogStr("ints"))) + 1
//@   ensures instant: err == nil ==> vExists(func(v int64) bool { return vTrig(strconv.FormatInt(v, 10)) && vLogStr("ints")[len(vLogStr("ints"))-1] == strconv.FormatInt(v, 10) && t == time.UnixMilli(v) })

// ---------------------------------------------------------------------------
// String-formatted integers (C13): the encoder writes, as ONE raw JSON token, a quote, the decimal text
// of the value AT ITS OWN SIGNEDNESS AND FULL WIDTH (FormatUint of the value for unsigned types,
// FormatInt for signed ones - no conversion through the other signedness), and a quote. The digits are
// appended into a local array through a slice of it (in-place append, modelled by the `appends`
// directive of the assumed strconv contracts).
// ---------------------------------------------------------------------------

//@ extern func (e *jx.Encoder) Raw(b []byte) (ok bool)
//@   effect raw string(b)

//@ func EncodeStringUint64(e *jx.Encoder, v uint64)
//@   requires enc: e != nil
//@   modifies log:raw
//@   ensures text: vSeqEq(vLogStr("raw"), vCat(old(vLogStr("raw")), []string{"\"" + strconv.FormatUint(v, 10) + "\""}))
//@ func EncodeStringUint(e *jx.Encoder, v uint)
//@   requires enc: e != nil
//@   modifies log:raw
//@   ensures text: vSeqEq(vLogStr("raw"), vCat(old(vLogStr("raw")), []string{"\"" + strconv.FormatUint(uint64(v), 10) + "\""}))
//@ func EncodeStringUint32(e *jx.Encoder, v uint32)
//@   requires enc: e != nil
//@   modifies log:raw
//@   ensures text: vSeqEq(vLogStr("raw"), vCat(old(vLogStr("raw")), []string{"\"" + strconv.FormatUint(uint64(v), 10) + "\""}))
//@ func EncodeStringInt64(e *jx.Encoder, v int64)
//@   requires enc: e != nil
//@   modifies log:raw
//@   ensures text: vSeqEq(vLogStr("raw"), vCat(old(vLogStr("raw")), []string{"\"" + strconv.FormatInt(v, 10) + "\""}))
//@ func EncodeStringInt32(e *jx.Encoder, v int32)
//@   requires enc: e != nil
//@   modifies log:raw
//@   ensures text: vSeqEq(vLogStr("raw"), vCat(old(vLogStr("raw")), []string{"\"" + strconv.FormatInt(int64(v), 10) + "\""}))
//@ func EncodeStringUint8(e *jx.Encoder, v uint8)
//@   requires enc: e != nil
//@   modifies log:raw
//@   ensures text: vSeqEq(vLogStr("raw"), vCat(old(vLogStr("raw")), []string{"\"" + strconv.FormatUint(uint64(v), 10) + "\""}))
//@ func EncodeStringUint16(e *jx.Encoder, v uint16)
//@   requires enc: e != nil
//@   modifies log:raw
//@   ensures text: vSeqEq(vLogStr("raw"), vCat(old(vLogStr("raw")), []string{"\"" + strconv.FormatUint(uint64(v), 10) + "\""}))
//@ func EncodeStringInt(e *jx.Encoder, v int)
//@   requires enc: e != nil
//@   modifies log:raw
//@   ensures text: vSeqEq(vLogStr("raw"), vCat(old(vLogStr("raw")), []string{"\"" + strconv.FormatInt(int64(v), 10) + "\""}))
//@ func EncodeStringInt8(e *jx.Encoder, v int8)
//@   requires enc: e != nil
//@   modifies log:raw
//@   ensures text: vSeqEq(vLogStr("raw"), vCat(old(vLogStr("raw")), []string{"\"" + strconv.FormatInt(int64(v), 10) + "\""}))
//@ func EncodeStringInt16(e *jx.Encoder, v int16)
//@   requires enc: e != nil
//@   modifies log:raw
//@   ensures text: vSeqEq(vLogStr("raw"), vCat(old(vLogStr("raw")), []string{"\"" + strconv.FormatInt(int64(v), 10) + "\""}))

// ---------------------------------------------------------------------------
// IP addresses (C13): the decoder reads ONE string and answers with netip.ParseAddr of exactly that text -
// no transformation of the parsed address (no unmapping, no zone stripping) - refusing it only for the
// wrong IP version; the encoder writes netip.Addr.AppendTo of exactly the value.
// ---------------------------------------------------------------------------

//@ extern func (d *jx.Decoder) Str() (s string, err error)
//@   effect strs s
//@ extern func netip.ParseAddr(s string) (a netip.Addr, err error)
//@   pure

func specParseAddr(s string) netip.Addr {
	a, _ := netip.ParseAddr(s)
	return a
}

//@ func decodeIP(d *jx.Decoder, checkVersion func(addr netip.Addr) bool) (v netip.Addr, err error)
//@   requires dec: d != nil
//@   modifies log:strs, cb:checkVersion
//@   ensures one:   err == nil ==> len(vLogStr("strs")) == len(old(vLogStr("strs"))) + 1
//@   ensures exact: err == nil ==> v == specParseAddr(vLogStr("strs")[len(vLogStr("strs"))-1])

// ---------------------------------------------------------------------------
// URIs (C13): the encoder writes url.URL.String(); the inverse of String() is url.Parse (package net/url:
// "Parse parses a raw url into a URL structure"; String "reassembles the URL"). The decoder must therefore
// answer with url.Parse of exactly the text it read. (url.ParseRequestURI is NOT that inverse: it assumes a
// request line, keeps a fragment inside the path and refuses relative references.)
// ---------------------------------------------------------------------------

//@ extern func url.Parse(rawURL string) (u *url.URL, err error)
//@   pure
//@ extern func url.ParseRequestURI(rawURL string) (u *url.URL, err error)
//@   pure
//@   ensures nonnil: err == nil ==> u != nil

func specURLParse(s string) *url.URL {
	u, _ := url.Parse(s)
	return u
}

func specURLParseOK(s string) bool {
	_, err := url.Parse(s)
	return err == nil
}

//@ func DecodeURI(i *jx.Decoder) (v url.URL, err error)
//@   requires dec: i != nil
//@   modifies log:strs
//@   ensures one:    err == nil ==> len(vLogStr("strs")) == len(old(vLogStr("strs"))) + 1
//@   ensures parsed__kfURIFragment: err == nil ==> specURLParseOK(vLogStr("strs")[len(vLogStr("strs"))-1]) && specURLParse(vLogStr("strs")[len(vLogStr("strs"))-1]) != nil && v == *specURLParse(vLogStr("strs")[len(vLogStr("strs"))-1])

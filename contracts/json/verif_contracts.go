//go:build verif

// Contract file of package json (build tag verif): the number comparison used for enum-duplicate
// detection and default comparison (C18).

package json

//@ use errors
//@ use jxnum

// lastTwo: the two number texts the comparison read from its decoders (ghost log "nums").
func numL(log []string) []byte { return []byte(log[len(log)-2]) }
func numR(log []string) []byte { return []byte(log[len(log)-1]) }

// equalNumber decides semantic equality of the two numbers it reads: it answers true only for
// texts denoting the same number and false only for texts denoting different numbers.
//@ func (c compare) equalNumber() (ok bool, err error)
//@   requires decs: c.left != nil && c.right != nil
//@   modifies log:nums
//@   uses float64OfSameNumber
//@   ensures read:     err == nil ==> len(vLogStr("nums")) == len(old(vLogStr("nums"))) + 2
//@   ensures sound:    err == nil && ok ==> sameNumber(numL(vLogStr("nums")), numR(vLogStr("nums")))
//@   ensures complete: err == nil && !ok ==> !sameNumber(numL(vLogStr("nums")), numR(vLogStr("nums")))

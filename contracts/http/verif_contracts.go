//go:build verif

// Contract file of package http (build tag verif): content-type matching of generated request decoders.

package http

import "path"

// globMatch: the glob relation of path.Match (documentation of package path: '*' matches any sequence
// of non-'/' characters, '?' one non-'/' character, ranges, '\\' escapes) - an UNINTERPRETED symbol
// here; what the contract pins down is that this relation, and nothing else, decides: a media type
// without a '/' never matches a pattern "type/*", and "*/*" needs exactly one '/'.
func globMatch(pattern, value string) bool {
	ok, _ := path.Match(pattern, value)
	return ok
}

//@ func globMatch(pattern string, value string) (r bool)
//@   trusted wrapper around path.Match (standard library), an uninterpreted relation in the proofs
//@   pure

//@ extern func path.Match(pattern string, name string) (matched bool, err error)
//@   pure
//@   ensures glob: matched == globMatch(pattern, name)

// The generated request decoders answer 415 exactly when no declared media-type pattern matches the
// Content-Type in this relation.
//@ func MatchContentType(pattern string, value string) (r bool)
//@   ensures glob: r == globMatch(pattern, value)

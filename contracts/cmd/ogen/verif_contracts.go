//go:build verif

// Contract file of command cmd/ogen (build tag verif): effects on the target directory.

package main

import (
	"os"
	"path/filepath"

	"bytes"
	"io"

	"github.com/go-faster/yaml"
	"go.uber.org/zap"

	"github.com/ogen-go/ogen"
	"github.com/ogen-go/ogen/gen"
	"github.com/ogen-go/ogen/internal/ogenzap"
)

var _ ogenzap.Options

var _ *zap.Logger
var _ io.Reader
var _ *bytes.Reader
var _ *yaml.Decoder

//@ use strings
//@ use errors
//@ use os
//@ use ogengen
//@ puremethod IsDir Name

// ownName: the generator's own naming pattern — the only files cleaning may remove.
func ownName(n string) bool {
	return (hasSuffix(n, "_gen.go") || hasSuffix(n, "_gen_test.go")) && (hasPrefix(n, "openapi") || hasPrefix(n, "oas"))
}

// removable: entry f of the target directory may be removed by cleaning.
func removable(f os.DirEntry) bool { return !f.IsDir() && ownName(f.Name()) }

// removalsOf: the file-system events cleaning the entries files[k:] may produce, in order:
// exactly one "remove <targetDir/name>" per removable entry, nothing else.
func removalsOf(targetDir string, files []os.DirEntry) []string {
	if len(files) == 0 {
		return nil
	}
	if removable(files[0]) {
		return append([]string{"remove " + filepath.Join(targetDir, files[0].Name())}, removalsOf(targetDir, files[1:])...)
	}
	return removalsOf(targetDir, files[1:])
}

//@ func cleanDir(targetDir string, files []os.DirEntry) (rerr error)
//@   modifies log:fs
//@   ensures only_own: vSeqEq(vLogStr("fs"), vCat(old(vLogStr("fs")), removalsOf(targetDir, files)))
//@   loop 0 vars rangeindex int
//@   loop 0 invariant range: -1 <= rangeindex && rangeindex < len(files)
//@   loop 0 invariant acc:   vSeqEq(vCat(vLogStr("fs"), removalsOf(targetDir, files[rangeindex+1:])), vCat(old(vLogStr("fs")), removalsOf(targetDir, files)))
//@   loop 0 decreases len(files) - rangeindex

// The two pre-write failure stages inside generate(), as functions of its arguments.
func specParseFails(data []byte) bool {
	_, err := ogen.Parse(data)
	return err != nil
}

func specBuildFails(data []byte, opts gen.Options) bool {
	s, err := ogen.Parse(data)
	if err != nil {
		return false
	}
	_, err2 := gen.NewGenerator(s, opts)
	return err2 != nil
}

//@ func generate(data []byte, packageName string, targetDir string, clean bool, opts gen.Options) (err error)
//@   modifies log:fs
//@   ensures untouched: specParseFails(data) || specBuildFails(data, opts) ==> err != nil && vSeqEq(vLogStr("fs"), old(vLogStr("fs")))
//@   ensures extends:   len(vLogStr("fs")) >= len(old(vLogStr("fs"))) && vSeqEq(vLogStr("fs")[:len(old(vLogStr("fs")))], old(vLogStr("fs")))
//@   ensures gated:     !clean ==> (forall k in (len(old(vLogStr("fs"))), len(vLogStr("fs"))) :: !hasPrefix(vLogStr("fs")[k], "remove "))

// ---------------------------------------------------------------------------
// loadConfig: an unreadable configuration is a failure BEFORE anything is generated (run() returns the
// error before it reaches generate): a configuration file the user named explicitly, or a default
// one that was found, and that cannot be read makes loadConfig fail; loadConfig never touches the
// file system log.
// ---------------------------------------------------------------------------

// firstDefaultCfg: the first of the default configuration names that loadConfig probes.
const firstDefaultCfg = "ogen" + ".yml"

func cfgReadFails(p string) bool {
	_, err := os.ReadFile(p)
	return err != nil
}

func cfgExists(p string) bool {
	_, err := os.Stat(p)
	return err == nil
}

//@ extern func os.ReadFile(name string) (data []byte, err error)
//@   pure
//@ extern func os.Stat(name string) (fi os.FileInfo, err error)
//@   pure

// Decoding of the configuration text (go-faster/yaml): what Decode stores into the options is NOT
// modelled (no clause below speaks about the options' content); only its verdict matters.
//@ extern func bytes.NewReader(b []byte) (r *bytes.Reader)
//@   pure
//@ extern func yaml.NewDecoder(r io.Reader) (d *yaml.Decoder)
//@   pure
//@   ensures nonnil: d != nil
//@ extern func (d *yaml.Decoder) KnownFields(enable bool)
//@ extern func (d *yaml.Decoder) Decode(v interface{}) (err error)

// Logging (go.uber.org/zap) has no effect the contracts talk about.
//@ extern func zap.String(key string, val string) (f zap.Field)
//@   pure
//@ extern func (l *zap.Logger) Debug(msg string, fields ...zap.Field)

//@ func loadConfig(cfgPath string, log *zap.Logger) (opts gen.Options, err error)
//@   requires logger: log != nil
//@   loop 0 vars rangeindex int
//@   loop 0 invariant range: -1 <= rangeindex && rangeindex < 4
//@   loop 0 invariant first: rangeindex >= 0 ==> !cfgExists(firstDefaultCfg)
//@   loop 0 decreases 4 - rangeindex
//@   ensures explicit: cfgPath != "" && cfgReadFails(cfgPath) ==> err != nil
//@   ensures found:    cfgPath == "" && cfgExists(firstDefaultCfg) && cfgReadFails(firstDefaultCfg) ==> err != nil
//@   ensures nofs:     vSeqEq(vLogStr("fs"), old(vLogStr("fs")))

// ---------------------------------------------------------------------------
// The tail of run(): configuration, spec location, generation - the part of the command between flag
// parsing and exit. run() as a whole is outside the verifier's reach (flag package, pprof, closures);
// its last statements, from the loadConfig call to the end, are extracted MECHANICALLY on every run,
// verbatim, as a function of their own (directive below; dropped: everything of run() before the
// loadConfig call; rewritten: nothing but the final `return nil` is appended). Contract: an explicit
// configuration that cannot be read, or a spec that cannot be read, makes the command fail WITHOUT any
// file-system event (generate is never reached), and every failure of generate is passed on as a failure.
// ---------------------------------------------------------------------------

//@ extract verifRunTail(cfgPath *string, logger *zap.Logger, specPath string, packageName *string, targetDir *string, clean *bool, logOptions ogenzap.Options) (rerr error)
//@ xfrom main.go run
//@ xstmt opts, err := loadConfig(*cfgPath, logger)
//@ xupto if err := generate(
//@ xtail return nil

// specUnreadable: the verdict of Options.SetLocation (reads the spec from the path or URL), a function of the path.
func specUnreadable(p string) bool {
	var o gen.Options
	_, err := o.SetLocation(p, gen.RemoteOptions{})
	return err != nil
}

//@ func specUnreadable(p string) (r bool)
//@   trusted wrapper around gen.Options.SetLocation (file / URL read), an uninterpreted predicate of the path here
//@   pure

//@ extern func (o *gen.Options) SetLocation(p string, opts gen.RemoteOptions) (data []byte, err error)
//@   modifies o.Parser
//@   ensures verdict: (err != nil) == specUnreadable(p)

//@ func handleGenerateError(w io.Writer, color bool, err error) (r bool)
//@   trusted prints a diagnostic to w (standard error); no file-system event

//@ func verifRunTail(cfgPath *string, logger *zap.Logger, specPath string, packageName *string, targetDir *string, clean *bool, logOptions ogenzap.Options) (rerr error)
//@   requires flags: cfgPath != nil && packageName != nil && targetDir != nil && clean != nil && logger != nil
//@   modifies log:fs
//@   ensures config: *cfgPath != "" && cfgReadFails(*cfgPath) ==> rerr != nil && vSeqEq(vLogStr("fs"), old(vLogStr("fs")))
//@   ensures spec:   specUnreadable(specPath) ==> rerr != nil && vSeqEq(vLogStr("fs"), old(vLogStr("fs")))
//@   ensures quiet:  rerr == nil ==> !specUnreadable(specPath)

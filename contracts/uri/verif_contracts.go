//go:build verif

// Contract file of package uri (build tag verif).
//
// Layout: (1) spec functions — pure, total, value-form Go; (2) //@ contract blocks keyed by
// function (compiled mechanically into Go clause functions by govc); (3) lemmas.

package uri

import (
	"github.com/ogen-go/ogen/internal/httpcookie"
	"io"
	"net/http"
	"net/url"
	"strings"
)

var _ = url.PathEscape
var _ http.Header

//@ use strings
//@ use join
//@ use nethttp
//@ use fmt
//@ use neturl
//@ use errors

// ---------------------------------------------------------------------------
// 1. Spec functions: percent-escapes (RFC 3986) — written from the RFC, not from the code
// ---------------------------------------------------------------------------

func specIsHex(c byte) bool {
	return '0' <= c && c <= '9' || 'a' <= c && c <= 'f' || 'A' <= c && c <= 'F'
}

// specHexVal is the value (0..15) of a hex digit, 0 for other octets. Spec arithmetic is over int.
func specHexVal(c byte) int {
	if '0' <= c && c <= '9' {
		return int(c) - '0'
	}
	if 'a' <= c && c <= 'f' {
		return int(c) - 'a' + 10
	}
	if 'A' <= c && c <= 'F' {
		return int(c) - 'A' + 10
	}
	return 0
}

// specByte is the octet denoted by the two hex digits a, b.
func specByte(a, b byte) int { return specHexVal(a)*16 + specHexVal(b) }

func specUpperHexDigit(n byte) byte { // n < 16
	if n < 10 {
		return '0' + n
	}
	return 'A' + n - 10
}

func specUpper(c byte) byte {
	if 'a' <= c && c <= 'f' {
		return c - 32
	}
	return c
}

// specUnreserved: RFC 3986 §2.3 — the octets that need no escaping in a path.
func specUnreserved(c byte) bool {
	return 'a' <= c && c <= 'z' || 'A' <= c && c <= 'Z' || '0' <= c && c <= '9' ||
		c == '-' || c == '_' || c == '.' || c == '~'
}

// escAt: s has a well-formed escape at its front.
func escAt(s string) bool {
	return len(s) >= 3 && s[0] == '%' && specIsHex(s[1]) && specIsHex(s[2])
}

// wellEscaped: every '%' starts a well-formed escape.
func wellEscaped(s string) bool {
	if len(s) == 0 {
		return true
	}
	if s[0] == '%' {
		return escAt(s) && wellEscaped(s[3:])
	}
	return wellEscaped(s[1:])
}

// pctDecode: the octets a well-escaped string denotes.
func pctDecode(s string) string {
	if len(s) == 0 {
		return ""
	}
	if escAt(s) {
		return str1(byte(specByte(s[1], s[2]))) + pctDecode(s[3:])
	}
	return s[:1] + pctDecode(s[1:])
}

// canonicalPath: well-escaped, hex digits upper-case, only octets that must be escaped are escaped.
func canonicalPath(s string) bool {
	if len(s) == 0 {
		return true
	}
	if s[0] == '%' {
		return escAt(s) && specUpper(s[1]) == s[1] && specUpper(s[2]) == s[2] &&
			!specUnreserved(byte(specByte(s[1], s[2]))) && canonicalPath(s[3:])
	}
	return canonicalPath(s[1:])
}

// nfTok: canonical re-encoding of the escape %ab.
func nfTok(a, b byte) string {
	if specUnreserved(byte(specByte(a, b))) {
		return str1(byte(specByte(a, b)))
	}
	return "%" + str1(specUpper(a)) + str1(specUpper(b))
}

// canonTok: x starts with an escape that is already canonical (upper-case hex, octet must be escaped).
func canonTok(x string) bool {
	return escAt(x) && specUpper(x[1]) == x[1] && specUpper(x[2]) == x[2] && !specUnreserved(byte(specByte(x[1], x[2])))
}

// nf: token-wise canonical re-encoding of a well-escaped string.
func nf(s string) string {
	if len(s) == 0 {
		return ""
	}
	if escAt(s) {
		return nfTok(s[1], s[2]) + nf(s[3:])
	}
	return s[:1] + nf(s[1:])
}

// ---------------------------------------------------------------------------
// 2. Contracts: uri/normalize.go
// ---------------------------------------------------------------------------

//@ func ishex(c byte) (r bool)
//@   ensures spec: r == specIsHex(c)
//@ func unhex(c byte) (r byte)
//@   ensures spec: int(r) == specHexVal(c)
//@   ensures nibble: r < 16
//@ func asciiToUpper(c byte) (r byte)
//@   ensures spec: r == specUpper(c)
//@ func asciiIsLowercase(c byte) (r bool)
//@   ensures spec: r == ('a' <= c && c <= 'z')
//@ func shouldEscapePath(c byte) (r bool)
//@   ensures spec: r == !specUnreserved(c)

//@ func NormalizeEscapedPath(s string) (out string, ok bool)
//@   pure
//@   ensures verdict:   ok == wellEscaped(s)
//@   ensures nf:        ok ==> out == nf(s)
//@   ensures rejected:  !ok ==> out == ""
//@   uses noPct, skipToPct, indexBRange, canonTokNf
//@   loop 0 vars iter string
//@   loop 0 invariant suffix:   len(iter) <= len(s) && iter == s[len(s)-len(iter):]
//@   loop 0 invariant boundary: wellEscaped(s) == wellEscaped(iter)
//@   loop 0 invariant nfprefix: nf(s) == s[:len(s)-len(iter)] + nf(iter)
//@   loop 0 assert tok:  indexB(iter, '%') >= 0 && canonTok(iter[indexB(iter, '%'):]) ==>
//@                         nf(iter) == iter[:indexB(iter, '%')] + iter[indexB(iter, '%'):indexB(iter, '%')+3] + nf(iter[indexB(iter, '%')+3:])
//@   loop 0 assert glue: indexB(iter, '%') >= 0 && indexB(iter, '%')+3 <= len(iter) ==>
//@                         s[:len(s)-len(iter)] + iter[:indexB(iter, '%')] + iter[indexB(iter, '%'):indexB(iter, '%')+3] == s[:len(s)-len(iter)+indexB(iter, '%')+3]
//@   loop 0 assert step: indexB(iter, '%') >= 0 && canonTok(iter[indexB(iter, '%'):]) ==>
//@                         nf(s) == s[:len(s)-len(iter)+indexB(iter, '%')+3] + nf(iter[indexB(iter, '%')+3:])
//@   loop 0 decreases len(iter)
//@   loop 1 vars i int, t *strings.Builder
//@   loop 1 invariant range:    0 <= i && i <= len(s)
//@   loop 1 invariant boundary: wellEscaped(s) == wellEscaped(s[i:])
//@   loop 1 invariant acc:      t.String() + nf(s[i:]) == nf(s)
//@   loop 1 assert esc:   i < len(s) && s[i] == '%' && escAt(s[i:]) ==> nf(s[i:]) == nfTok(s[i+1], s[i+2]) + nf(s[i+3:])
//@   loop 1 assert plain: i < len(s) && s[i] != '%' ==> nf(s[i:]) == s[i:i+1] + nf(s[i+1:])
//@   loop 1 decreases len(s) - i

// ---------------------------------------------------------------------------
// 2b. Contracts: uri/cookie_escape.go
// ---------------------------------------------------------------------------

// specCookieNeedsEsc is transcribed from RFC 6265 cookie-octet (what net/http would otherwise drop
// or quote) plus the escape character itself; bytes >= 0x80 are escaped as well.
func specCookieNeedsEsc(c byte) bool {
	return c <= ' ' || c == '"' || c == ',' || c == ';' || c == '\\' || c >= 0x7f || c == '%'
}

// escTok: the escaped form of one octet.
func escTok(c byte) string {
	if specCookieNeedsEsc(c) {
		return "%" + str1(specUpperHexDigit(c>>4)) + str1(specUpperHexDigit(c&15))
	}
	return str1(c)
}

// escC: the cookie-escaped form of s.
func escC(s string) string {
	if len(s) == 0 {
		return ""
	}
	return escTok(s[0]) + escC(s[1:])
}

// countEsc: number of octets of s that need escaping.
func countEsc(s string) int {
	if len(s) == 0 {
		return 0
	}
	if specCookieNeedsEsc(s[0]) {
		return 1 + countEsc(s[1:])
	}
	return countEsc(s[1:])
}

//@ func escapeCookie(s string) (out string)
//@   ensures spec: out == escC(s)
//@   uses escNone
//@   loop 0 vars rangeindex int, n int
//@   loop 0 invariant range: -1 <= rangeindex && rangeindex < len(s)
//@   loop 0 invariant count: n + countEsc(s[rangeindex+1:]) == countEsc(s)
//@   loop 0 invariant nonneg: n >= 0 && n <= rangeindex + 1
//@   loop 0 decreases len(s) - rangeindex
//@   loop 1 vars rangeindex int, sb *strings.Builder
//@   loop 1 invariant range: -1 <= rangeindex && rangeindex < len(s)
//@   loop 1 invariant acc:   sb.String() + escC(s[rangeindex+1:]) == escC(s)
//@   loop 1 assert hex:      forall k in (0, 16) :: hex[k] == specUpperHexDigit(byte(k))
//@   loop 1 assert step:     rangeindex+1 < len(s) ==> escC(s[rangeindex+1:]) == escTok(s[rangeindex+1]) + escC(s[rangeindex+2:])
//@   loop 1 decreases len(s) - rangeindex

// A string in which nothing needs escaping is its own escaped form.
//@ lemma escNone(x string)
//@   requires countEsc(x) == 0
//@   ensures same: escC(x) == x
//@   decreases len(x)
//@   induct x[1:]
//@   uses countEscNonneg
//@   trigger countEsc(x)

//@ lemma countEscNonneg(x string)
//@   ensures nonneg: countEsc(x) >= 0
//@   decreases len(x)
//@   induct x[1:]
//@   trigger countEsc(x)

//@ func unescapeCookie(s string) (out string, ok bool)
//@   ensures verdict: ok == wellEscaped(s)
//@   ensures decoded: ok ==> out == pctDecode(s)
//@   ensures rejected: !ok ==> out == ""
//@   loop 0 vars i int, n int
//@   loop 0 invariant range:    0 <= i && i <= len(s)
//@   loop 0 invariant boundary: wellEscaped(s) == wellEscaped(s[i:])
//@   loop 0 invariant count:    n >= 0 && 3*n <= i
//@   loop 0 invariant none:     n == 0 ==> pctDecode(s) == s[:i] + pctDecode(s[i:])
//@   loop 0 decreases len(s) - i
//@   loop 1 vars i int, sb *strings.Builder
//@   loop 1 invariant range:    0 <= i && i <= len(s)
//@   loop 1 invariant whole:    wellEscaped(s)
//@   loop 1 invariant rest:     wellEscaped(s[i:])
//@   loop 1 invariant acc:      sb.String() + pctDecode(s[i:]) == pctDecode(s)
//@   loop 1 assert esc:   i < len(s) && s[i] == '%' ==> escAt(s[i:]) && pctDecode(s[i:]) == str1(byte(specByte(s[i+1], s[i+2]))) + pctDecode(s[i+3:])
//@   loop 1 assert plain: i < len(s) && s[i] != '%' ==> pctDecode(s[i:]) == s[i:i+1] + pctDecode(s[i+1:])
//@   loop 1 decreases len(s) - i

// One escaped token in front of r decodes to its octet in front of the decoding of r.
//@ lemma tokDecode(c byte, r string)
//@   ensures wf:  wellEscaped(escTok(c) + r) == wellEscaped(r)
//@   ensures dec: pctDecode(escTok(c) + r) == str1(c) + pctDecode(r)
//@   assert val:  specByte(specUpperHexDigit(c>>4), specUpperHexDigit(c&15)) == int(c)
//@   assert esc:  specCookieNeedsEsc(c) ==> escAt(escTok(c) + r) && (escTok(c) + r)[3:] == r && (escTok(c) + r)[1] == specUpperHexDigit(c>>4) && (escTok(c) + r)[2] == specUpperHexDigit(c&15)
//@   assert raw:  !specCookieNeedsEsc(c) ==> !escAt(escTok(c) + r) && (escTok(c) + r)[1:] == r && (escTok(c) + r)[:1] == str1(c)
//@   trigger escTok(c) + r

// Cookie escaping is inverted by percent-decoding, and its output is always well-escaped.
//@ lemma cookieInverse(s string)
//@   ensures wf:  wellEscaped(escC(s))
//@   ensures inv: pctDecode(escC(s)) == s
//@   decreases len(s)
//@   induct s[1:]
//@   uses tokDecode
//@   trigger escC(s)

// Harness (property-level lemma over the two contracts): "cookie escaping is an exact inverse pair".
// @ func verifCookieRoundTrip(s string) (out string, ok bool)
// @   ensures inverse: ok && out == s
// @   uses cookieInverse
func verifCookieRoundTrip(s string) (string, bool) { return unescapeCookie(escapeCookie(s)) }

// ---------------------------------------------------------------------------
// 2c. Contracts: uri/cursor.go, uri/object.go (encoder), uri/receiver.go (delimiter check),
//     PathDecoder.DecodeValue
// ---------------------------------------------------------------------------

//@ func (c *cursor) readUntil(until byte) (v string, err error)
//@   requires wf: 0 <= c.pos && c.pos <= len(c.src)
//@   modifies c.pos
//@   ensures frame: c.src == old(c.src) && 0 <= c.pos && c.pos <= len(c.src)
//@   ensures hit:   indexB(old(c.src)[old(c.pos):], until) >= 0 ==> err == nil &&
//@                    v == old(c.src)[old(c.pos):old(c.pos)+indexB(old(c.src)[old(c.pos):], until)] &&
//@                    c.pos == old(c.pos) + indexB(old(c.src)[old(c.pos):], until) + 1
//@   ensures miss:  indexB(old(c.src)[old(c.pos):], until) < 0 ==> err == io.EOF && v == "" && c.pos == len(c.src)
//@   uses indexBRange

//@ func (c *cursor) readValue(sep byte) (v string, hasNext bool, err error)
//@   requires wf:    0 <= c.pos && c.pos <= len(c.src)
//@   requires ascii: sep < 0x80
//@   modifies c.pos
//@   ensures frame: c.src == old(c.src) && 0 <= c.pos && c.pos <= len(c.src)
//@   ensures more:  indexB(old(c.src)[old(c.pos):], sep) >= 0 ==> err == nil && hasNext &&
//@                    v == old(c.src)[old(c.pos):][:indexB(old(c.src)[old(c.pos):], sep)] &&
//@                    c.pos == old(c.pos) + indexB(old(c.src)[old(c.pos):], sep) + 1
//@   ensures last:  indexB(old(c.src)[old(c.pos):], sep) < 0 && old(c.pos) < len(c.src) ==> err == nil && !hasNext &&
//@                    v == old(c.src)[old(c.pos):] && c.pos == len(c.src)
//@   ensures empty: indexB(old(c.src)[old(c.pos):], sep) < 0 && old(c.pos) == len(c.src) ==> err == io.EOF && !hasNext && v == "" && c.pos == old(c.pos)
//@   uses indexBRange

//@ func (c *cursor) eat(r byte) (ok bool)
//@   requires wf: 0 <= c.pos && c.pos <= len(c.src)
//@   modifies c.pos
//@   ensures frame: c.src == old(c.src) && 0 <= c.pos && c.pos <= len(c.src)
//@   ensures spec:  ok == (old(c.pos) < len(c.src) && c.src[old(c.pos)] == r) && c.pos == old(c.pos) + vIte(ok, 1, 0)

//@ func (c *cursor) readAll() (v string, err error)
//@   requires wf: 0 <= c.pos && c.pos <= len(c.src)
//@   modifies c.pos
//@   ensures frame: c.src == old(c.src)
//@   ensures empty: old(c.pos) == len(c.src) ==> err == io.EOF && v == "" && c.pos == old(c.pos)
//@   ensures rest:  old(c.pos) < len(c.src) ==> err == nil && v == c.src[old(c.pos):] && c.pos == len(c.src)

// joinFields: the flat-object serialization of the OpenAPI style table (name kv value, fields
// separated by fs), written from the table.
func joinFields(fs []Field, kv, sep byte) string {
	if len(fs) == 0 {
		return ""
	}
	if len(fs) == 1 {
		return fs[0].Name + str1(kv) + fs[0].Value
	}
	return fs[0].Name + str1(kv) + fs[0].Value + str1(sep) + joinFields(fs[1:], kv, sep)
}

// joinFrom: joinFields of the fields from index i on, with a leading separator when i > 0.
func joinFrom(fs []Field, i int, kv, sep byte) string {
	if i >= len(fs) {
		return ""
	}
	if i == 0 {
		return fs[0].Name + str1(kv) + fs[0].Value + joinFrom(fs, 1, kv, sep)
	}
	return str1(sep) + fs[i].Name + str1(kv) + fs[i].Value + joinFrom(fs, i+1, kv, sep)
}

//@ func encodeObject(kvSep byte, fieldSep byte, fields []Field) (out string)
//@   nooverflow size is a capacity hint: the sum of the lengths of strings that exist in memory
//@   ensures table: out == joinFrom(fields, 0, kvSep, fieldSep)
//@   loop 0 vars rangeindex int, size int
//@   loop 0 invariant range: -1 <= rangeindex && rangeindex < len(fields)
//@   loop 0 invariant size:  size >= 2 * (rangeindex + 1)
//@   loop 1 vars rangeindex int, sb *strings.Builder
//@   loop 1 invariant range: -1 <= rangeindex && rangeindex < len(fields)
//@   loop 1 invariant acc:   sb.String() + joinFrom(fields, rangeindex+1, kvSep, fieldSep) == joinFrom(fields, 0, kvSep, fieldSep)
//@   loop 1 assert first:    rangeindex+1 == 0 && len(fields) > 0 ==> joinFrom(fields, 0, kvSep, fieldSep) == fields[0].Name + str1(kvSep) + fields[0].Value + joinFrom(fields, 1, kvSep, fieldSep)
//@   loop 1 assert next:     rangeindex+1 > 0 && rangeindex+1 < len(fields) ==> joinFrom(fields, rangeindex+1, kvSep, fieldSep) == str1(fieldSep) + fields[rangeindex+1].Name + str1(kvSep) + fields[rangeindex+1].Value + joinFrom(fields, rangeindex+2, kvSep, fieldSep)

//@ func checkNotContains(s string, chars string) (err error)
//@   ensures refuse: (err == nil) == (forall j in (0, len(s)) :: !memberB(chars, s[j]))
//@   ensures one:    len(chars) == 1 ==> (err == nil) == (forall j in (0, len(s)) :: s[j] != chars[0])

// ---------------------------------------------------------------------------
// 2d. Encoder side: receivers (uri/receiver.go) and PathEncoder (uri/path_encoder.go)
// ---------------------------------------------------------------------------

func wfTyp(t valueType) bool {
	return t == typeNotSet || t == typeValue || t == typeArray || t == typeObject
}

//@ func (s *receiver) EncodeValue(v string) (err error)
//@   modifies s.typ, s.val
//@   ensures ok:  old(s.typ) == typeNotSet ==> err == nil && s.typ == typeValue && s.val == v
//@   ensures bad: old(s.typ) != typeNotSet ==> err != nil && s.typ == old(s.typ) && s.val == old(s.val)

//@ func (e *arrayReceiver) EncodeValue(v string) (err error)
//@   modifies e.set, e.items
//@   ensures app: err == nil && e.set && vSeqEq(e.items, vCat(old(e.items), []string{v}))

//@ func (e *valueReceiver) EncodeValue(v string) (err error)
//@   requires once: !e.set
//@   modifies e.set, e.value
//@   ensures set: err == nil && e.set && e.value == v

// Harnesses: the real EncodeField / EncodeArray bodies run with the callback shapes the generated
// encoders use (one EncodeValue call per field; one per item; none for an unset optional field).
// @ func verifFieldSet(s *receiver, field string, v string) (err error)
// @   requires nonnil: s != nil
// @   inline EncodeField
// @   modifies s.typ, s.fields
// @   ensures ok:  old(s.typ) == typeNotSet || old(s.typ) == typeObject ==> err == nil && s.typ == typeObject &&
// @                  len(s.fields) == len(old(s.fields)) + 1 && s.fields[len(s.fields)-1].Name == field && s.fields[len(s.fields)-1].Value == v &&
// @                  vSeqEq(s.fields[:len(s.fields)-1], old(s.fields))
// @   ensures bad: old(s.typ) != typeNotSet && old(s.typ) != typeObject ==> err != nil && s.typ == old(s.typ) && vSeqEq(s.fields, old(s.fields))
func verifFieldSet(s *receiver, field, v string) error {
	return s.EncodeField(field, func(e Encoder) error { return e.EncodeValue(v) })
}

// @ func verifFieldUnset(s *receiver, field string) (err error)
// @   requires nonnil: s != nil
// @   inline EncodeField
// @   modifies s.typ, s.fields
// @   ensures ok: old(s.typ) == typeNotSet || old(s.typ) == typeObject ==> err == nil && s.typ == typeObject && vSeqEq(s.fields, old(s.fields))
func verifFieldUnset(s *receiver, field string) error {
	return s.EncodeField(field, func(e Encoder) error { return nil })
}

// @ func verifArray2(s *receiver, a string, b string) (err error)
// @   requires nonnil: s != nil
// @   inline EncodeArray
// @   modifies s.typ, s.items
// @   ensures ok:  old(s.typ) == typeNotSet || old(s.typ) == typeArray ==> err == nil && s.typ == typeArray && vSeqEq(s.items, []string{a, b})
// @   ensures bad: old(s.typ) != typeNotSet && old(s.typ) != typeArray ==> err != nil && s.typ == old(s.typ) && vSeqEq(s.items, old(s.items))
func verifArray2(s *receiver, a, b string) error {
	return s.EncodeArray(func(e Encoder) error {
		if err := e.EncodeValue(a); err != nil {
			return err
		}
		return e.EncodeValue(b)
	})
}

// Style table, encoder side (OpenAPI 3.0.3 section 4.7.12.4 "Style Examples", rows simple / label /
// matrix; p is the escaped parameter name, v / items / fields the escaped texts).
func specPathEncValue(style PathStyle, p string, v string) string {
	if style == PathStyleLabel {
		return "." + v
	}
	if style == PathStyleMatrix {
		return ";" + p + "=" + v
	}
	return v
}

// the delimiter an array item must not contain (checked BEFORE escaping)
func specPathArrayDelim(style PathStyle, explode bool) byte {
	if style == PathStyleLabel && explode {
		return '.'
	}
	if style == PathStyleMatrix && explode {
		return ';'
	}
	return ','
}

//@ func (e *PathEncoder) value() (r string, err error)
//@   requires recv:  e.receiver != nil
//@   requires style: validPathStyle(e.style)
//@   ensures table: err == nil && r == specPathEncValue(e.style, e.param, e.val)

// specPathEncArray: array rows of the style table over the (escaped) items.
func specPathEncArray(style PathStyle, explode bool, p string, items []string) string {
	if style == PathStyleLabel {
		if explode {
			return "." + joinS(items, ".")
		}
		return "." + joinS(items, ",")
	}
	if style == PathStyleMatrix {
		if explode {
			return ";" + p + "=" + joinS(items, ";"+p+"=")
		}
		return ";" + p + "=" + joinS(items, ",")
	}
	return joinS(items, ",")
}

//@ func (e *PathEncoder) array() (r string, err error)
//@   requires recv:  e.receiver != nil
//@   requires style: validPathStyle(e.style)
//@   requires ascii: forall k in (0, len(e.items)) :: asciiStr(e.items[k])
//@   ensures table: err == nil && r == specPathEncArray(e.style, e.explode, e.param, e.items)
//@   uses runesCat, runesOfASCII, runeUnitASCII
//@   loop 0 vars i int, result []rune
//@   loop 0 invariant range: 0 <= i && i <= len(e.items)
//@   loop 0 invariant acc:   string(result) + joinS(e.items[i:], ",") == joinS(e.items, ",")

// specPathEncObject: flat-object rows of the style table over the (escaped) fields.
func specPathEncObject(style PathStyle, explode bool, p string, fields []Field) string {
	if style == PathStyleLabel {
		if explode {
			return "." + joinFrom(fields, 0, '=', '.')
		}
		return "." + joinFrom(fields, 0, ',', ',')
	}
	if style == PathStyleMatrix {
		if explode {
			return ";" + joinFrom(fields, 0, '=', ';')
		}
		return ";" + p + "=" + joinFrom(fields, 0, ',', ',')
	}
	if explode {
		return joinFrom(fields, 0, '=', ',')
	}
	return joinFrom(fields, 0, ',', ',')
}

// the separators a field name / value must not contain (checked BEFORE escaping)
func specPathObjKV(style PathStyle, explode bool) byte {
	if explode {
		return '='
	}
	return ','
}

func specPathObjFS(style PathStyle, explode bool) byte {
	if explode && style == PathStyleLabel {
		return '.'
	}
	if explode && style == PathStyleMatrix {
		return ';'
	}
	return ','
}

//@ func (e *PathEncoder) object() (r string, err error)
//@   requires recv:  e.receiver != nil
//@   requires style: validPathStyle(e.style)
//@   ensures table: err == nil && r == specPathEncObject(e.style, e.explode, e.param, e.fields)

//@ func (e *PathEncoder) Result() (r string, err error)
//@   requires recv:   e.receiver != nil
//@   requires style:  validPathStyle(e.style)
//@   requires called: e.typ == typeValue || e.typ == typeArray || e.typ == typeObject
//@   modifies e.receiver.val, e.receiver.items, e.receiver.fields
//@   ensures param:   e.style == PathStyleMatrix && !noByte(e.param, '=') ==> err != nil
//@   ensures value:   e.typ == typeValue && (e.style != PathStyleMatrix || noByte(e.param, '=')) ==>
//@                      err == nil && r == specPathEncValue(e.style, e.param, url.PathEscape(old(e.val)))
//@   ensures arrRefuse: e.typ == typeArray && (e.style != PathStyleMatrix || noByte(e.param, '=')) ==>
//@                      (err == nil) == (forall k in (0, len(old(e.items))) :: vTrig(old(e.items)[k]) && noByte(old(e.items)[k], specPathArrayDelim(e.style, e.explode)))
//@   ensures arrEsc:  e.typ == typeArray && err == nil ==> len(e.items) == len(old(e.items)) &&
//@                      (forall k in (0, len(e.items)) :: e.items[k] == url.PathEscape(old(e.items)[k]))
//@   ensures array:   e.typ == typeArray && err == nil ==> r == specPathEncArray(e.style, e.explode, e.param, e.items)
//@   ensures objRefuse: e.typ == typeObject && (e.style != PathStyleMatrix || noByte(e.param, '=')) ==>
//@                      (err == nil) == (forall k in (0, len(old(e.fields))) :: vTrig(old(e.fields)[k]) &&
//@                         noByte(old(e.fields)[k].Name, specPathObjKV(e.style, e.explode)) && noByte(old(e.fields)[k].Value, specPathObjFS(e.style, e.explode)))
//@   ensures objEsc:  e.typ == typeObject && err == nil ==> len(e.fields) == len(old(e.fields)) &&
//@                      (forall k in (0, len(e.fields)) :: e.fields[k].Name == url.PathEscape(old(e.fields)[k].Name) && e.fields[k].Value == url.PathEscape(old(e.fields)[k].Value))
//@   ensures object:  e.typ == typeObject && err == nil ==> r == specPathEncObject(e.style, e.explode, e.param, e.fields)
//@   loop 0 vars rangeindex int
//@   loop 0 modifies e.receiver.items
//@   loop 0 invariant range: -1 <= rangeindex && rangeindex < len(e.items) && len(e.items) == len(old(e.items))
//@   loop 0 invariant done:  forall k in (0, rangeindex+1) :: e.items[k] == url.PathEscape(old(e.items)[k]) && noByte(old(e.items)[k], specPathArrayDelim(e.style, e.explode))
//@   loop 0 invariant todo:  forall k in (rangeindex+1, len(e.items)) :: e.items[k] == old(e.items)[k]
//@   loop 1 vars rangeindex int
//@   loop 1 modifies e.receiver.fields
//@   loop 1 invariant range: -1 <= rangeindex && rangeindex < len(e.fields) && len(e.fields) == len(old(e.fields))
//@   loop 1 invariant done:  forall k in (0, rangeindex+1) :: e.fields[k].Name == url.PathEscape(old(e.fields)[k].Name) && e.fields[k].Value == url.PathEscape(old(e.fields)[k].Value) &&
//@                              noByte(old(e.fields)[k].Name, specPathObjKV(e.style, e.explode)) && noByte(old(e.fields)[k].Value, specPathObjFS(e.style, e.explode))
//@   loop 1 invariant todo:  forall k in (rangeindex+1, len(e.fields)) :: e.fields[k] == old(e.fields)[k]

//@ func (e *PathEncoder) checkParam() (err error)
//@   ensures matrix: e.style == PathStyleMatrix ==> (err == nil) == (forall j in (0, len(e.param)) :: e.param[j] != '=')
//@   ensures other:  e.style != PathStyleMatrix ==> err == nil

// pieces / okPieces: what the cursor-based array decoders deliver for the remaining input s and
// whether they succeed (an empty remainder is an error, io.EOF): written from the OpenAPI notion of
// a delimiter-separated list, first delimiter first.
func pieces(s string, d byte) []string {
	if indexB(s, d) >= 0 {
		return append([]string{s[:indexB(s, d)]}, pieces(s[indexB(s, d)+1:], d)...)
	}
	if len(s) > 0 {
		return []string{s}
	}
	return nil
}

func okPieces(s string, d byte) bool {
	if indexB(s, d) >= 0 {
		return okPieces(s[indexB(s, d)+1:], d)
	}
	return len(s) > 0
}

//@ func parseArray(cur *cursor, delim byte, f func(d Decoder) error) (err error)
//@   callback f(d Decoder) log vals d.(*constval).v
//@   requires wf:    cur != nil && 0 <= cur.pos && cur.pos <= len(cur.src)
//@   requires ascii: delim < 0x80
//@   modifies cur.pos, cb:f
//@   ensures frame: cur.src == old(cur.src) && 0 <= cur.pos && cur.pos <= len(cur.src)
//@   ensures items: vCbOK(f) && err == nil ==> vSeqEq(vCbLog(f, "vals"), vCat(old(vCbLog(f, "vals")), pieces(old(cur.src)[old(cur.pos):], delim)))
//@   ensures ok:    vCbOK(f) ==> (err == nil) == okPieces(old(cur.src)[old(cur.pos):], delim)
//@   ensures cbfail: old(vCbOK(f)) && !vCbOK(f) ==> err != nil
//@   ensures mono:  vCbOK(f) ==> old(vCbOK(f))
//@   uses indexBRange
//@   loop 0 invariant wf:   cur.src == old(cur.src) && 0 <= cur.pos && cur.pos <= len(cur.src)
//@   loop 0 invariant mono: vCbOK(f) == old(vCbOK(f))
//@   loop 0 invariant acc:  vCbOK(f) ==> vSeqEq(vCat(vCbLog(f, "vals"), pieces(cur.src[cur.pos:], delim)), vCat(old(vCbLog(f, "vals")), pieces(old(cur.src)[old(cur.pos):], delim)))
//@   loop 0 invariant ok:   vCbOK(f) ==> okPieces(cur.src[cur.pos:], delim) == okPieces(old(cur.src)[old(cur.pos):], delim)
//@   loop 0 decreases len(cur.src) - cur.pos

// fieldNames / fieldValues / okFields: what the cursor-based object decoder delivers for the
// remaining input s — a name ends at the first kv separator, its value at the first field
// separator — and whether it succeeds (a name without separator, or an empty last value, is an
// error). The *After functions describe the state after a name n has been read.
func fieldNames(s string, kv, fs byte) []string {
	if indexB(s, kv) < 0 {
		return nil
	}
	return namesAfter(s[:indexB(s, kv)], s[indexB(s, kv)+1:], kv, fs)
}

func namesAfter(n string, r string, kv, fs byte) []string {
	if indexB(r, fs) < 0 {
		if len(r) == 0 {
			return nil
		}
		return []string{n}
	}
	return append([]string{n}, fieldNames(r[indexB(r, fs)+1:], kv, fs)...)
}

func fieldValues(s string, kv, fs byte) []string {
	if indexB(s, kv) < 0 {
		return nil
	}
	return valuesAfter(s[indexB(s, kv)+1:], kv, fs)
}

func valuesAfter(r string, kv, fs byte) []string {
	if indexB(r, fs) < 0 {
		if len(r) == 0 {
			return nil
		}
		return []string{r}
	}
	return append([]string{r[:indexB(r, fs)]}, fieldValues(r[indexB(r, fs)+1:], kv, fs)...)
}

func okFields(s string, kv, fs byte) bool {
	if indexB(s, kv) < 0 {
		return false
	}
	return okAfter(s[indexB(s, kv)+1:], kv, fs)
}

func okAfter(r string, kv, fs byte) bool {
	if indexB(r, fs) < 0 {
		return len(r) > 0
	}
	return okFields(r[indexB(r, fs)+1:], kv, fs)
}

//@ func decodeObject(cur *cursor, kvSep byte, fieldSep byte, f func(field string, value string) error) (err error)
//@   callback f(field string, value string) log names field
//@   callback f(field string, value string) log values value
//@   requires wf:    cur != nil && 0 <= cur.pos && cur.pos <= len(cur.src)
//@   requires ascii: kvSep < 0x80 && fieldSep < 0x80
//@   modifies cur.pos, cb:f
//@   ensures frame:  cur.src == old(cur.src) && 0 <= cur.pos && cur.pos <= len(cur.src)
//@   ensures names:  vCbOK(f) && err == nil ==> vSeqEq(vCbLog(f, "names"), vCat(old(vCbLog(f, "names")), fieldNames(old(cur.src)[old(cur.pos):], kvSep, fieldSep)))
//@   ensures values: vCbOK(f) && err == nil ==> vSeqEq(vCbLog(f, "values"), vCat(old(vCbLog(f, "values")), fieldValues(old(cur.src)[old(cur.pos):], kvSep, fieldSep)))
//@   ensures ok:     vCbOK(f) ==> (err == nil) == okFields(old(cur.src)[old(cur.pos):], kvSep, fieldSep)
//@   ensures cbfail: old(vCbOK(f)) && !vCbOK(f) ==> err != nil
//@   ensures mono:   vCbOK(f) ==> old(vCbOK(f))
//@   uses indexBRange
//@   loop 0 vars fname string, field bool
//@   loop 0 invariant wf:    cur.src == old(cur.src) && 0 <= cur.pos && cur.pos <= len(cur.src)
//@   loop 0 invariant mono:  vCbOK(f) == old(vCbOK(f))
//@   loop 0 invariant namesF: vCbOK(f) && field ==> vSeqEq(vCat(vCbLog(f, "names"), fieldNames(cur.src[cur.pos:], kvSep, fieldSep)), vCat(old(vCbLog(f, "names")), fieldNames(old(cur.src)[old(cur.pos):], kvSep, fieldSep)))
//@   loop 0 invariant namesV: vCbOK(f) && !field ==> vSeqEq(vCat(vCbLog(f, "names"), namesAfter(fname, cur.src[cur.pos:], kvSep, fieldSep)), vCat(old(vCbLog(f, "names")), fieldNames(old(cur.src)[old(cur.pos):], kvSep, fieldSep)))
//@   loop 0 invariant valsF:  vCbOK(f) && field ==> vSeqEq(vCat(vCbLog(f, "values"), fieldValues(cur.src[cur.pos:], kvSep, fieldSep)), vCat(old(vCbLog(f, "values")), fieldValues(old(cur.src)[old(cur.pos):], kvSep, fieldSep)))
//@   loop 0 invariant valsV:  vCbOK(f) && !field ==> vSeqEq(vCat(vCbLog(f, "values"), valuesAfter(cur.src[cur.pos:], kvSep, fieldSep)), vCat(old(vCbLog(f, "values")), fieldValues(old(cur.src)[old(cur.pos):], kvSep, fieldSep)))
//@   loop 0 invariant okF:    vCbOK(f) && field ==> okFields(cur.src[cur.pos:], kvSep, fieldSep) == okFields(old(cur.src)[old(cur.pos):], kvSep, fieldSep)
//@   loop 0 invariant okV:    vCbOK(f) && !field ==> okAfter(cur.src[cur.pos:], kvSep, fieldSep) == okFields(old(cur.src)[old(cur.pos):], kvSep, fieldSep)

// ---- path parameter arrays: what the decoder must deliver for each row of the style table ----

// mxItems / okMx: exploded matrix arrays, "name=v1;name=v2;..." after the leading ';'.
func mxItems(s string, param string) []string {
	if indexB(s, '=') < 0 || s[:indexB(s, '=')] != param {
		return nil
	}
	return mxAfter(s[indexB(s, '=')+1:], param)
}

func mxAfter(r string, param string) []string {
	if indexB(r, ';') < 0 {
		if len(r) == 0 {
			return nil
		}
		return []string{r}
	}
	return append([]string{r[:indexB(r, ';')]}, mxItems(r[indexB(r, ';')+1:], param)...)
}

func okMx(s string, param string) bool {
	if indexB(s, '=') < 0 || s[:indexB(s, '=')] != param {
		return false
	}
	return okMxAfter(s[indexB(s, '=')+1:], param)
}

func okMxAfter(r string, param string) bool {
	if indexB(r, ';') < 0 {
		return len(r) > 0
	}
	return okMx(r[indexB(r, ';')+1:], param)
}

// specPathArrayItems / specPathArrayOK: the items denoted by the serialization s of an array path
// parameter named param, per style and explode (inverse reading of the style table, Appendix F):
//
//	simple: a,b,c   label: .a,b,c / .a.b.c (explode)   matrix: ;p=a,b,c / ;p=a;p=b;p=c (explode)
func specPathArrayItems(style PathStyle, explode bool, param string, s string) []string {
	switch style {
	case PathStyleLabel:
		if len(s) == 0 || s[0] != '.' {
			return nil
		}
		if explode {
			return pieces(s[1:], '.')
		}
		return pieces(s[1:], ',')
	case PathStyleMatrix:
		if len(s) == 0 || s[0] != ';' {
			return nil
		}
		if explode {
			return mxItems(s[1:], param)
		}
		if indexB(s[1:], '=') < 0 || s[1:][:indexB(s[1:], '=')] != param {
			return nil
		}
		return pieces(s[1:][indexB(s[1:], '=')+1:], ',')
	}
	return pieces(s, ',')
}

func specPathArrayOK(style PathStyle, explode bool, param string, s string) bool {
	switch style {
	case PathStyleLabel:
		if len(s) == 0 || s[0] != '.' {
			return false
		}
		if explode {
			return okPieces(s[1:], '.')
		}
		return okPieces(s[1:], ',')
	case PathStyleMatrix:
		if len(s) == 0 || s[0] != ';' {
			return false
		}
		if explode {
			return okMx(s[1:], param)
		}
		if indexB(s[1:], '=') < 0 || s[1:][:indexB(s[1:], '=')] != param {
			return false
		}
		return okPieces(s[1:][indexB(s[1:], '=')+1:], ',')
	}
	return okPieces(s, ',')
}

//@ func (d *PathDecoder) DecodeArray(f func(d Decoder) error) (err error)
//@   callback f(d Decoder) log vals d.(*constval).v
//@   requires style: validPathStyle(d.style)
//@   requires cur:   d.cur != nil && 0 <= d.cur.pos && d.cur.pos <= len(d.cur.src)
//@   modifies d.cur.pos, cb:f
//@   ensures ok:     vCbOK(f) ==> (err == nil) == specPathArrayOK(d.style, d.explode, d.param, old(d.cur.src)[old(d.cur.pos):])
//@   ensures items:  vCbOK(f) && err == nil ==> vSeqEq(vCbLog(f, "vals"), vCat(old(vCbLog(f, "vals")), specPathArrayItems(d.style, d.explode, d.param, old(d.cur.src)[old(d.cur.pos):])))
//@   ensures cbfail: old(vCbOK(f)) && !vCbOK(f) ==> err != nil
//@   uses indexBRange
//@   fuel 3
//@   loop 0 modifies d.cur.pos
//@   loop 0 invariant wf:    d.cur == old(d.cur) && d.cur.src == old(d.cur.src) && 0 <= d.cur.pos && d.cur.pos <= len(d.cur.src)
//@   loop 0 invariant mono:  vCbOK(f) == old(vCbOK(f))
//@   loop 0 invariant head:  old(d.cur.pos) < len(d.cur.src) && d.cur.src[old(d.cur.pos)] == ';'
//@   loop 0 invariant acc:   vCbOK(f) ==> vSeqEq(vCat(vCbLog(f, "vals"), mxItems(d.cur.src[d.cur.pos:], d.param)), vCat(old(vCbLog(f, "vals")), mxItems(old(d.cur.src)[old(d.cur.pos)+1:], d.param)))
//@   loop 0 invariant ok:    vCbOK(f) ==> okMx(d.cur.src[d.cur.pos:], d.param) == okMx(old(d.cur.src)[old(d.cur.pos)+1:], d.param)
//@   loop 0 decreases len(d.cur.src) - d.cur.pos

// ---- path parameter objects -------------------------------------------------------------

// objKV / objFS: key-value and field separators of the style table's object column.
func objKV(style PathStyle, explode bool) byte {
	if explode {
		return '='
	}
	return ','
}

func objFS(style PathStyle, explode bool) byte {
	if explode && style == PathStyleLabel {
		return '.'
	}
	if explode && style == PathStyleMatrix {
		return ';'
	}
	return ','
}

// objBody: the part of the serialization s that holds the name/value pairs, per style (after the
// label dot, the matrix ";" or ";name="); objHead: whether that prefix is present.
func objHead(style PathStyle, explode bool, param string, s string) bool {
	switch style {
	case PathStyleLabel:
		return len(s) > 0 && s[0] == '.'
	case PathStyleMatrix:
		if len(s) == 0 || s[0] != ';' {
			return false
		}
		return explode || indexB(s[1:], '=') >= 0 && s[1:][:indexB(s[1:], '=')] == param
	}
	return true
}

func objBody(style PathStyle, explode bool, param string, s string) string {
	switch style {
	case PathStyleLabel:
		return s[1:]
	case PathStyleMatrix:
		if explode {
			return s[1:]
		}
		return s[1:][indexB(s[1:], '=')+1:]
	}
	return s
}

//@ func (d *PathDecoder) DecodeFields(f func(name string, d Decoder) error) (err error)
//@   callback f(name string, d Decoder) log names name
//@   callback f(name string, d Decoder) log values d.(*constval).v
//@   requires style: validPathStyle(d.style)
//@   requires cur:   d.cur != nil && 0 <= d.cur.pos && d.cur.pos <= len(d.cur.src)
//@   modifies d.cur.pos, cb:f
//@   ensures head:   !objHead(d.style, d.explode, d.param, old(d.cur.src)[old(d.cur.pos):]) ==> err != nil
//@   ensures ok:     vCbOK(f) && objHead(d.style, d.explode, d.param, old(d.cur.src)[old(d.cur.pos):]) ==>
//@                     (err == nil) == okFields(objBody(d.style, d.explode, d.param, old(d.cur.src)[old(d.cur.pos):]), objKV(d.style, d.explode), objFS(d.style, d.explode))
//@   ensures names:  vCbOK(f) && err == nil ==> vSeqEq(vCbLog(f, "names"), vCat(old(vCbLog(f, "names")),
//@                     fieldNames(objBody(d.style, d.explode, d.param, old(d.cur.src)[old(d.cur.pos):]), objKV(d.style, d.explode), objFS(d.style, d.explode))))
//@   ensures values: vCbOK(f) && err == nil ==> vSeqEq(vCbLog(f, "values"), vCat(old(vCbLog(f, "values")),
//@                     fieldValues(objBody(d.style, d.explode, d.param, old(d.cur.src)[old(d.cur.pos):]), objKV(d.style, d.explode), objFS(d.style, d.explode))))
//@   ensures cbfail: old(vCbOK(f)) && !vCbOK(f) ==> err != nil
//@   uses indexBRange

func validPathStyle(s PathStyle) bool {
	return s == PathStyleSimple || s == PathStyleLabel || s == PathStyleMatrix
}

// specPathValue: the serialization of a primitive path parameter (OpenAPI style table,
// before percent-encoding): simple "blue", label ".blue", matrix ";color=blue".
func specPathValue(style PathStyle, name, val string) string {
	switch style {
	case PathStyleLabel:
		return "." + val
	case PathStyleMatrix:
		return ";" + name + "=" + val
	}
	return val
}

// The decoder recovers a non-empty primitive from its table serialization (names free of '=').
//@ func (d *PathDecoder) DecodeValue() (v string, err error)
//@   requires style: validPathStyle(d.style)
//@   requires cur:   d.cur != nil && 0 <= d.cur.pos && d.cur.pos <= len(d.cur.src)
//@   modifies d.cur.pos
//@   ensures simple: d.style == PathStyleSimple && old(d.cur.pos) < len(d.cur.src) ==> err == nil && v == d.cur.src[old(d.cur.pos):]
//@   ensures label:  d.style == PathStyleLabel && old(d.cur.pos)+1 < len(d.cur.src) && d.cur.src[old(d.cur.pos)] == '.' ==> err == nil && v == d.cur.src[old(d.cur.pos)+1:]
//@   ensures nolabel: d.style == PathStyleLabel && (old(d.cur.pos) >= len(d.cur.src) || d.cur.src[old(d.cur.pos)] != '.') ==> err != nil

// ---------------------------------------------------------------------------
// 2d'. Header and cookie parameter encoders (uri/header_param_encoder.go, cookie_param_encoder.go):
//      what goes on the wire is the ghost log "wire" (stdlib/nethttp.go).
// ---------------------------------------------------------------------------

func lastWire(log []string) string { return log[len(log)-1] }

//@ func (e *headerParamEncoder) serialize() (err error)
//@   requires recv:  e.receiver != nil
//@   requires typ:   wfTyp(e.typ)
//@   requires hdr:   e.header != nil
//@   requires plain: !strings.EqualFold(e.paramName, "set-cookie")
//@   modifies log:wire
//@   ensures unset:  e.typ == typeNotSet ==> err == nil && vSeqEq(vLogStr("wire"), old(vLogStr("wire")))
//@   ensures value:  e.typ == typeValue ==> err == nil && len(vLogStr("wire")) == len(old(vLogStr("wire"))) + 1 && lastWire(vLogStr("wire")) == "set " + e.paramName + "=" + e.val
//@   ensures arrRefuse: e.typ == typeArray ==> (err == nil) == (forall k in (0, len(e.items)) :: vTrig(e.items[k]) && noByte(e.items[k], ','))
//@   ensures array:  e.typ == typeArray && err == nil ==> len(vLogStr("wire")) == len(old(vLogStr("wire"))) + 1 && lastWire(vLogStr("wire")) == "set " + e.paramName + "=" + joinS(e.items, ",")
//@   ensures objRefuse: e.typ == typeObject ==> (err == nil) == (forall k in (0, len(e.fields)) :: vTrig(e.fields[k]) &&
//@                        noByte(e.fields[k].Name, specPathObjKV(PathStyleSimple, e.explode)) && noByte(e.fields[k].Value, ','))
//@   ensures object: e.typ == typeObject && err == nil ==> len(vLogStr("wire")) == len(old(vLogStr("wire"))) + 1 &&
//@                        lastWire(vLogStr("wire")) == "set " + e.paramName + "=" + joinFrom(e.fields, 0, specPathObjKV(PathStyleSimple, e.explode), ',')
//@   ensures failSilent: err != nil ==> vSeqEq(vLogStr("wire"), old(vLogStr("wire")))
//@   loop 0 vars rangeindex int
//@   loop 0 invariant range: -1 <= rangeindex && rangeindex < len(e.items)
//@   loop 0 invariant wire:  vSeqEq(vLogStr("wire"), old(vLogStr("wire")))
//@   loop 1 vars rangeindex int
//@   loop 1 invariant range: -1 <= rangeindex && rangeindex < len(e.items)
//@   loop 1 invariant wire:  vSeqEq(vLogStr("wire"), old(vLogStr("wire")))
//@   loop 1 invariant done:  forall k in (0, rangeindex+1) :: noByte(e.items[k], ',')
//@   loop 2 vars rangeindex int
//@   loop 2 invariant range: -1 <= rangeindex && rangeindex < len(e.fields)
//@   loop 2 invariant wire:  vSeqEq(vLogStr("wire"), old(vLogStr("wire")))
//@   loop 2 invariant done:  forall k in (0, rangeindex+1) :: noByte(e.fields[k].Name, specPathObjKV(PathStyleSimple, e.explode)) && noByte(e.fields[k].Value, ',')

//@ func (e *cookieParamEncoder) setCookie(val string)
//@   requires req: e.req != nil
//@   modifies log:wire
//@   ensures sent: len(vLogStr("wire")) == len(old(vLogStr("wire"))) + 1 && lastWire(vLogStr("wire")) == "cookie " + e.paramName + "=" + escC(val)

//@ func (e *cookieParamEncoder) serialize() (err error)
//@   requires recv:  e.receiver != nil && e.req != nil
//@   requires typ:   wfTyp(e.typ)
//@   requires form:  e.typ == typeArray || e.typ == typeObject ==> !e.explode
//@   modifies log:wire
//@   ensures unset:  e.typ == typeNotSet ==> err == nil && vSeqEq(vLogStr("wire"), old(vLogStr("wire")))
//@   ensures value:  e.typ == typeValue ==> err == nil && len(vLogStr("wire")) == len(old(vLogStr("wire"))) + 1 && lastWire(vLogStr("wire")) == "cookie " + e.paramName + "=" + escC(e.val)
//@   ensures arrRefuse: e.typ == typeArray ==> (err == nil) == (forall k in (0, len(e.items)) :: vTrig(e.items[k]) && noByte(e.items[k], ','))
//@   ensures array:  e.typ == typeArray && err == nil ==> len(vLogStr("wire")) == len(old(vLogStr("wire"))) + 1 && lastWire(vLogStr("wire")) == "cookie " + e.paramName + "=" + escC(joinS(e.items, ","))
//@   ensures objRefuse: e.typ == typeObject ==> (err == nil) == (forall k in (0, len(e.fields)) :: vTrig(e.fields[k]) && noByte(e.fields[k].Name, ',') && noByte(e.fields[k].Value, ','))
//@   ensures object: e.typ == typeObject && err == nil ==> len(vLogStr("wire")) == len(old(vLogStr("wire"))) + 1 &&
//@                        lastWire(vLogStr("wire")) == "cookie " + e.paramName + "=" + escC(joinFrom(e.fields, 0, ',', ','))
//@   ensures failSilent: err != nil ==> vSeqEq(vLogStr("wire"), old(vLogStr("wire")))
//@   loop 0 vars rangeindex int
//@   loop 0 invariant range: -1 <= rangeindex && rangeindex < len(e.items)
//@   loop 0 invariant wire:  vSeqEq(vLogStr("wire"), old(vLogStr("wire")))
//@   loop 0 invariant done:  forall k in (0, rangeindex+1) :: noByte(e.items[k], ',')
//@   loop 1 vars rangeindex int
//@   loop 1 invariant range: -1 <= rangeindex && rangeindex < len(e.fields)
//@   loop 1 invariant wire:  vSeqEq(vLogStr("wire"), old(vLogStr("wire")))
//@   loop 1 invariant done:  forall k in (0, rangeindex+1) :: noByte(e.fields[k].Name, ',') && noByte(e.fields[k].Value, ',')

// Header parameter decoder (uri/header_param_decoder.go): the value is the first header line of that
// name; arrays are its comma-separated pieces (strings.Split: an empty value is ONE empty piece).
//@ func (d *headerParamDecoder) DecodeValue() (v string, err error)
//@   ensures set:   len(d.header.Values(d.paramName)) > 0 ==> err == nil && v == d.header.Values(d.paramName)[0]
//@   ensures unset: len(d.header.Values(d.paramName)) == 0 ==> err != nil

//@ func (d *headerParamDecoder) DecodeArray(f func(d Decoder) error) (err error)
//@   callback f(d Decoder) log vals d.(constval).v
//@   modifies cb:f
//@   ensures unset: len(d.header.Values(d.paramName)) == 0 ==> err != nil && vSeqEq(vCbLog(f, "vals"), old(vCbLog(f, "vals")))
//@   ensures items: vCbOK(f) && err == nil ==> vSeqEq(vCbLog(f, "vals"), vCat(old(vCbLog(f, "vals")), splitS(d.header.Values(d.paramName)[0], ',')))
//@   ensures ok:    vCbOK(f) && len(d.header.Values(d.paramName)) > 0 ==> err == nil
//@   ensures cbfail: old(vCbOK(f)) && !vCbOK(f) ==> err != nil
//@   loop 0 vars rangeindex int
//@   loop 0 invariant range: -1 <= rangeindex && rangeindex < len(splitS(d.header.Values(d.paramName)[0], ','))
//@   loop 0 invariant mono:  vCbOK(f) == old(vCbOK(f))
//@   loop 0 invariant acc:   vCbOK(f) ==> vSeqEq(vCbLog(f, "vals"), vCat(old(vCbLog(f, "vals")), splitS(d.header.Values(d.paramName)[0], ',')[:rangeindex+1]))

// Cookie parameter decoder (uri/cookie_param_decoder.go): the value is the percent-decoding of the
// cookie of that name; a cookie with a malformed escape is refused; arrays are its comma pieces.
//@ func (d *cookieParamDecoder) DecodeValue() (v string, err error)
//@   requires req: d.req != nil
//@   ensures absent:  !specHasCookie(d.req, d.paramName) ==> err != nil
//@   ensures present: specHasCookie(d.req, d.paramName) ==> (err == nil) == wellEscaped(specCookieValue(d.req, d.paramName))
//@   ensures decoded: specHasCookie(d.req, d.paramName) && err == nil ==> v == pctDecode(specCookieValue(d.req, d.paramName))

func specHasCookie(r *http.Request, name string) bool {
	_, err := r.Cookie(name)
	return err == nil
}

func specCookieValue(r *http.Request, name string) string {
	c, err := r.Cookie(name)
	if err != nil || c == nil {
		return ""
	}
	return c.Value
}

// Exported views of the cookie specification functions, for contracts of OTHER packages (the derived
// contracts of generated parameter decoders): is the cookie there, is its value well escaped, and
// the text the decoder delivers.
func VerifCookiePresent(r *http.Request, name string) bool { return specHasCookie(r, name) }
func VerifCookieWell(r *http.Request, name string) bool {
	return wellEscaped(specCookieValue(r, name))
}

// The cookie-name check (internal/httpcookie, a copy of net/http's): an unspecified pure predicate here.
//@ extern func httpcookie.IsCookieNameValid(raw string) (ok bool)
//@   pure

// VerifEscCookie: the escaped text the cookie encoder puts on the wire for a value.
func VerifEscCookie(s string) string { return escC(s) }

func VerifCookieText(r *http.Request, name string) string {
	return pctDecode(specCookieValue(r, name))
}

//@ func (d *cookieParamDecoder) DecodeArray(f func(d Decoder) error) (err error)
//@   callback f(d Decoder) log vals d.(constval).v
//@   requires req: d.req != nil
//@   modifies cb:f
//@   ensures items: vCbOK(f) && err == nil ==> vSeqEq(vCbLog(f, "vals"), vCat(old(vCbLog(f, "vals")), splitS(pctDecode(specCookieValue(d.req, d.paramName)), ',')))
//@   ensures ok:    vCbOK(f) && specHasCookie(d.req, d.paramName) && wellEscaped(specCookieValue(d.req, d.paramName)) ==> err == nil
//@   ensures cbfail: old(vCbOK(f)) && !vCbOK(f) ==> err != nil
//@   loop 0 vars rangeindex int
//@   loop 0 invariant range: -1 <= rangeindex && rangeindex < len(splitS(pctDecode(specCookieValue(d.req, d.paramName)), ','))
//@   loop 0 invariant mono:  vCbOK(f) == old(vCbOK(f))
//@   loop 0 invariant acc:   vCbOK(f) ==> vSeqEq(vCbLog(f, "vals"), vCat(old(vCbLog(f, "vals")), splitS(pctDecode(specCookieValue(d.req, d.paramName)), ',')[:rangeindex+1]))

// Query parameter decoder (uri/query_param_decoder.go), primitive and array shapes. url.Values as
// net/url builds them never hold an empty value list (ParseQuery only appends): precondition.
//@ func (d *queryParamDecoder) DecodeValue() (v string, err error)
//@   requires style: validQueryStyle(d.style)
//@   ensures form:   d.style == QueryStyleForm ==> (err == nil) == (vHas(d.values, d.paramName) && len(d.values[d.paramName]) == 1)
//@   ensures value:  d.style == QueryStyleForm && err == nil ==> v == d.values[d.paramName][0]
//@   ensures others: d.style != QueryStyleForm ==> err != nil

// specQueryPieces: what the form decoder makes of the single value of a non-exploded array:
// the comma pieces, except that the empty text is NO item (code comment: "do not decode ?param= as [\"\"]").
func specQueryPieces(s string) []string {
	if s == "" {
		return nil
	}
	return splitS(s, ',')
}

//@ func (d *queryParamDecoder) DecodeArray(f func(d Decoder) error) (err error)
//@   callback f(d Decoder) log vals d.(*constval).v
//@   requires style: validQueryStyle(d.style)
//@   modifies cb:f
//@   ensures absent:  !vHas(d.values, d.paramName) ==> err != nil && vSeqEq(vCbLog(f, "vals"), old(vCbLog(f, "vals")))
//@   ensures exploded: vCbOK(f) && err == nil && d.explode && d.style != QueryStyleDeepObject ==>
//@                       vSeqEq(vCbLog(f, "vals"), vCat(old(vCbLog(f, "vals")), d.values[d.paramName]))
//@   ensures form:     vCbOK(f) && err == nil && !d.explode && d.style == QueryStyleForm ==>
//@                       len(d.values[d.paramName]) == 1 && vSeqEq(vCbLog(f, "vals"), vCat(old(vCbLog(f, "vals")), specQueryPieces(d.values[d.paramName][0])))
//@   ensures pipe:     vCbOK(f) && err == nil && !d.explode && d.style == QueryStylePipeDelimited ==>
//@                       len(d.values[d.paramName]) == 1 && vSeqEq(vCbLog(f, "vals"), vCat(old(vCbLog(f, "vals")), splitS(d.values[d.paramName][0], '|')))
//@   ensures okForm:   vCbOK(f) && vHas(d.values, d.paramName) && d.style == QueryStyleForm && (d.explode || len(d.values[d.paramName]) == 1) ==> err == nil
//@   ensures never:    d.style == QueryStyleDeepObject || (d.style == QueryStyleSpaceDelimited && !d.explode) ==> err != nil
//@   ensures cbfail:   old(vCbOK(f)) && !vCbOK(f) ==> err != nil
//@   loop 0 vars rangeindex int
//@   loop 0 invariant range: -1 <= rangeindex && rangeindex < len(d.values[d.paramName])
//@   loop 0 invariant mono:  vCbOK(f) == old(vCbOK(f))
//@   loop 0 invariant acc:   vCbOK(f) ==> vSeqEq(vCbLog(f, "vals"), vCat(old(vCbLog(f, "vals")), d.values[d.paramName][:rangeindex+1]))
//@   loop 1 vars rangeindex int
//@   loop 1 invariant range: -1 <= rangeindex && rangeindex < len(splitS(d.values[d.paramName][0], ','))
//@   loop 1 invariant mono:  vCbOK(f) == old(vCbOK(f))
//@   loop 1 invariant acc:   vCbOK(f) ==> vSeqEq(vCbLog(f, "vals"), vCat(old(vCbLog(f, "vals")), splitS(d.values[d.paramName][0], ',')[:rangeindex+1]))
//@   loop 2 vars rangeindex int
//@   loop 2 invariant range: -1 <= rangeindex && rangeindex < len(d.values[d.paramName])
//@   loop 2 invariant mono:  vCbOK(f) == old(vCbOK(f))
//@   loop 2 invariant acc:   vCbOK(f) ==> vSeqEq(vCbLog(f, "vals"), vCat(old(vCbLog(f, "vals")), d.values[d.paramName][:rangeindex+1]))
//@   loop 3 vars rangeindex int
//@   loop 3 invariant range: -1 <= rangeindex && rangeindex < len(d.values[d.paramName])
//@   loop 3 invariant mono:  vCbOK(f) == old(vCbOK(f))
//@   loop 3 invariant acc:   vCbOK(f) ==> vSeqEq(vCbLog(f, "vals"), vCat(old(vCbLog(f, "vals")), d.values[d.paramName][:rangeindex+1]))
//@   loop 4 vars rangeindex int
//@   loop 4 invariant range: -1 <= rangeindex && rangeindex < len(splitS(d.values[d.paramName][0], '|'))
//@   loop 4 invariant mono:  vCbOK(f) == old(vCbOK(f))
//@   loop 4 invariant acc:   vCbOK(f) ==> vSeqEq(vCbLog(f, "vals"), vCat(old(vCbLog(f, "vals")), splitS(d.values[d.paramName][0], '|')[:rangeindex+1]))

// Channel of a non-exploded form array through the REAL encoder and decoder (query location): the
// decoder's callback receives exactly the items the caller gave the encoder - EXCEPT for the list
// holding one empty string, which serializes to `p=` and decodes to no item at all (known finding
// query-form-array-single-empty-item: the first harness is expected to fail its obligation).
// @ func verifQueryFormArrayChannel(items []string, f func(d Decoder) error) (err error)
// @   callback f(d Decoder) log vals d.(*constval).v
// @   requires some: len(items) > 0
// @   requires free: forall k in (0, len(items)) :: vTrig(items[k]) && noByte(items[k], ',')
// @   modifies cb:f
// @   uses splitJoin
// @   ensures delivered: vCbOK(f) && err == nil ==> vSeqEq(vCbLog(f, "vals"), vCat(old(vCbLog(f, "vals")), items))
// @   ensures accepted:  vCbOK(f) ==> err == nil
func verifQueryFormArrayChannel(items []string, f func(d Decoder) error) error {
	e := &queryParamEncoder{receiver: &receiver{typ: typeArray, items: items}, values: url.Values{}, paramName: "p", style: QueryStyleForm}
	if err := e.serialize(); err != nil {
		return err
	}
	d := &queryParamDecoder{values: e.values, paramName: "p", style: QueryStyleForm}
	return d.DecodeArray(f)
}

// The same channel with the ambiguous value excluded: proved.
// @ func verifQueryFormArrayChannelNonEmpty(items []string, f func(d Decoder) error) (err error)
// @   callback f(d Decoder) log vals d.(*constval).v
// @   requires some: len(items) > 0 && !(len(items) == 1 && items[0] == "")
// @   requires free: forall k in (0, len(items)) :: vTrig(items[k]) && noByte(items[k], ',')
// @   modifies cb:f
// @   uses splitJoin
// @   ensures delivered: vCbOK(f) && err == nil ==> vSeqEq(vCbLog(f, "vals"), vCat(old(vCbLog(f, "vals")), items))
// @   ensures accepted:  vCbOK(f) ==> err == nil
func verifQueryFormArrayChannelNonEmpty(items []string, f func(d Decoder) error) error {
	e := &queryParamEncoder{receiver: &receiver{typ: typeArray, items: items}, values: url.Values{}, paramName: "p", style: QueryStyleForm}
	if err := e.serialize(); err != nil {
		return err
	}
	d := &queryParamDecoder{values: e.values, paramName: "p", style: QueryStyleForm}
	return d.DecodeArray(f)
}

// Round trip of a header array at the text level: what serialize puts into the header line
// (strings.Join of the items) splits back into exactly the items (lemma splitJoin), for a non-empty
// list of items free of ','. The two ends are the contracts above; net/http carries the line.
// @ func verifHeaderArrayText(items []string) (out []string)
// @   requires some: len(items) > 0
// @   requires free: forall k in (0, len(items)) :: vTrig(items[k]) && noByte(items[k], ',')
// @   uses splitJoin
// @   ensures rt: vSeqEq(out, items)
func verifHeaderArrayText(items []string) []string {
	return strings.Split(strings.Join(items, ","), ",")
}

// ---------------------------------------------------------------------------
// 2d''. Query parameter encoder (uri/query_param_encoder.go): the url.Values map is the wire form
//       (net/url escapes keys and values when the query is encoded). Style table rows form,
//       spaceDelimited, pipeDelimited, deepObject; combinations the generator does not admit panic
//       and are excluded by the preconditions (admission is C06's "no admitted combination panics").
// ---------------------------------------------------------------------------

func validQueryStyle(s QueryStyle) bool {
	return s == QueryStyleForm || s == QueryStyleSpaceDelimited || s == QueryStylePipeDelimited || s == QueryStyleDeepObject
}

// one1: the one-element list.
func one1(s string) []string { return []string{s} }

//@ func (e *queryParamEncoder) encodeValue() (err error)
//@   requires recv:  e.receiver != nil && e.values != nil
//@   requires admit: e.style == QueryStyleForm
//@   modifies e.values[*]
//@   ensures form: err == nil && vHas(e.values, e.paramName) && vSeqEq(e.values[e.paramName], one1(e.val))
//@   ensures others: forall k string :: k != e.paramName ==> vHas(e.values, k) == old(vHas(e.values, k)) && vSeqEq(e.values[k], old(e.values[k]))

// the separator of a non-exploded array
func specQueryArraySep(style QueryStyle) byte {
	if style == QueryStylePipeDelimited {
		return '|'
	}
	return ','
}

//@ func (e *queryParamEncoder) encodeArray() (err error)
//@   requires recv:  e.receiver != nil && e.values != nil
//@   requires admit: e.style == QueryStyleForm || (e.style == QueryStyleSpaceDelimited && e.explode) || e.style == QueryStylePipeDelimited
//@   modifies e.values[*]
//@   ensures explode: e.explode ==> err == nil && vHas(e.values, e.paramName) && vSeqEq(e.values[e.paramName], e.items)
//@   ensures refuse:  !e.explode ==> (err == nil) == (forall k in (0, len(e.items)) :: vTrig(e.items[k]) && noByte(e.items[k], specQueryArraySep(e.style)))
//@   ensures joined:  !e.explode && err == nil ==> vHas(e.values, e.paramName) && vSeqEq(e.values[e.paramName], one1(joinS(e.items, str1(specQueryArraySep(e.style)))))
//@   ensures others:  forall k string :: k != e.paramName ==> vHas(e.values, k) == old(vHas(e.values, k)) && vSeqEq(e.values[k], old(e.values[k]))
//@   ensures failSilent: err != nil ==> vHas(e.values, e.paramName) == old(vHas(e.values, e.paramName)) && vSeqEq(e.values[e.paramName], old(e.values[e.paramName]))
//@   loop 0 vars rangeindex int
//@   loop 0 invariant range: -1 <= rangeindex && rangeindex < len(e.items)
//@   loop 0 invariant done:  forall k in (0, rangeindex+1) :: noByte(e.items[k], ',')
//@   loop 1 vars rangeindex int
//@   loop 1 invariant range: -1 <= rangeindex && rangeindex < len(e.items)
//@   loop 1 invariant done:  forall k in (0, rangeindex+1) :: noByte(e.items[k], '|')

func deepKey(param string, name string) string { return param + "[" + name + "]" }

// Flat objects. Property names of one object are pairwise distinct (the generated encoders call
// EncodeField once per declared property); for deepObject the precondition is stated on the keys
// param[name] (equivalent, and spares the proof an injectivity argument about concatenation).
//@ func (e *queryParamEncoder) encodeObject() (err error)
//@   requires recv:  e.receiver != nil && e.values != nil
//@   requires admit: e.style == QueryStyleForm || (e.style == QueryStyleDeepObject && e.explode)
//@   requires names: e.style == QueryStyleForm && e.explode ==> (forall i in (0, len(e.fields)) :: forall j in (0, i) :: e.fields[i].Name != e.fields[j].Name)
//@   requires keys:  e.style == QueryStyleDeepObject ==> (forall i in (0, len(e.fields)) :: forall j in (0, i) :: deepKey(e.paramName, e.fields[i].Name) != deepKey(e.paramName, e.fields[j].Name))
//@   modifies e.values[*]
//@   ensures formExplode: e.style == QueryStyleForm && e.explode ==> err == nil &&
//@                          (forall k in (0, len(e.fields)) :: vHas(e.values, e.fields[k].Name) && vSeqEq(e.values[e.fields[k].Name], one1(e.fields[k].Value)))
//@   ensures deep:        e.style == QueryStyleDeepObject ==> err == nil &&
//@                          (forall k in (0, len(e.fields)) :: vHas(e.values, deepKey(e.paramName, e.fields[k].Name)) && vSeqEq(e.values[deepKey(e.paramName, e.fields[k].Name)], one1(e.fields[k].Value)))
//@   ensures refuse:      e.style == QueryStyleForm && !e.explode ==> (err == nil) == (forall k in (0, len(e.fields)) :: vTrig(e.fields[k]) && noByte(e.fields[k].Name, ',') && noByte(e.fields[k].Value, ','))
//@   ensures joined:      e.style == QueryStyleForm && !e.explode && err == nil ==> vHas(e.values, e.paramName) && vSeqEq(e.values[e.paramName], one1(joinFields(e.fields, ',', ',')))
//@   loop 0 vars rangeindex int
//@   loop 0 modifies e.values[*]
//@   loop 0 invariant range: -1 <= rangeindex && rangeindex < len(e.fields)
//@   loop 0 invariant done:  forall k in (0, rangeindex+1) :: vHas(e.values, e.fields[k].Name) && vSeqEq(e.values[e.fields[k].Name], one1(e.fields[k].Value))
//@   loop 1 vars rangeindex int, out string
//@   loop 1 invariant range: -1 <= rangeindex && rangeindex < len(e.fields)
//@   loop 1 invariant done:  forall k in (0, rangeindex+1) :: noByte(e.fields[k].Name, ',') && noByte(e.fields[k].Value, ',')
//@   loop 1 invariant acc:   out + joinFields(e.fields[rangeindex+1:], ',', ',') == joinFields(e.fields, ',', ',')
//@   loop 2 vars rangeindex int
//@   loop 2 modifies e.values[*]
//@   loop 2 invariant range: -1 <= rangeindex && rangeindex < len(e.fields)
//@   loop 2 invariant done:  forall k in (0, rangeindex+1) :: vHas(e.values, deepKey(e.paramName, e.fields[k].Name)) && vSeqEq(e.values[deepKey(e.paramName, e.fields[k].Name)], one1(e.fields[k].Value))

//@ func (e *queryParamEncoder) serialize() (err error)
//@   requires recv:  e.receiver != nil && e.values != nil
//@   requires typ:   wfTyp(e.typ)
//@   requires admitV: e.typ == typeValue ==> e.style == QueryStyleForm
//@   requires admitA: e.typ == typeArray ==> e.style == QueryStyleForm || (e.style == QueryStyleSpaceDelimited && e.explode) || e.style == QueryStylePipeDelimited
//@   requires admitO: e.typ == typeObject ==> e.style == QueryStyleForm || (e.style == QueryStyleDeepObject && e.explode)
//@   requires names: e.typ == typeObject && e.style == QueryStyleForm && e.explode ==> (forall i in (0, len(e.fields)) :: forall j in (0, i) :: e.fields[i].Name != e.fields[j].Name)
//@   requires keys:  e.typ == typeObject && e.style == QueryStyleDeepObject ==> (forall i in (0, len(e.fields)) :: forall j in (0, i) :: deepKey(e.paramName, e.fields[i].Name) != deepKey(e.paramName, e.fields[j].Name))
//@   modifies e.values[*]
//@   ensures unset: e.typ == typeNotSet ==> err == nil && (forall k string :: vHas(e.values, k) == old(vHas(e.values, k)) && vSeqEq(e.values[k], old(e.values[k])))
//@   ensures value: e.typ == typeValue ==> err == nil && vHas(e.values, e.paramName) && vSeqEq(e.values[e.paramName], one1(e.val))
//@   ensures valueFrame: e.typ == typeValue ==> (forall k string :: k != e.paramName ==> vHas(e.values, k) == old(vHas(e.values, k)) && vSeqEq(e.values[k], old(e.values[k])))
//@   ensures array: e.typ == typeArray && e.explode ==> err == nil && vSeqEq(e.values[e.paramName], e.items)
//@   ensures arrRefuse: e.typ == typeArray && !e.explode ==> (err == nil) == (forall k in (0, len(e.items)) :: vTrig(e.items[k]) && noByte(e.items[k], specQueryArraySep(e.style)))
//@   ensures arrJoined: e.typ == typeArray && !e.explode && err == nil ==> vHas(e.values, e.paramName) && vSeqEq(e.values[e.paramName], one1(joinS(e.items, str1(specQueryArraySep(e.style)))))

// ---------------------------------------------------------------------------
// 2e. Channel harness (property C01, path parameter of primitive shape): what the generated client
//     does (NewPathEncoder, EncodeValue, Result), the transport/router/handler step that hands the
//     percent-decoded segment to the decoder (url.PathUnescape; the router's extraction is C05, the
//     normalization C12), and what the generated server does (NewPathDecoder, DecodeValue).
// ---------------------------------------------------------------------------

// @ func verifPathValueChannel(param string, style PathStyle, explode bool, v string) (out string, err error)
// @   requires style:    style == PathStyleSimple || style == PathStyleLabel
// @   requires nonempty: len(v) > 0
// @   uses pathEscapeInverse, pathUnescapePlainPrefix, pathUnescapeBytePrefix
// @   ensures delivered: err == nil && out == v
func verifPathValueChannel(param string, style PathStyle, explode bool, v string) (string, error) {
	e := NewPathEncoder(PathEncoderConfig{Param: param, Style: style, Explode: explode})
	if err := e.EncodeValue(v); err != nil {
		return "", err
	}
	s, err := e.Result()
	if err != nil {
		return "", err
	}
	u, err := url.PathUnescape(s)
	if err != nil {
		return "", err
	}
	return NewPathDecoder(PathDecoderConfig{Param: param, Value: u, Style: style, Explode: explode}).DecodeValue()
}

// ---------------------------------------------------------------------------
// 2f. uri/url.go: AddPathParts (property C01: the request path the client sends)
// ---------------------------------------------------------------------------

// verifEscPath: the escaped form net/url gives a path that has no RawPath of its own
// ((&url.URL{Path: p}).EscapedPath()); uninterpreted in proofs, executable in replays.
// @ func verifEscPath(p string) (r string)
// @   trusted wrapper around net/url; only its inverse law is assumed (lemma escPathInverse)
// @   pure
func verifEscPath(p string) string { return (&url.URL{Path: p}).EscapedPath() }

//@ extern func (u *url.URL) EscapedPath() (r string)
//@   ensures plain: u.RawPath == "" ==> r == verifEscPath(u.Path)

//@ lemma escPathInverse(p string)
//@   trusted net/url: EscapedPath() of a URL without RawPath is escape(Path, encodePath), which PathUnescape inverts
//@   ensures inv: verifUnescOK(verifEscPath(p)) && verifUnescVal(verifEscPath(p)) == p
//@   trigger verifEscPath(p)

func hasPct(s string) bool { return indexB(s, '%') >= 0 }

// unescCat: what AddPathParts appends to Path: parts without '%' verbatim, the others unescaped.
func unescCat(parts []string) string {
	if len(parts) == 0 {
		return ""
	}
	if hasPct(parts[0]) {
		return verifUnescVal(parts[0]) + unescCat(parts[1:])
	}
	return parts[0] + unescCat(parts[1:])
}

func catAll(parts []string) string {
	if len(parts) == 0 {
		return ""
	}
	return parts[0] + catAll(parts[1:])
}

// anyPct: one of the first n parts contains '%'.
func anyPct(parts []string, n int) bool {
	return vExistsIn(0, n, func(k int) bool { return vTrig(parts[k]) && hasPct(parts[k]) })
}

func allUnescOK(parts []string) bool {
	return vForallIn(0, len(parts), func(k int) bool { return verifUnescOK(parts[k]) })
}

// AddPathParts: Path grows by the unescaped parts; as soon as an escaped part (or an inherited
// RawPath) exists, RawPath is maintained and stays CONSISTENT with Path: it unescapes without error
// to exactly Path. net/url's EscapedPath() sends RawPath only when that holds (and RawPath is a
// valid encoding); otherwise it re-escapes Path, and an escaped '/' inside a parameter value would
// be sent as a path separator.
//@ func AddPathParts(u *url.URL, parts []string)
//@   requires nonnil: u != nil
//@   requires parts:  allUnescOK(parts)
//@   requires rawok:  u.RawPath != "" ==> verifUnescOK(u.RawPath) && verifUnescVal(u.RawPath) == u.Path
//@   modifies u.Path, u.RawPath
//@   uses pathUnescapeCat, pathUnescapePlain, escPathInverse, indexBRange, indexBFirst
//@   ensures path:       u.Path == old(u.Path) + unescCat(parts)
//@   ensures plain:      old(u.RawPath) == "" && !anyPct(parts, len(parts)) ==> u.RawPath == ""
//@   ensures consistent: u.RawPath != "" ==> verifUnescOK(u.RawPath) && verifUnescVal(u.RawPath) == u.Path
//@   ensures rawmode:    (old(u.RawPath) != "" || anyPct(parts, len(parts))) && len(old(u.Path)) + len(old(u.RawPath)) > 0 ==> u.RawPath != ""
//@   loop 0 vars rangeindex int, writeRaw bool, path *strings.Builder, rawPath *strings.Builder
//@   loop 0 invariant range: -1 <= rangeindex && rangeindex < len(parts)
//@   loop 0 invariant path:  path.String() + unescCat(parts[rangeindex+1:]) == old(u.Path) + unescCat(parts)
//@   loop 0 invariant mode:  writeRaw == (old(u.RawPath) != "" || anyPct(parts, rangeindex+1))
//@   loop 0 invariant raw:   writeRaw ==> verifUnescOK(rawPath.String()) && verifUnescVal(rawPath.String()) == path.String()
//@   loop 0 invariant noraw: !writeRaw ==> rawPath.String() == ""
//@   loop 0 invariant len:   writeRaw && len(old(u.Path)) + len(old(u.RawPath)) > 0 ==> len(rawPath.String()) > 0

// ---------------------------------------------------------------------------
// 3. Lemmas
// ---------------------------------------------------------------------------

// --- Property C12, second half: the normal form is canonical, idempotent and meaning-preserving ---

// The normal form of a well-escaped string is well-escaped.
//@ lemma nfWell(s string)
//@   requires well: wellEscaped(s)
//@   ensures well: wellEscaped(nf(s))
//@   decreases len(s)
//@   induct s[3:]; s[1:]
//@   trigger wellEscaped(nf(s))

// Normalizing twice is normalizing once.
//@ lemma nfIdem(s string)
//@   requires well: wellEscaped(s)
//@   ensures idem: nf(nf(s)) == nf(s)
//@   decreases len(s)
//@   induct s[3:]; s[1:]
//@   trigger nf(nf(s))

// Normalization does not change the octets the path denotes.
//@ lemma nfDecode(s string)
//@   requires well: wellEscaped(s)
//@   ensures same: pctDecode(nf(s)) == pctDecode(s)
//@   decreases len(s)
//@   induct s[3:]; s[1:]
//@   trigger pctDecode(nf(s))

// The normal form is canonical (upper-case hex, nothing escaped that need not be).
//@ lemma nfCanonical(s string)
//@   requires well: wellEscaped(s)
//@   ensures canon: canonicalPath(nf(s))
//@   decreases len(s)
//@   induct s[3:]; s[1:]
//@   trigger canonicalPath(nf(s))

// Property-level harness: what a caller of NormalizeEscapedPath gets, in the property's words.
// @ func verifNormalizeTwice(s string) (a string, b string, ok1 bool, ok2 bool)
// @   uses nfIdem, nfWell, nfDecode, nfCanonical
// @   ensures idempotent: ok1 ==> ok2 && b == a
// @   ensures meaning:    ok1 ==> pctDecode(a) == pctDecode(s)
// @   ensures canonical:  ok1 ==> canonicalPath(a)
func verifNormalizeTwice(s string) (a, b string, ok1, ok2 bool) {
	a, ok1 = NormalizeEscapedPath(s)
	if !ok1 {
		return a, "", false, false
	}
	b, ok2 = NormalizeEscapedPath(a)
	return a, b, ok1, ok2
}

// A canonical escape is its own normal form.
//@ lemma canonTokNf(x string)
//@   requires canonTok(x)
//@   ensures tok: nfTok(x[1], x[2]) == x[:3]
//@   trigger canonTok(x)

// A string without '%' is well-escaped and is its own normal form.
//@ lemma noPct(x string)
//@   requires indexB(x, '%') < 0
//@   ensures wf: wellEscaped(x)
//@   ensures nf: nf(x) == x
//@   decreases len(x)
//@   induct x[1:]
//@   trigger indexB(x, '%')

// Everything before the first '%' is copied by nf and irrelevant for wellEscaped.
//@ lemma skipToPct(x string)
//@   requires indexB(x, '%') >= 0
//@   ensures wf: wellEscaped(x) == wellEscaped(x[indexB(x, '%'):])
//@   ensures nf: nf(x) == x[:indexB(x, '%')] + nf(x[indexB(x, '%'):])
//@   decreases len(x)
//@   induct x[1:]
//@   uses indexBRange
//@   assert glue: indexB(x, '%') > 0 ==> x[:1] + x[1:][:indexB(x[1:], '%')] == x[:1+indexB(x[1:], '%')]
//@   trigger indexB(x, '%')

var _ strings.Builder
var _ = io.EOF
var _ = httpcookie.IsCookieNameValid

// ---------------------------------------------------------------------------
// 2g. Channel harness for an ARRAY path parameter (properties C06 / C01), style simple: what the generated
//     client does for a two-item array (NewPathEncoder, EncodeArray with one EncodeValue per item, Result),
//     the percent-decoding step in front of the decoder (url.PathUnescape), and what the generated server
//     does (NewPathDecoder, DecodeArray with one DecodeValue per item). For every two non-empty items
//     free of the delimiter the decoder's callback receives exactly the two items, in order, and nothing
//     fails; an item containing the delimiter is refused by the encoder (nothing is sent).
// ---------------------------------------------------------------------------

//@ lemma unescJoin2(a string, b string)
//@   uses pathEscapeInverse, pathUnescapeCat, pathUnescapePlain
//@   ensures ok:  verifUnescOK(url.PathEscape(a) + "," + url.PathEscape(b))
//@   ensures val: verifUnescVal(url.PathEscape(a) + "," + url.PathEscape(b)) == a + "," + b
//@   assert comma: verifUnescOK(",") && verifUnescVal(",") == ","
//@   assert tail:  verifUnescOK("," + url.PathEscape(b)) && verifUnescVal("," + url.PathEscape(b)) == "," + b
//@   trigger verifUnescVal(url.PathEscape(a) + "," + url.PathEscape(b))

//@ lemma pieces2(a string, b string)
//@   uses indexBCat, indexBNone
//@   requires free: noByte(a, ',') && noByte(b, ',') && len(b) > 0
//@   ensures items: vSeqEq(pieces(a + "," + b, ','), []string{a, b})
//@   ensures ok:    okPieces(a + "," + b, ',')
//@   assert first: indexB(a + "," + b, ',') == len(a)
//@   assert last:  indexB(b, ',') < 0
//@   trigger pieces(a + "," + b, ',')

// The client half: the text the encoder puts on the wire for a two-item array, style simple.
// @ func verifPathArray2Wire(param string, explode bool, a string, b string) (s string, err error)
// @   ensures refused: !(noByte(a, ',') && noByte(b, ',')) ==> err != nil
// @   ensures wire:    noByte(a, ',') && noByte(b, ',') ==> err == nil && s == url.PathEscape(a) + "," + url.PathEscape(b)
func verifPathArray2Wire(param string, explode bool, a, b string) (string, error) {
	e := NewPathEncoder(PathEncoderConfig{Param: param, Style: PathStyleSimple, Explode: explode})
	if err := e.EncodeArray(func(e Encoder) error {
		if err := e.EncodeValue(a); err != nil {
			return err
		}
		return e.EncodeValue(b)
	}); err != nil {
		return "", err
	}
	return e.Result()
}

// @ func verifPathArray2Channel(param string, explode bool, a string, b string, f func(d Decoder) error) (err error)
// @   callback f(d Decoder) log vals d.(*constval).v
// @   requires nonempty: len(a) > 0 && len(b) > 0
// @   modifies cb:f
// @   uses unescJoin2, pieces2
// @   ensures refused:   !(noByte(a, ',') && noByte(b, ',')) ==> err != nil && vSeqEq(vCbLog(f, "vals"), old(vCbLog(f, "vals")))
// @   ensures delivered: noByte(a, ',') && noByte(b, ',') && vCbOK(f) ==> err == nil && vSeqEq(vCbLog(f, "vals"), vCat(old(vCbLog(f, "vals")), []string{a, b}))
func verifPathArray2Channel(param string, explode bool, a, b string, f func(d Decoder) error) error {
	s, err := verifPathArray2Wire(param, explode, a, b)
	if err != nil {
		return err
	}
	u, err := url.PathUnescape(s)
	if err != nil {
		return err
	}
	return NewPathDecoder(PathDecoderConfig{Param: param, Value: u, Style: PathStyleSimple, Explode: explode}).DecodeArray(f)
}

// The same channel for style label (explode=false: ".a,b"; explode=true: ".a.b"): the style prefix and
// the delimiter of the row are plain bytes for the percent-decoder.
//@ lemma unescJoin2d(a string, b string, d byte)
//@   uses pathEscapeInverse, pathUnescapeCat, pathUnescapePlain, pathUnescapeBytePrefix
//@   requires plain: d != '%'
//@   ensures ok:  verifUnescOK(url.PathEscape(a) + str1(d) + url.PathEscape(b))
//@   ensures val: verifUnescVal(url.PathEscape(a) + str1(d) + url.PathEscape(b)) == a + str1(d) + b
//@   assert tail: verifUnescOK(str1(d) + url.PathEscape(b)) && verifUnescVal(str1(d) + url.PathEscape(b)) == str1(d) + b
//@   trigger verifUnescVal(url.PathEscape(a) + str1(d) + url.PathEscape(b))

//@ lemma pieces2d(a string, b string, d byte)
//@   uses indexBCat, indexBNone
//@   requires free: noByte(a, d) && noByte(b, d) && len(b) > 0
//@   ensures items: vSeqEq(pieces(a + str1(d) + b, d), []string{a, b})
//@   ensures ok:    okPieces(a + str1(d) + b, d)
//@   assert first: indexB(a + str1(d) + b, d) == len(a)
//@   assert last:  indexB(b, d) < 0
//@   trigger pieces(a + str1(d) + b, d)

// @ func verifLabelArray2Wire(param string, explode bool, a string, b string) (s string, err error)
// @   ensures refused: !(noByte(a, specPathArrayDelim(PathStyleLabel, explode)) && noByte(b, specPathArrayDelim(PathStyleLabel, explode))) ==> err != nil
// @   ensures wire:    noByte(a, specPathArrayDelim(PathStyleLabel, explode)) && noByte(b, specPathArrayDelim(PathStyleLabel, explode)) ==>
// @                      err == nil && s == "." + (url.PathEscape(a) + str1(specPathArrayDelim(PathStyleLabel, explode)) + url.PathEscape(b))
func verifLabelArray2Wire(param string, explode bool, a, b string) (string, error) {
	e := NewPathEncoder(PathEncoderConfig{Param: param, Style: PathStyleLabel, Explode: explode})
	if err := e.EncodeArray(func(e Encoder) error {
		if err := e.EncodeValue(a); err != nil {
			return err
		}
		return e.EncodeValue(b)
	}); err != nil {
		return "", err
	}
	return e.Result()
}

// @ func verifLabelArray2Channel(param string, explode bool, a string, b string, f func(d Decoder) error) (err error)
// @   callback f(d Decoder) log vals d.(*constval).v
// @   requires nonempty: len(a) > 0 && len(b) > 0
// @   modifies cb:f
// @   uses unescJoin2d, pieces2d, pathUnescapeBytePrefix
// @   ensures refused:   !(noByte(a, specPathArrayDelim(PathStyleLabel, explode)) && noByte(b, specPathArrayDelim(PathStyleLabel, explode))) ==> err != nil && vSeqEq(vCbLog(f, "vals"), old(vCbLog(f, "vals")))
// @   ensures delivered: noByte(a, specPathArrayDelim(PathStyleLabel, explode)) && noByte(b, specPathArrayDelim(PathStyleLabel, explode)) && vCbOK(f) ==>
// @                        err == nil && vSeqEq(vCbLog(f, "vals"), vCat(old(vCbLog(f, "vals")), []string{a, b}))
func verifLabelArray2Channel(param string, explode bool, a, b string, f func(d Decoder) error) error {
	s, err := verifLabelArray2Wire(param, explode, a, b)
	if err != nil {
		return err
	}
	u, err := url.PathUnescape(s)
	if err != nil {
		return err
	}
	return NewPathDecoder(PathDecoderConfig{Param: param, Value: u, Style: PathStyleLabel, Explode: explode}).DecodeArray(f)
}

// ---------------------------------------------------------------------------
// 2h. Channel harness for a flat OBJECT path parameter with one field, style simple (explode=true: "k=v",
//     explode=false: "k,v"): real encoder (EncodeField with one EncodeValue), url.PathUnescape, real decoder
//     (DecodeFields): the callback receives exactly the name and the value; a name containing the key/value
//     separator or a value containing the field separator is refused by the encoder.
// ---------------------------------------------------------------------------

//@ lemma field1(k string, v string, kv byte, fs byte)
//@   uses indexBCat, indexBNone
//@   requires free: noByte(k, kv) && noByte(v, fs) && len(v) > 0
//@   ensures names:  vSeqEq(fieldNames(k + str1(kv) + v, kv, fs), []string{k})
//@   ensures values: vSeqEq(fieldValues(k + str1(kv) + v, kv, fs), []string{v})
//@   ensures ok:     okFields(k + str1(kv) + v, kv, fs)
//@   assert first: indexB(k + str1(kv) + v, kv) == len(k)
//@   assert rest:  indexB(v, fs) < 0
//@   trigger fieldNames(k + str1(kv) + v, kv, fs)
//@   trigger fieldValues(k + str1(kv) + v, kv, fs)
//@   trigger okFields(k + str1(kv) + v, kv, fs)

// @ func verifPathObject1Wire(param string, explode bool, k string, v string) (s string, err error)
// @   ensures refused: !(noByte(k, specPathObjKV(PathStyleSimple, explode)) && noByte(v, ',')) ==> err != nil
// @   ensures wire:    noByte(k, specPathObjKV(PathStyleSimple, explode)) && noByte(v, ',') ==>
// @                      err == nil && s == url.PathEscape(k) + str1(specPathObjKV(PathStyleSimple, explode)) + url.PathEscape(v)
func verifPathObject1Wire(param string, explode bool, k, v string) (string, error) {
	e := NewPathEncoder(PathEncoderConfig{Param: param, Style: PathStyleSimple, Explode: explode})
	if err := e.EncodeField(k, func(e Encoder) error { return e.EncodeValue(v) }); err != nil {
		return "", err
	}
	return e.Result()
}

// @ func verifPathObject1Channel(param string, explode bool, k string, v string, f func(name string, d Decoder) error) (err error)
// @   callback f(name string, d Decoder) log names name
// @   callback f(name string, d Decoder) log values d.(*constval).v
// @   requires nonempty: len(v) > 0
// @   modifies cb:f
// @   uses unescJoin2d, field1
// @   ensures refused:   !(noByte(k, specPathObjKV(PathStyleSimple, explode)) && noByte(v, ',')) ==> err != nil && vSeqEq(vCbLog(f, "names"), old(vCbLog(f, "names")))
// @   ensures delivered: noByte(k, specPathObjKV(PathStyleSimple, explode)) && noByte(v, ',') && vCbOK(f) ==> err == nil &&
// @                        vSeqEq(vCbLog(f, "names"), vCat(old(vCbLog(f, "names")), []string{k})) && vSeqEq(vCbLog(f, "values"), vCat(old(vCbLog(f, "values")), []string{v}))
func verifPathObject1Channel(param string, explode bool, k, v string, f func(name string, d Decoder) error) error {
	s, err := verifPathObject1Wire(param, explode, k, v)
	if err != nil {
		return err
	}
	u, err := url.PathUnescape(s)
	if err != nil {
		return err
	}
	return NewPathDecoder(PathDecoderConfig{Param: param, Value: u, Style: PathStyleSimple, Explode: explode}).DecodeFields(f)
}

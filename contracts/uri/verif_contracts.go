//go:build verif

// Contract file of package uri (build tag verif).
//
// Layout: (1) spec functions — pure, total, value-form Go; (2) //@ contract blocks keyed by
// function (compiled mechanically into Go clause functions by govc); (3) lemmas.

package uri

import "strings"

//@ use strings

// ---------------------------------------------------------------------------
// 1. Spec functions: percent-escapes (RFC 3986) — written from the RFC, not from the code
// ---------------------------------------------------------------------------

func specIsHex(c byte) bool {
	return '0' <= c && c <= '9' || 'a' <= c && c <= 'f' || 'A' <= c && c <= 'F'
}

// specHexVal is the value (0..15) of a hex digit, 0 for other octets. Spec arithmetic is over int.
func specHexVal(c byte) int {
	if '0' <= c && c <= '9' {
		return int(c) - '0'
	}
	if 'a' <= c && c <= 'f' {
		return int(c) - 'a' + 10
	}
	if 'A' <= c && c <= 'F' {
		return int(c) - 'A' + 10
	}
	return 0
}

// specByte is the octet denoted by the two hex digits a, b.
func specByte(a, b byte) int { return specHexVal(a)*16 + specHexVal(b) }


func specUpperHexDigit(n byte) byte { // n < 16
	if n < 10 {
		return '0' + n
	}
	return 'A' + n - 10
}

func specUpper(c byte) byte {
	if 'a' <= c && c <= 'f' {
		return c - 32
	}
	return c
}

// specUnreserved: RFC 3986 §2.3 — the octets that need no escaping in a path.
func specUnreserved(c byte) bool {
	return 'a' <= c && c <= 'z' || 'A' <= c && c <= 'Z' || '0' <= c && c <= '9' ||
		c == '-' || c == '_' || c == '.' || c == '~'
}

// escAt: s has a well-formed escape at its front.
func escAt(s string) bool {
	return len(s) >= 3 && s[0] == '%' && specIsHex(s[1]) && specIsHex(s[2])
}

// wellEscaped: every '%' starts a well-formed escape.
func wellEscaped(s string) bool {
	if len(s) == 0 {
		return true
	}
	if s[0] == '%' {
		return escAt(s) && wellEscaped(s[3:])
	}
	return wellEscaped(s[1:])
}

// pctDecode: the octets a well-escaped string denotes.
func pctDecode(s string) string {
	if len(s) == 0 {
		return ""
	}
	if escAt(s) {
		return str1(byte(specByte(s[1], s[2]))) + pctDecode(s[3:])
	}
	return s[:1] + pctDecode(s[1:])
}

// canonicalPath: well-escaped, hex digits upper-case, only octets that must be escaped are escaped.
func canonicalPath(s string) bool {
	if len(s) == 0 {
		return true
	}
	if s[0] == '%' {
		return escAt(s) && specUpper(s[1]) == s[1] && specUpper(s[2]) == s[2] &&
			!specUnreserved(byte(specByte(s[1], s[2]))) && canonicalPath(s[3:])
	}
	return canonicalPath(s[1:])
}

// nfTok: canonical re-encoding of the escape %ab.
func nfTok(a, b byte) string {
	if specUnreserved(byte(specByte(a, b))) {
		return str1(byte(specByte(a, b)))
	}
	return "%" + str1(specUpper(a)) + str1(specUpper(b))
}

// canonTok: x starts with an escape that is already canonical (upper-case hex, octet must be escaped).
func canonTok(x string) bool {
	return escAt(x) && specUpper(x[1]) == x[1] && specUpper(x[2]) == x[2] && !specUnreserved(byte(specByte(x[1], x[2])))
}

// nf: token-wise canonical re-encoding of a well-escaped string.
func nf(s string) string {
	if len(s) == 0 {
		return ""
	}
	if escAt(s) {
		return nfTok(s[1], s[2]) + nf(s[3:])
	}
	return s[:1] + nf(s[1:])
}

// ---------------------------------------------------------------------------
// 2. Contracts: uri/normalize.go
// ---------------------------------------------------------------------------

//@ func ishex(c byte) (r bool)
//@   ensures spec: r == specIsHex(c)
//@ func unhex(c byte) (r byte)
//@   ensures spec: int(r) == specHexVal(c)
//@   ensures nibble: r < 16
//@ func asciiToUpper(c byte) (r byte)
//@   ensures spec: r == specUpper(c)
//@ func asciiIsLowercase(c byte) (r bool)
//@   ensures spec: r == ('a' <= c && c <= 'z')
//@ func shouldEscapePath(c byte) (r bool)
//@   ensures spec: r == !specUnreserved(c)

//@ func NormalizeEscapedPath(s string) (out string, ok bool)
//@   ensures verdict:   ok == wellEscaped(s)
//@   ensures nf:        ok ==> out == nf(s)
//@   ensures rejected:  !ok ==> out == ""
//@   uses noPct, skipToPct, indexBRange, canonTokNf
//@   loop 0 vars iter string
//@   loop 0 invariant suffix:   len(iter) <= len(s) && iter == s[len(s)-len(iter):]
//@   loop 0 invariant boundary: wellEscaped(s) == wellEscaped(iter)
//@   loop 0 invariant nfprefix: nf(s) == s[:len(s)-len(iter)] + nf(iter)
//@   loop 0 assert tok:  indexB(iter, '%') >= 0 && canonTok(iter[indexB(iter, '%'):]) ==>
//@                         nf(iter) == iter[:indexB(iter, '%')] + iter[indexB(iter, '%'):indexB(iter, '%')+3] + nf(iter[indexB(iter, '%')+3:])
//@   loop 0 assert glue: indexB(iter, '%') >= 0 && indexB(iter, '%')+3 <= len(iter) ==>
//@                         s[:len(s)-len(iter)] + iter[:indexB(iter, '%')] + iter[indexB(iter, '%'):indexB(iter, '%')+3] == s[:len(s)-len(iter)+indexB(iter, '%')+3]
//@   loop 0 assert step: indexB(iter, '%') >= 0 && canonTok(iter[indexB(iter, '%'):]) ==>
//@                         nf(s) == s[:len(s)-len(iter)+indexB(iter, '%')+3] + nf(iter[indexB(iter, '%')+3:])
//@   loop 0 decreases len(iter)
//@   loop 1 vars i int, t *strings.Builder
//@   loop 1 invariant range:    0 <= i && i <= len(s)
//@   loop 1 invariant boundary: wellEscaped(s) == wellEscaped(s[i:])
//@   loop 1 invariant acc:      t.String() + nf(s[i:]) == nf(s)
//@   loop 1 assert esc:   i < len(s) && s[i] == '%' && escAt(s[i:]) ==> nf(s[i:]) == nfTok(s[i+1], s[i+2]) + nf(s[i+3:])
//@   loop 1 assert plain: i < len(s) && s[i] != '%' ==> nf(s[i:]) == s[i:i+1] + nf(s[i+1:])
//@   loop 1 decreases len(s) - i

// ---------------------------------------------------------------------------
// 3. Lemmas
// ---------------------------------------------------------------------------

// A canonical escape is its own normal form.
//@ lemma canonTokNf(x string)
//@   requires canonTok(x)
//@   ensures tok: nfTok(x[1], x[2]) == x[:3]
//@   trigger canonTok(x)

// A string without '%' is well-escaped and is its own normal form.
//@ lemma noPct(x string)
//@   requires indexB(x, '%') < 0
//@   ensures wf: wellEscaped(x)
//@   ensures nf: nf(x) == x
//@   decreases len(x)
//@   induct x[1:]
//@   trigger indexB(x, '%')

// Everything before the first '%' is copied by nf and irrelevant for wellEscaped.
//@ lemma skipToPct(x string)
//@   requires indexB(x, '%') >= 0
//@   ensures wf: wellEscaped(x) == wellEscaped(x[indexB(x, '%'):])
//@   ensures nf: nf(x) == x[:indexB(x, '%')] + nf(x[indexB(x, '%'):])
//@   decreases len(x)
//@   induct x[1:]
//@   uses indexBRange
//@   assert glue: indexB(x, '%') > 0 ==> x[:1] + x[1:][:indexB(x[1:], '%')] == x[:1+indexB(x[1:], '%')]
//@   trigger indexB(x, '%')

var _ strings.Builder

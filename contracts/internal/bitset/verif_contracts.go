//go:build verif

// Contract file of package internal/bitset (build tag verif).

package bitset

// bit: the abstract view of a Bitset — bit j, false beyond the end.
func bit(r Bitset, j int) bool {
	return j >= 0 && j/8 < len(r) && (r[j/8]>>(uint(j)%8))&1 == 1
}

func max2(a, b int) int {
	if a > b {
		return a
	}
	return b
}

//@ func (r *Bitset) Set(i int, v bool)
//@   requires nonneg: i >= 0
//@   modifies *r
//@   ensures len:  len(*r) == max2(len(old(*r)), i/8+1)
//@   ensures view: forall j int :: j >= 0 ==> bit(*r, j) == (bit(old(*r), j) || (j == i && v))
//@   loop 0 invariant grow:  len(*r) >= len(old(*r)) && len(*r) <= max2(len(old(*r)), i/8+1)
//@   loop 0 invariant same:  forall j int :: j >= 0 ==> bit(*r, j) == bit(old(*r), j)
//@   loop 0 decreases i/8 + 1 - len(*r)

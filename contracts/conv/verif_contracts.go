//go:build verif

// Contract file of package conv (build tag verif): every XToString / ToX pair is an inverse pair
// on the value domain of its type. The wrappers are one-liners over strconv; what the proof
// establishes is the *pairing* (same base, same bit size, no truncating conversion) against the
// assumed contracts of strconv (stdlib/strconv.go). Each harness function below is the property
// sentence "text form parses back to the same value" for one type, verified modularly.

package conv

import "time"

//@ use strconv
//@ use jxtime

//@ func verifIntRoundTrip(v int) (r int, err error)
//@   ensures rt: err == nil && r == v
func verifIntRoundTrip(v int) (int, error) { return ToInt(IntToString(v)) }

//@ func verifInt8RoundTrip(v int8) (r int8, err error)
//@   ensures rt: err == nil && r == v
func verifInt8RoundTrip(v int8) (int8, error) { return ToInt8(Int8ToString(v)) }

//@ func verifInt16RoundTrip(v int16) (r int16, err error)
//@   ensures rt: err == nil && r == v
func verifInt16RoundTrip(v int16) (int16, error) { return ToInt16(Int16ToString(v)) }

//@ func verifInt32RoundTrip(v int32) (r int32, err error)
//@   ensures rt: err == nil && r == v
func verifInt32RoundTrip(v int32) (int32, error) { return ToInt32(Int32ToString(v)) }

//@ func verifInt64RoundTrip(v int64) (r int64, err error)
//@   ensures rt: err == nil && r == v
func verifInt64RoundTrip(v int64) (int64, error) { return ToInt64(Int64ToString(v)) }

//@ func verifUintRoundTrip(v uint) (r uint, err error)
//@   ensures rt: err == nil && r == v
func verifUintRoundTrip(v uint) (uint, error) { return ToUint(UintToString(v)) }

//@ func verifUint8RoundTrip(v uint8) (r uint8, err error)
//@   ensures rt: err == nil && r == v
func verifUint8RoundTrip(v uint8) (uint8, error) { return ToUint8(Uint8ToString(v)) }

//@ func verifUint16RoundTrip(v uint16) (r uint16, err error)
//@   ensures rt: err == nil && r == v
func verifUint16RoundTrip(v uint16) (uint16, error) { return ToUint16(Uint16ToString(v)) }

//@ func verifUint32RoundTrip(v uint32) (r uint32, err error)
//@   ensures rt: err == nil && r == v
func verifUint32RoundTrip(v uint32) (uint32, error) { return ToUint32(Uint32ToString(v)) }

//@ func verifUint64RoundTrip(v uint64) (r uint64, err error)
//@   ensures rt: err == nil && r == v
func verifUint64RoundTrip(v uint64) (uint64, error) { return ToUint64(Uint64ToString(v)) }

//@ func verifBoolRoundTrip(v bool) (r bool, err error)
//@   ensures rt: err == nil && r == v
func verifBoolRoundTrip(v bool) (bool, error) { return ToBool(BoolToString(v)) }

//@ func verifStringRoundTrip(v string) (r string, err error)
//@   ensures rt: err == nil && r == v
func verifStringRoundTrip(v string) (string, error) { return ToString(StringToString(v)) }

// String-formatted JSON members (the "String*" variants).

//@ func verifStringIntRoundTrip(v int) (r int, err error)
//@   ensures rt: err == nil && r == v
func verifStringIntRoundTrip(v int) (int, error) { return ToStringInt(StringIntToString(v)) }

//@ func verifStringInt8RoundTrip(v int8) (r int8, err error)
//@   ensures rt: err == nil && r == v
func verifStringInt8RoundTrip(v int8) (int8, error) { return ToStringInt8(StringInt8ToString(v)) }

//@ func verifStringInt16RoundTrip(v int16) (r int16, err error)
//@   ensures rt: err == nil && r == v
func verifStringInt16RoundTrip(v int16) (int16, error) { return ToStringInt16(StringInt16ToString(v)) }

//@ func verifStringInt32RoundTrip(v int32) (r int32, err error)
//@   ensures rt: err == nil && r == v
func verifStringInt32RoundTrip(v int32) (int32, error) { return ToStringInt32(StringInt32ToString(v)) }

//@ func verifStringInt64RoundTrip(v int64) (r int64, err error)
//@   ensures rt: err == nil && r == v
func verifStringInt64RoundTrip(v int64) (int64, error) { return ToStringInt64(StringInt64ToString(v)) }

//@ func verifStringUintRoundTrip(v uint) (r uint, err error)
//@   ensures rt: err == nil && r == v
func verifStringUintRoundTrip(v uint) (uint, error) { return ToStringUint(StringUintToString(v)) }

//@ func verifStringUint8RoundTrip(v uint8) (r uint8, err error)
//@   ensures rt: err == nil && r == v
func verifStringUint8RoundTrip(v uint8) (uint8, error) { return ToStringUint8(StringUint8ToString(v)) }

//@ func verifStringUint16RoundTrip(v uint16) (r uint16, err error)
//@   ensures rt: err == nil && r == v
func verifStringUint16RoundTrip(v uint16) (uint16, error) { return ToStringUint16(StringUint16ToString(v)) }

//@ func verifStringUint32RoundTrip(v uint32) (r uint32, err error)
//@   ensures rt: err == nil && r == v
func verifStringUint32RoundTrip(v uint32) (uint32, error) { return ToStringUint32(StringUint32ToString(v)) }

//@ func verifStringUint64RoundTrip(v uint64) (r uint64, err error)
//@   ensures rt: err == nil && r == v
func verifStringUint64RoundTrip(v uint64) (uint64, error) { return ToStringUint64(StringUint64ToString(v)) }

// Floats: the encoders use a fixed precision of 10 digits, so the assumed strconv contract
// (exact only for precision -1) cannot discharge these clauses: known finding float-precision.

//@ func verifFloat64RoundTrip(v float64) (r float64, err error)
//@   requires number: v == v
//@   ensures rt: err == nil && r == v
func verifFloat64RoundTrip(v float64) (float64, error) { return ToFloat64(Float64ToString(v)) }

//@ func verifStringFloat64RoundTrip(v float64) (r float64, err error)
//@   requires number: v == v
//@   ensures rt: err == nil && r == v
func verifStringFloat64RoundTrip(v float64) (float64, error) {
	return ToStringFloat64(StringFloat64ToString(v))
}

// ---------------------------------------------------------------------------
// Unix timestamps in each unit (C13): the text written for an instant is the decimal count of that unit
// (the accessor of THAT unit, no arithmetic in between), and it decodes, without error, to the instant
// the constructor of THAT unit builds from exactly that count - i.e. the instant at the format's
// resolution (time documentation: Unix(t.Unix(), 0) is t truncated to seconds, UnixMilli(t.UnixMilli())
// to milliseconds, ...; assumed, the time functions are uninterpreted here).
// ---------------------------------------------------------------------------

//@ func verifUnixSecondsRoundTrip(t time.Time) (r time.Time, err error)
//@   ensures rt: err == nil && r == time.Unix(t.Unix(), 0)
func verifUnixSecondsRoundTrip(t time.Time) (time.Time, error) {
	return ToUnixSeconds(UnixSecondsToString(t))
}

//@ func verifUnixMilliRoundTrip(t time.Time) (r time.Time, err error)
//@   ensures rt: err == nil && r == time.UnixMilli(t.UnixMilli())
func verifUnixMilliRoundTrip(t time.Time) (time.Time, error) {
	return ToUnixMilli(UnixMilliToString(t))
}

//@ func verifUnixMicroRoundTrip(t time.Time) (r time.Time, err error)
//@   ensures rt: err == nil && r == time.UnixMicro(t.UnixMicro())
func verifUnixMicroRoundTrip(t time.Time) (time.Time, error) {
	return ToUnixMicro(UnixMicroToString(t))
}

//@ func verifUnixNanoRoundTrip(t time.Time) (r time.Time, err error)
//@   ensures rt: err == nil && r == time.Unix(0, t.UnixNano())
func verifUnixNanoRoundTrip(t time.Time) (time.Time, error) {
	return ToUnixNano(UnixNanoToString(t))
}

// ---------------------------------------------------------------------------
// Dates, times, date-times and durations (C13, "at their format's resolution ... in the syntax the
// declared format prescribes"): the text written for an instant is time.Time.Format of THAT instant (no
// zone conversion, no truncation) with the layout of the format - RFC 3339 full-date "2006-01-02",
// partial-time "15:04:05", date-time time.RFC3339 - and the decoder parses with the SAME layout. The
// inverse law of the time package (Parse(layout, t.Format(layout)) is t at the layout's resolution) is
// the standard library's; Format and Parse are uninterpreted here.
// ---------------------------------------------------------------------------

func specParseTime(layout, s string) time.Time {
	t, _ := time.Parse(layout, s)
	return t
}

func specParseTimeOK(layout, s string) bool {
	_, err := time.Parse(layout, s)
	return err == nil
}

//@ func verifDateRoundTrip(t time.Time) (r time.Time, err error)
//@   ensures rt: r == specParseTime("2006-01-02", t.Format("2006-01-02")) && (err == nil) == specParseTimeOK("2006-01-02", t.Format("2006-01-02"))
func verifDateRoundTrip(t time.Time) (time.Time, error) { return ToDate(DateToString(t)) }

//@ func verifTimeRoundTrip(t time.Time) (r time.Time, err error)
//@   ensures rt: r == specParseTime("15:04:05", t.Format("15:04:05")) && (err == nil) == specParseTimeOK("15:04:05", t.Format("15:04:05"))
func verifTimeRoundTrip(t time.Time) (time.Time, error) { return ToTime(TimeToString(t)) }

//@ func verifDateTimeRoundTrip(t time.Time) (r time.Time, err error)
//@   ensures rt: r == specParseTime(time.RFC3339, t.Format(time.RFC3339)) && (err == nil) == specParseTimeOK(time.RFC3339, t.Format(time.RFC3339))
func verifDateTimeRoundTrip(t time.Time) (time.Time, error) { return ToDateTime(DateTimeToString(t)) }

func specParseDuration(s string) time.Duration {
	d, _ := time.ParseDuration(s)
	return d
}

//@ func verifDurationRoundTrip(d time.Duration) (r time.Duration, err error)
//@   ensures rt: r == specParseDuration(d.String())
func verifDurationRoundTrip(d time.Duration) (time.Duration, error) {
	return ToDuration(DurationToString(d))
}

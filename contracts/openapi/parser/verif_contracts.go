//go:build verif

// Contract file of package openapi/parser (build tag verif). Property C07: resolving a component
// reference leaves the resolve context as it found it on every path (the generic resolveComponent is
// verified through two of its instantiations, inlined into the methods that use it).

package parser

import (
	"github.com/go-faster/yaml"

	"github.com/ogen-go/ogen"
	"github.com/ogen-go/ogen/jsonpointer"
	"github.com/ogen-go/ogen/openapi"
)

//@ use errors
//@ use strings

// The component parsers are outside the verifier's reach and mutually recursive with the resolvers.
// ASSUMED (induction hypothesis, as for jsonschema.parse1): they leave the resolve context balanced.
//@ func (p *parser) parseRequestBody(body *ogen.RequestBody, ctx *jsonpointer.ResolveCtx) (r *openapi.RequestBody, rerr error)
//@   trusted induction hypothesis: nested resolution leaves the resolve context balanced
//@   modifies ctx.depthLimit, ctx.refs[*], ctx.locstack
//@   ensures depth: jsonpointer.VerifDepth(ctx) == old(jsonpointer.VerifDepth(ctx))
//@   ensures stack: jsonpointer.VerifStack(ctx) == old(jsonpointer.VerifStack(ctx))
//@   ensures keys:  forall k jsonpointer.RefKey :: jsonpointer.VerifInProgress(ctx, k) == old(jsonpointer.VerifInProgress(ctx, k))
//@   ensures nonnil: rerr == nil ==> r != nil
//@   fresh r

//@ func (p *parser) parseResponse(resp *ogen.Response, ctx *jsonpointer.ResolveCtx) (r *openapi.Response, rerr error)
//@   trusted induction hypothesis: nested resolution leaves the resolve context balanced
//@   modifies ctx.depthLimit, ctx.refs[*], ctx.locstack
//@   ensures depth: jsonpointer.VerifDepth(ctx) == old(jsonpointer.VerifDepth(ctx))
//@   ensures stack: jsonpointer.VerifStack(ctx) == old(jsonpointer.VerifStack(ctx))
//@   ensures keys:  forall k jsonpointer.RefKey :: jsonpointer.VerifInProgress(ctx, k) == old(jsonpointer.VerifInProgress(ctx, k))
//@   ensures nonnil: rerr == nil ==> r != nil
//@   fresh r

//@ func (p *parser) getResolver(loc string) (r resolver, rerr error)
//@   trusted external file access and YAML decoding; does not touch any resolve context
//@   modifies p.schemas[*]

//@ func resolvePointer(root *yaml.Node, ptr string, to any) (err error)
//@   trusted JSON pointer evaluation and YAML decoding into `to`; does not touch any resolve context

//@ func (p *parser) resolveRequestBody(ref string, ctx *jsonpointer.ResolveCtx) (r *openapi.RequestBody, err error)
//@   requires ctx:   ctx != nil && jsonpointer.VerifWF(ctx) && p.spec != nil && p.spec.Components != nil && p.refs.requestBodies != nil
//@   requires room:  jsonpointer.VerifDepth(ctx) < 9223372036854775807
//@   requires cache: forall k refKey :: vHas(p.refs.requestBodies, k) ==> p.refs.requestBodies[k] != nil
//@   inline resolveComponent
//@   modifies ctx.depthLimit, ctx.refs[*], ctx.locstack, p.refs.requestBodies[*], p.schemas[*]
//@   ensures depth: jsonpointer.VerifDepth(ctx) == old(jsonpointer.VerifDepth(ctx))
//@   ensures keys:  forall k jsonpointer.RefKey :: jsonpointer.VerifInProgress(ctx, k) == old(jsonpointer.VerifInProgress(ctx, k))
//@   ensures stack: jsonpointer.VerifStack(ctx) == old(jsonpointer.VerifStack(ctx))

//@ func (p *parser) resolveResponse(ref string, ctx *jsonpointer.ResolveCtx) (r *openapi.Response, err error)
//@   requires ctx:   ctx != nil && jsonpointer.VerifWF(ctx) && p.spec != nil && p.spec.Components != nil && p.refs.responses != nil
//@   requires room:  jsonpointer.VerifDepth(ctx) < 9223372036854775807
//@   requires cache: forall k refKey :: vHas(p.refs.responses, k) ==> p.refs.responses[k] != nil
//@   inline resolveComponent
//@   modifies ctx.depthLimit, ctx.refs[*], ctx.locstack, p.refs.responses[*], p.schemas[*]
//@   ensures depth: jsonpointer.VerifDepth(ctx) == old(jsonpointer.VerifDepth(ctx))
//@   ensures keys:  forall k jsonpointer.RefKey :: jsonpointer.VerifInProgress(ctx, k) == old(jsonpointer.VerifInProgress(ctx, k))
//@   ensures stack: jsonpointer.VerifStack(ctx) == old(jsonpointer.VerifStack(ctx))

var (
	_ yaml.Node
	_ ogen.RequestBody
	_ openapi.RequestBody
	_ jsonpointer.RefKey
)

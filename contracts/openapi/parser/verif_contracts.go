//go:build verif

// Contract file of package openapi/parser (build tag verif). Property C07: resolving a component
// reference leaves the resolve context as it found it on every path (the generic resolveComponent is
// verified through two of its instantiations, inlined into the methods that use it).

package parser

import (
	"github.com/go-faster/yaml"

	"github.com/ogen-go/ogen"
	"github.com/ogen-go/ogen/jsonpointer"
	"github.com/ogen-go/ogen/jsonschema"
	"github.com/ogen-go/ogen/location"
	"github.com/ogen-go/ogen/openapi"
	"github.com/ogen-go/ogen/uri"
)

//@ use errors
//@ use strings
//@ use fmt

// The component parsers are outside the verifier's reach and mutually recursive with the resolvers.
// ASSUMED (induction hypothesis, as for jsonschema.parse1): they leave the resolve context balanced.
//@ func (p *parser) parseRequestBody(body *ogen.RequestBody, ctx *jsonpointer.ResolveCtx) (r *openapi.RequestBody, rerr error)
//@   trusted induction hypothesis: nested resolution leaves the resolve context balanced
//@   modifies ctx.depthLimit, ctx.refs[*], ctx.locstack
//@   ensures depth: jsonpointer.VerifDepth(ctx) == old(jsonpointer.VerifDepth(ctx))
//@   ensures stack: jsonpointer.VerifStack(ctx) == old(jsonpointer.VerifStack(ctx))
//@   ensures keys:  forall k jsonpointer.RefKey :: jsonpointer.VerifInProgress(ctx, k) == old(jsonpointer.VerifInProgress(ctx, k))
//@   ensures nonnil: rerr == nil ==> r != nil
//@   fresh r

//@ func (p *parser) parseResponse(resp *ogen.Response, ctx *jsonpointer.ResolveCtx) (r *openapi.Response, rerr error)
//@   trusted induction hypothesis: nested resolution leaves the resolve context balanced
//@   modifies ctx.depthLimit, ctx.refs[*], ctx.locstack
//@   ensures depth: jsonpointer.VerifDepth(ctx) == old(jsonpointer.VerifDepth(ctx))
//@   ensures stack: jsonpointer.VerifStack(ctx) == old(jsonpointer.VerifStack(ctx))
//@   ensures keys:  forall k jsonpointer.RefKey :: jsonpointer.VerifInProgress(ctx, k) == old(jsonpointer.VerifInProgress(ctx, k))
//@   ensures nonnil: rerr == nil ==> r != nil
//@   fresh r

//@ func (p *parser) getResolver(loc string) (r resolver, rerr error)
//@   trusted external file access and YAML decoding; does not touch any resolve context
//@   modifies p.schemas[*]

//@ func resolvePointer(root *yaml.Node, ptr string, to any) (err error)
//@   trusted JSON pointer evaluation and YAML decoding into `to`; does not touch any resolve context

//@ func (p *parser) resolveRequestBody(ref string, ctx *jsonpointer.ResolveCtx) (r *openapi.RequestBody, err error)
//@   requires ctx:   ctx != nil && jsonpointer.VerifWF(ctx) && p.spec != nil && p.spec.Components != nil && p.refs.requestBodies != nil
//@   requires room:  jsonpointer.VerifDepth(ctx) < 9223372036854775807
//@   requires cache: forall k refKey :: vHas(p.refs.requestBodies, k) ==> p.refs.requestBodies[k] != nil
//@   inline resolveComponent
//@   modifies ctx.depthLimit, ctx.refs[*], ctx.locstack, p.refs.requestBodies[*], p.schemas[*]
//@   ensures depth: jsonpointer.VerifDepth(ctx) == old(jsonpointer.VerifDepth(ctx))
//@   ensures keys:  forall k jsonpointer.RefKey :: jsonpointer.VerifInProgress(ctx, k) == old(jsonpointer.VerifInProgress(ctx, k))
//@   ensures stack: jsonpointer.VerifStack(ctx) == old(jsonpointer.VerifStack(ctx))

//@ func (p *parser) resolveResponse(ref string, ctx *jsonpointer.ResolveCtx) (r *openapi.Response, err error)
//@   requires ctx:   ctx != nil && jsonpointer.VerifWF(ctx) && p.spec != nil && p.spec.Components != nil && p.refs.responses != nil
//@   requires room:  jsonpointer.VerifDepth(ctx) < 9223372036854775807
//@   requires cache: forall k refKey :: vHas(p.refs.responses, k) ==> p.refs.responses[k] != nil
//@   inline resolveComponent
//@   modifies ctx.depthLimit, ctx.refs[*], ctx.locstack, p.refs.responses[*], p.schemas[*]
//@   ensures depth: jsonpointer.VerifDepth(ctx) == old(jsonpointer.VerifDepth(ctx))
//@   ensures keys:  forall k jsonpointer.RefKey :: jsonpointer.VerifInProgress(ctx, k) == old(jsonpointer.VerifInProgress(ctx, k))
//@   ensures stack: jsonpointer.VerifStack(ctx) == old(jsonpointer.VerifStack(ctx))

// ---- the other instantiations of resolveComponent ------------------------------------------------

//@ func (p *parser) parseParameter(param *ogen.Parameter, ctx *jsonpointer.ResolveCtx) (r *openapi.Parameter, rerr error)
//@   trusted induction hypothesis: nested resolution leaves the resolve context balanced
//@   modifies ctx.depthLimit, ctx.refs[*], ctx.locstack
//@   ensures depth: jsonpointer.VerifDepth(ctx) == old(jsonpointer.VerifDepth(ctx))
//@   ensures stack: jsonpointer.VerifStack(ctx) == old(jsonpointer.VerifStack(ctx))
//@   ensures keys:  forall k jsonpointer.RefKey :: jsonpointer.VerifInProgress(ctx, k) == old(jsonpointer.VerifInProgress(ctx, k))
//@   ensures nonnil: rerr == nil ==> r != nil
//@   fresh r

//@ func (p *parser) parseHeader(name string, header *ogen.Header, ctx *jsonpointer.ResolveCtx) (r *openapi.Header, rerr error)
//@   trusted induction hypothesis: nested resolution leaves the resolve context balanced
//@   modifies ctx.depthLimit, ctx.refs[*], ctx.locstack
//@   ensures depth: jsonpointer.VerifDepth(ctx) == old(jsonpointer.VerifDepth(ctx))
//@   ensures stack: jsonpointer.VerifStack(ctx) == old(jsonpointer.VerifStack(ctx))
//@   ensures keys:  forall k jsonpointer.RefKey :: jsonpointer.VerifInProgress(ctx, k) == old(jsonpointer.VerifInProgress(ctx, k))
//@   ensures nonnil: rerr == nil ==> r != nil
//@   ensures name:   rerr == nil ==> r.Name == name
//@   fresh r

//@ func (p *parser) parseExample(e *ogen.Example, ctx *jsonpointer.ResolveCtx) (r *openapi.Example, rerr error)
//@   trusted induction hypothesis: nested resolution leaves the resolve context balanced
//@   modifies ctx.depthLimit, ctx.refs[*], ctx.locstack
//@   ensures depth: jsonpointer.VerifDepth(ctx) == old(jsonpointer.VerifDepth(ctx))
//@   ensures stack: jsonpointer.VerifStack(ctx) == old(jsonpointer.VerifStack(ctx))
//@   ensures keys:  forall k jsonpointer.RefKey :: jsonpointer.VerifInProgress(ctx, k) == old(jsonpointer.VerifInProgress(ctx, k))
//@   fresh r

//@ func (p *parser) parseSecurityScheme(s *ogen.SecurityScheme, ctx *jsonpointer.ResolveCtx) (r *ogen.SecurityScheme, rerr error)
//@   trusted induction hypothesis: nested resolution leaves the resolve context balanced
//@   modifies ctx.depthLimit, ctx.refs[*], ctx.locstack
//@   ensures depth: jsonpointer.VerifDepth(ctx) == old(jsonpointer.VerifDepth(ctx))
//@   ensures stack: jsonpointer.VerifStack(ctx) == old(jsonpointer.VerifStack(ctx))
//@   ensures keys:  forall k jsonpointer.RefKey :: jsonpointer.VerifInProgress(ctx, k) == old(jsonpointer.VerifInProgress(ctx, k))

//@ func (p *parser) resolveParameter(ref string, ctx *jsonpointer.ResolveCtx) (r *openapi.Parameter, err error)
//@   requires ctx:   ctx != nil && jsonpointer.VerifWF(ctx) && p.spec != nil && p.spec.Components != nil && p.refs.parameters != nil
//@   requires room:  jsonpointer.VerifDepth(ctx) < 9223372036854775807
//@   requires cache: forall k refKey :: vHas(p.refs.parameters, k) ==> p.refs.parameters[k] != nil
//@   inline resolveComponent
//@   modifies ctx.depthLimit, ctx.refs[*], ctx.locstack, p.refs.parameters[*], p.schemas[*]
//@   ensures depth: jsonpointer.VerifDepth(ctx) == old(jsonpointer.VerifDepth(ctx))
//@   ensures keys:  forall k jsonpointer.RefKey :: jsonpointer.VerifInProgress(ctx, k) == old(jsonpointer.VerifInProgress(ctx, k))
//@   ensures stack: jsonpointer.VerifStack(ctx) == old(jsonpointer.VerifStack(ctx))

// A header component is cached by reference only, but the NAME of a header is the key of the referring
// site: whichever site asks, the header it gets carries THAT site's name (referencing equals inlining).
//@ func (p *parser) resolveHeader(headerName string, ref string, ctx *jsonpointer.ResolveCtx) (r *openapi.Header, err error)
//@   requires ctx:   ctx != nil && jsonpointer.VerifWF(ctx) && p.spec != nil && p.spec.Components != nil && p.refs.headers != nil
//@   requires room:  jsonpointer.VerifDepth(ctx) < 9223372036854775807
//@   requires cache: forall k refKey :: vHas(p.refs.headers, k) ==> p.refs.headers[k] != nil
//@   inline resolveComponent
//@   modifies ctx.depthLimit, ctx.refs[*], ctx.locstack, p.refs.headers[*], p.schemas[*]
//@   ensures depth: jsonpointer.VerifDepth(ctx) == old(jsonpointer.VerifDepth(ctx))
//@   ensures keys:  forall k jsonpointer.RefKey :: jsonpointer.VerifInProgress(ctx, k) == old(jsonpointer.VerifInProgress(ctx, k))
//@   ensures stack: jsonpointer.VerifStack(ctx) == old(jsonpointer.VerifStack(ctx))
//@   ensures named: err == nil ==> r != nil && r.Name == headerName

//@ func (p *parser) resolveExample(ref string, ctx *jsonpointer.ResolveCtx) (r *openapi.Example, err error)
//@   requires ctx:   ctx != nil && jsonpointer.VerifWF(ctx) && p.spec != nil && p.spec.Components != nil && p.refs.examples != nil
//@   requires room:  jsonpointer.VerifDepth(ctx) < 9223372036854775807
//@   requires cache: forall k refKey :: vHas(p.refs.examples, k) ==> p.refs.examples[k] != nil
//@   inline resolveComponent
//@   modifies ctx.depthLimit, ctx.refs[*], ctx.locstack, p.refs.examples[*], p.schemas[*]
//@   ensures depth: jsonpointer.VerifDepth(ctx) == old(jsonpointer.VerifDepth(ctx))
//@   ensures keys:  forall k jsonpointer.RefKey :: jsonpointer.VerifInProgress(ctx, k) == old(jsonpointer.VerifInProgress(ctx, k))
//@   ensures stack: jsonpointer.VerifStack(ctx) == old(jsonpointer.VerifStack(ctx))

//@ func (p *parser) resolveSecurityScheme(ref string, ctx *jsonpointer.ResolveCtx) (r *ogen.SecurityScheme, err error)
//@   requires ctx:   ctx != nil && jsonpointer.VerifWF(ctx) && p.spec != nil && p.spec.Components != nil && p.refs.securitySchemes != nil
//@   requires room:  jsonpointer.VerifDepth(ctx) < 9223372036854775807
//@   requires cache: forall k refKey :: vHas(p.refs.securitySchemes, k) ==> p.refs.securitySchemes[k] != nil
//@   inline resolveComponent
//@   modifies ctx.depthLimit, ctx.refs[*], ctx.locstack, p.refs.securitySchemes[*], p.schemas[*]
//@   ensures depth: jsonpointer.VerifDepth(ctx) == old(jsonpointer.VerifDepth(ctx))
//@   ensures keys:  forall k jsonpointer.RefKey :: jsonpointer.VerifInProgress(ctx, k) == old(jsonpointer.VerifInProgress(ctx, k))
//@   ensures stack: jsonpointer.VerifStack(ctx) == old(jsonpointer.VerifStack(ctx))

var (
	_ yaml.Node
	_ ogen.RequestBody
	_ openapi.RequestBody
	_ jsonpointer.RefKey
)

var _ location.Pointer

// ---------------------------------------------------------------------------
// C12, last clause: "spec path keys are compared for duplicates modulo the same equivalence". The
// duplicate check is a section of parsePathItems (a closure inside its loop over the sorted path keys);
// the section is extracted MECHANICALLY on every run, verbatim, as a function of its own (dropped:
// everything of parsePathItems outside the statements from the NormalizeEscapedPath call to the
// `paths[id] = ptr` insert). Contract: the key a path is compared and recorded by is the identifier
// (pathID: parameter names erased) of its NORMAL FORM - uri.NormalizeEscapedPath through its contract
// proved under C12 - so two keys with the same normal form collide: the second one is refused.
// ---------------------------------------------------------------------------

//@ extract verifPathKeyCheck(path string, paths map[string]location.Pointer, pathsLoc location.Locator, file location.File) (rerr error)
//@ xfrom parser.go (*parser).parsePathItems
//@ xstmt normalized, ok := uri.NormalizeEscapedPath(path)
//@ xupto paths[id] = ptr
//@ xtail return nil

// specKeyText: what a spec path key is compared by before parameter names are erased: its normal form
// when it is well-escaped, else the key itself.
func specKeyText(path string) string {
	n, ok := uri.NormalizeEscapedPath(path)
	if !ok {
		return path
	}
	return n
}

// pathID erases parameter names ("/users/{id}" -> "/users/{}"); generic rune parser, outside the verifier.
//@ func pathID(path string) (id string, err error)
//@   trusted template parser (generic, ranges over runes): a deterministic function of the path
//@   pure

func specKeyID(path string) string {
	id, _ := pathID(specKeyText(path))
	return id
}

func specKeyBad(path string) bool {
	_, err := pathID(specKeyText(path))
	return err != nil
}

//@ extern func (l location.Locator) Field(key string) (loc location.Locator)
//@   pure
//@ extern func (l location.Locator) Pointer(file location.File) (p location.Pointer)
//@   pure
//@ extern func (e *location.MultiError) ReportPtr(ptr location.Pointer, msg string)

//@ func verifPathKeyCheck(path string, paths map[string]location.Pointer, pathsLoc location.Locator, file location.File) (rerr error)
//@   requires m: paths != nil
//@   modifies paths[*]
//@   ensures bad:    specKeyBad(path) ==> rerr != nil && (forall k string :: vHas(paths, k) == vHas(old(paths), k))
//@   ensures dup:    !specKeyBad(path) && vHas(old(paths), specKeyID(path)) ==> rerr != nil && (forall k string :: vHas(paths, k) == vHas(old(paths), k))
//@   ensures record: !specKeyBad(path) && !vHas(old(paths), specKeyID(path)) ==> rerr == nil && (forall k string :: vHas(paths, k) == (vHas(old(paths), k) || k == specKeyID(path)))

// The property sentence itself: two path keys with the same normal form (differing only in hex case or in
// needless escaping) cannot both be accepted.
//@ func verifTwoPathKeys(a string, b string, paths map[string]location.Pointer, pathsLoc location.Locator, file location.File) (first error, second error)
//@   requires m: paths != nil
//@   modifies paths[*]
//@   ensures collide: specKeyText(a) == specKeyText(b) && first == nil ==> second != nil
func verifTwoPathKeys(a, b string, paths map[string]location.Pointer, pathsLoc location.Locator, file location.File) (first, second error) {
	first = verifPathKeyCheck(a, paths, pathsLoc, file)
	second = verifPathKeyCheck(b, paths, pathsLoc, file)
	return first, second
}

var _ jsonschema.Ref

// ---------------------------------------------------------------------------
// C07, "the dereferenced spec ogen can emit parses back to an equivalent API": when the expander turns a
// reference into a LOCAL component reference it must never let two different references share one local
// name (the second would silently denote the first one's target). Data-structure contract over the
// table localToRemote (local reference -> the reference it stands for): a local name is handed out only
// if the table has no entry for it or the entry is for the SAME reference (location and pointer); a
// clash is an error that changes nothing; otherwise exactly that entry is written.
// ---------------------------------------------------------------------------

// componentName: the last reference token of the pointer (generateComponentName: LastIndexByte, trusted
// pure function of the reference here).
//@ func (e *expander) generateComponentName(ref jsonschema.Ref) (name string, err error)
//@   trusted small string function (strings.LastIndexByte); a deterministic function of the reference
//@   pure

func specLocalName(e *expander, ref jsonschema.Ref) string {
	n, _ := e.generateComponentName(ref)
	return n
}

func specNameFails(e *expander, ref jsonschema.Ref) bool {
	_, err := e.generateComponentName(ref)
	return err != nil
}

//@ func (e *expander) generateComponentLocalRef(prefix string, ref jsonschema.Ref, parentPtr location.Pointer) (localRef string, name string, err error)
//@   requires table: e.localToRemote != nil
//@   modifies e.localToRemote[*]
//@   ensures noname:   specNameFails(e, ref) ==> err != nil && (forall k string :: vHas(e.localToRemote, k) == vHas(old(e.localToRemote), k))
//@   ensures clash:    !specNameFails(e, ref) && vHas(old(e.localToRemote), prefix + specLocalName(e, ref)) && old(e.localToRemote)[prefix + specLocalName(e, ref)].ref != ref ==>
//@                       err != nil && (forall k string :: vHas(e.localToRemote, k) == vHas(old(e.localToRemote), k)) &&
//@                       e.localToRemote[prefix + specLocalName(e, ref)].ref == old(e.localToRemote)[prefix + specLocalName(e, ref)].ref
//@   ensures handed:   err == nil ==> !specNameFails(e, ref) && name == specLocalName(e, ref) && localRef == prefix + name &&
//@                       (vHas(old(e.localToRemote), localRef) ==> old(e.localToRemote)[localRef].ref == ref) &&
//@                       vHas(e.localToRemote, localRef) && e.localToRemote[localRef].ref == ref &&
//@                       (forall k string :: k != localRef ==> vHas(e.localToRemote, k) == vHas(old(e.localToRemote), k) && e.localToRemote[k].ref == old(e.localToRemote)[k].ref)
//@   ensures accept:   !specNameFails(e, ref) && !(vHas(old(e.localToRemote), prefix + specLocalName(e, ref)) && old(e.localToRemote)[prefix + specLocalName(e, ref)].ref != ref) ==> err == nil

// ---------------------------------------------------------------------------
// Path items (C07): the operations of a parsed path item carry the path of the site they were parsed
// for, so - referencing equals inlining - whichever path refers to a path-item component, the
// operations it gets are built for THAT path. specItemFor is the (uninterpreted) "built for path"
// attribute of a parsed path item; the trusted contract of parsePathItem says the parser sets it to
// the path it is given.
// ---------------------------------------------------------------------------

func specItemFor(it pathItem) string { panic("uninterpreted: the path template the operations of a parsed path item were built for") }

//@ func (p *parser) parsePathItem(up unparsedPath, item *ogen.PathItem, ctx *jsonpointer.ResolveCtx) (r pathItem, rerr error)
//@   trusted induction hypothesis: nested resolution leaves the resolve context balanced; the operations are built for the given path
//@   modifies ctx.depthLimit, ctx.refs[*], ctx.locstack
//@   ensures depth: jsonpointer.VerifDepth(ctx) == old(jsonpointer.VerifDepth(ctx))
//@   ensures stack: jsonpointer.VerifStack(ctx) == old(jsonpointer.VerifStack(ctx))
//@   ensures keys:  forall k jsonpointer.RefKey :: jsonpointer.VerifInProgress(ctx, k) == old(jsonpointer.VerifInProgress(ctx, k))
//@   ensures forpath: rerr == nil ==> specItemFor(r) == up.path

//@ func (p *parser) resolvePathItem(itemPath unparsedPath, ref string, ctx *jsonpointer.ResolveCtx) (r pathItem, err error)
//@   requires ctx:   ctx != nil && jsonpointer.VerifWF(ctx) && p.spec != nil && p.spec.Components != nil && p.refs.pathItems != nil
//@   requires room:  jsonpointer.VerifDepth(ctx) < 9223372036854775807
//@   inline resolveComponent
//@   modifies ctx.depthLimit, ctx.refs[*], ctx.locstack, p.refs.pathItems[*], p.schemas[*]
//@   ensures depth: jsonpointer.VerifDepth(ctx) == old(jsonpointer.VerifDepth(ctx))
//@   ensures keys:  forall k jsonpointer.RefKey :: jsonpointer.VerifInProgress(ctx, k) == old(jsonpointer.VerifInProgress(ctx, k))
//@   ensures stack: jsonpointer.VerifStack(ctx) == old(jsonpointer.VerifStack(ctx))
//@   ensures forpath: err == nil ==> specItemFor(r) == itemPath.path

// ---------------------------------------------------------------------------
// C11 (the generator is total): the examples section of parseMediaType, extracted mechanically (the
// statements from the `examples := make(...)` to the loop that adds every example value to the schema).
// Safety contract only: for ANY media type object - including `examples: {name: null}`, which
// parseExample answers with (nil, nil) - the section does not panic. parseExample's result may be nil
// (its trusted contract promises nothing else), so the second loop must not dereference blindly.
// The map loops are modelled as iteration over arbitrary entries.
// ---------------------------------------------------------------------------

//@ extract verifMediaExamples(p *parser, ctx *jsonpointer.ResolveCtx, m ogen.Media, s *jsonschema.Schema) (exs map[string]*openapi.Example, err error)
//@ xfrom parse_mediatype.go (*parser).parseMediaType
//@ xstmt examples := make(map[string]*openapi.Example
//@ xupto for _, ex := range examples {
//@ xtail return examples, nil

//@ func verifMediaExamples(p *parser, ctx *jsonpointer.ResolveCtx, m ogen.Media, s *jsonschema.Schema) (exs map[string]*openapi.Example, err error)
//@   requires recv: p != nil && ctx != nil
//@   maprange
//@   noframe safety-only contract of an extracted section (it fills a map it allocates itself and appends to the schema's examples)
//@   modifies ctx.depthLimit, ctx.refs[*], ctx.locstack, s.Examples
//@   ensures total: true

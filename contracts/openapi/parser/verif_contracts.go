//go:build verif

// Contract file of package openapi/parser (build tag verif). Property C07: resolving a component
// reference leaves the resolve context as it found it on every path (the generic resolveComponent is
// verified through two of its instantiations, inlined into the methods that use it).

package parser

import (
	"github.com/go-faster/yaml"

	"github.com/ogen-go/ogen"
	"github.com/ogen-go/ogen/jsonpointer"
	"github.com/ogen-go/ogen/openapi"
)

//@ use errors
//@ use strings

// The component parsers are outside the verifier's reach and mutually recursive with the resolvers.
// ASSUMED (induction hypothesis, as for jsonschema.parse1): they leave the resolve context balanced.
//@ func (p *parser) parseRequestBody(body *ogen.RequestBody, ctx *jsonpointer.ResolveCtx) (r *openapi.RequestBody, rerr error)
//@   trusted induction hypothesis: nested resolution leaves the resolve context balanced
//@   modifies ctx.depthLimit, ctx.refs[*], ctx.locstack
//@   ensures depth: jsonpointer.VerifDepth(ctx) == old(jsonpointer.VerifDepth(ctx))
//@   ensures stack: jsonpointer.VerifStack(ctx) == old(jsonpointer.VerifStack(ctx))
//@   ensures keys:  forall k jsonpointer.RefKey :: jsonpointer.VerifInProgress(ctx, k) == old(jsonpointer.VerifInProgress(ctx, k))
//@   ensures nonnil: rerr == nil ==> r != nil
//@   fresh r

//@ func (p *parser) parseResponse(resp *ogen.Response, ctx *jsonpointer.ResolveCtx) (r *openapi.Response, rerr error)
//@   trusted induction hypothesis: nested resolution leaves the resolve context balanced
//@   modifies ctx.depthLimit, ctx.refs[*], ctx.locstack
//@   ensures depth: jsonpointer.VerifDepth(ctx) == old(jsonpointer.VerifDepth(ctx))
//@   ensures stack: jsonpointer.VerifStack(ctx) == old(jsonpointer.VerifStack(ctx))
//@   ensures keys:  forall k jsonpointer.RefKey :: jsonpointer.VerifInProgress(ctx, k) == old(jsonpointer.VerifInProgress(ctx, k))
//@   ensures nonnil: rerr == nil ==> r != nil
//@   fresh r

//@ func (p *parser) getResolver(loc string) (r resolver, rerr error)
//@   trusted external file access and YAML decoding; does not touch any resolve context
//@   modifies p.schemas[*]

//@ func resolvePointer(root *yaml.Node, ptr string, to any) (err error)
//@   trusted JSON pointer evaluation and YAML decoding into `to`; does not touch any resolve context

//@ func (p *parser) resolveRequestBody(ref string, ctx *jsonpointer.ResolveCtx) (r *openapi.RequestBody, err error)
//@   requires ctx:   ctx != nil && jsonpointer.VerifWF(ctx) && p.spec != nil && p.spec.Components != nil && p.refs.requestBodies != nil
//@   requires room:  jsonpointer.VerifDepth(ctx) < 9223372036854775807
//@   requires cache: forall k refKey :: vHas(p.refs.requestBodies, k) ==> p.refs.requestBodies[k] != nil
//@   inline resolveComponent
//@   modifies ctx.depthLimit, ctx.refs[*], ctx.locstack, p.refs.requestBodies[*], p.schemas[*]
//@   ensures depth: jsonpointer.VerifDepth(ctx) == old(jsonpointer.VerifDepth(ctx))
//@   ensures keys:  forall k jsonpointer.RefKey :: jsonpointer.VerifInProgress(ctx, k) == old(jsonpointer.VerifInProgress(ctx, k))
//@   ensures stack: jsonpointer.VerifStack(ctx) == old(jsonpointer.VerifStack(ctx))

//@ func (p *parser) resolveResponse(ref string, ctx *jsonpointer.ResolveCtx) (r *openapi.Response, err error)
//@   requires ctx:   ctx != nil && jsonpointer.VerifWF(ctx) && p.spec != nil && p.spec.Components != nil && p.refs.responses != nil
//@   requires room:  jsonpointer.VerifDepth(ctx) < 9223372036854775807
//@   requires cache: forall k refKey :: vHas(p.refs.responses, k) ==> p.refs.responses[k] != nil
//@   inline resolveComponent
//@   modifies ctx.depthLimit, ctx.refs[*], ctx.locstack, p.refs.responses[*], p.schemas[*]
//@   ensures depth: jsonpointer.VerifDepth(ctx) == old(jsonpointer.VerifDepth(ctx))
//@   ensures keys:  forall k jsonpointer.RefKey :: jsonpointer.VerifInProgress(ctx, k) == old(jsonpointer.VerifInProgress(ctx, k))
//@   ensures stack: jsonpointer.VerifStack(ctx) == old(jsonpointer.VerifStack(ctx))

// ---- the other instantiations of resolveComponent ------------------------------------------------

//@ func (p *parser) parseParameter(param *ogen.Parameter, ctx *jsonpointer.ResolveCtx) (r *openapi.Parameter, rerr error)
//@   trusted induction hypothesis: nested resolution leaves the resolve context balanced
//@   modifies ctx.depthLimit, ctx.refs[*], ctx.locstack
//@   ensures depth: jsonpointer.VerifDepth(ctx) == old(jsonpointer.VerifDepth(ctx))
//@   ensures stack: jsonpointer.VerifStack(ctx) == old(jsonpointer.VerifStack(ctx))
//@   ensures keys:  forall k jsonpointer.RefKey :: jsonpointer.VerifInProgress(ctx, k) == old(jsonpointer.VerifInProgress(ctx, k))
//@   ensures nonnil: rerr == nil ==> r != nil
//@   fresh r

//@ func (p *parser) parseHeader(name string, header *ogen.Header, ctx *jsonpointer.ResolveCtx) (r *openapi.Header, rerr error)
//@   trusted induction hypothesis: nested resolution leaves the resolve context balanced
//@   modifies ctx.depthLimit, ctx.refs[*], ctx.locstack
//@   ensures depth: jsonpointer.VerifDepth(ctx) == old(jsonpointer.VerifDepth(ctx))
//@   ensures stack: jsonpointer.VerifStack(ctx) == old(jsonpointer.VerifStack(ctx))
//@   ensures keys:  forall k jsonpointer.RefKey :: jsonpointer.VerifInProgress(ctx, k) == old(jsonpointer.VerifInProgress(ctx, k))
//@   ensures nonnil: rerr == nil ==> r != nil
//@   ensures name:   rerr == nil ==> r.Name == name
//@   fresh r

//@ func (p *parser) parseExample(e *ogen.Example, ctx *jsonpointer.ResolveCtx) (r *openapi.Example, rerr error)
//@   trusted induction hypothesis: nested resolution leaves the resolve context balanced
//@   modifies ctx.depthLimit, ctx.refs[*], ctx.locstack
//@   ensures depth: jsonpointer.VerifDepth(ctx) == old(jsonpointer.VerifDepth(ctx))
//@   ensures stack: jsonpointer.VerifStack(ctx) == old(jsonpointer.VerifStack(ctx))
//@   ensures keys:  forall k jsonpointer.RefKey :: jsonpointer.VerifInProgress(ctx, k) == old(jsonpointer.VerifInProgress(ctx, k))
//@   fresh r

//@ func (p *parser) parseSecurityScheme(s *ogen.SecurityScheme, ctx *jsonpointer.ResolveCtx) (r *ogen.SecurityScheme, rerr error)
//@   trusted induction hypothesis: nested resolution leaves the resolve context balanced
//@   modifies ctx.depthLimit, ctx.refs[*], ctx.locstack
//@   ensures depth: jsonpointer.VerifDepth(ctx) == old(jsonpointer.VerifDepth(ctx))
//@   ensures stack: jsonpointer.VerifStack(ctx) == old(jsonpointer.VerifStack(ctx))
//@   ensures keys:  forall k jsonpointer.RefKey :: jsonpointer.VerifInProgress(ctx, k) == old(jsonpointer.VerifInProgress(ctx, k))

//@ func (p *parser) resolveParameter(ref string, ctx *jsonpointer.ResolveCtx) (r *openapi.Parameter, err error)
//@   requires ctx:   ctx != nil && jsonpointer.VerifWF(ctx) && p.spec != nil && p.spec.Components != nil && p.refs.parameters != nil
//@   requires room:  jsonpointer.VerifDepth(ctx) < 9223372036854775807
//@   requires cache: forall k refKey :: vHas(p.refs.parameters, k) ==> p.refs.parameters[k] != nil
//@   inline resolveComponent
//@   modifies ctx.depthLimit, ctx.refs[*], ctx.locstack, p.refs.parameters[*], p.schemas[*]
//@   ensures depth: jsonpointer.VerifDepth(ctx) == old(jsonpointer.VerifDepth(ctx))
//@   ensures keys:  forall k jsonpointer.RefKey :: jsonpointer.VerifInProgress(ctx, k) == old(jsonpointer.VerifInProgress(ctx, k))
//@   ensures stack: jsonpointer.VerifStack(ctx) == old(jsonpointer.VerifStack(ctx))

// A header component is cached by reference only, but the NAME of a header is the key of the referring
// site: whichever site asks, the header it gets carries THAT site's name (referencing equals inlining).
//@ func (p *parser) resolveHeader(headerName string, ref string, ctx *jsonpointer.ResolveCtx) (r *openapi.Header, err error)
//@   requires ctx:   ctx != nil && jsonpointer.VerifWF(ctx) && p.spec != nil && p.spec.Components != nil && p.refs.headers != nil
//@   requires room:  jsonpointer.VerifDepth(ctx) < 9223372036854775807
//@   requires cache: forall k refKey :: vHas(p.refs.headers, k) ==> p.refs.headers[k] != nil
//@   inline resolveComponent
//@   modifies ctx.depthLimit, ctx.refs[*], ctx.locstack, p.refs.headers[*], p.schemas[*]
//@   ensures depth: jsonpointer.VerifDepth(ctx) == old(jsonpointer.VerifDepth(ctx))
//@   ensures keys:  forall k jsonpointer.RefKey :: jsonpointer.VerifInProgress(ctx, k) == old(jsonpointer.VerifInProgress(ctx, k))
//@   ensures stack: jsonpointer.VerifStack(ctx) == old(jsonpointer.VerifStack(ctx))
//@   ensures named: err == nil ==> r != nil && r.Name == headerName

//@ func (p *parser) resolveExample(ref string, ctx *jsonpointer.ResolveCtx) (r *openapi.Example, err error)
//@   requires ctx:   ctx != nil && jsonpointer.VerifWF(ctx) && p.spec != nil && p.spec.Components != nil && p.refs.examples != nil
//@   requires room:  jsonpointer.VerifDepth(ctx) < 9223372036854775807
//@   requires cache: forall k refKey :: vHas(p.refs.examples, k) ==> p.refs.examples[k] != nil
//@   inline resolveComponent
//@   modifies ctx.depthLimit, ctx.refs[*], ctx.locstack, p.refs.examples[*], p.schemas[*]
//@   ensures depth: jsonpointer.VerifDepth(ctx) == old(jsonpointer.VerifDepth(ctx))
//@   ensures keys:  forall k jsonpointer.RefKey :: jsonpointer.VerifInProgress(ctx, k) == old(jsonpointer.VerifInProgress(ctx, k))
//@   ensures stack: jsonpointer.VerifStack(ctx) == old(jsonpointer.VerifStack(ctx))

//@ func (p *parser) resolveSecurityScheme(ref string, ctx *jsonpointer.ResolveCtx) (r *ogen.SecurityScheme, err error)
//@   requires ctx:   ctx != nil && jsonpointer.VerifWF(ctx) && p.spec != nil && p.spec.Components != nil && p.refs.securitySchemes != nil
//@   requires room:  jsonpointer.VerifDepth(ctx) < 9223372036854775807
//@   requires cache: forall k refKey :: vHas(p.refs.securitySchemes, k) ==> p.refs.securitySchemes[k] != nil
//@   inline resolveComponent
//@   modifies ctx.depthLimit, ctx.refs[*], ctx.locstack, p.refs.securitySchemes[*], p.schemas[*]
//@   ensures depth: jsonpointer.VerifDepth(ctx) == old(jsonpointer.VerifDepth(ctx))
//@   ensures keys:  forall k jsonpointer.RefKey :: jsonpointer.VerifInProgress(ctx, k) == old(jsonpointer.VerifInProgress(ctx, k))
//@   ensures stack: jsonpointer.VerifStack(ctx) == old(jsonpointer.VerifStack(ctx))

var (
	_ yaml.Node
	_ ogen.RequestBody
	_ openapi.RequestBody
	_ jsonpointer.RefKey
)

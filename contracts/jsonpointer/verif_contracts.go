//go:build verif

// Contract file of package jsonpointer (build tag verif): RFC 6901 evaluation steps.

package jsonpointer

import (
	"strings"

	"github.com/go-faster/yaml"

	"github.com/ogen-go/ogen/location"
)

//@ use strings
//@ use errors
//@ use strconv
//@ use neturl
//@ use join
//@ nonnil unescapeReplacer

// rfcIndex: RFC 6901 section 4 array-index = %x30 / ( %x31-39 *(%x30-39) ) — no leading zeros.
func rfcIndex(s string) bool {
	return s == "0" || len(s) > 0 && '1' <= s[0] && s[0] <= '9' && allDigits(s)
}

// wfNode: type invariant of yaml.Node trees as the YAML decoder builds them (ASSUMED of the dependency,
// stated as a precondition): no nil child; a mapping node holds key/value children alternately.
func wfNode(n *yaml.Node) bool {
	return (n.Kind != yaml.MappingNode || len(n.Content)%2 == 0) &&
		vForallIn(0, len(n.Content), func(k int) bool { return n.Content[k] != nil })
}

// firstMember: RFC 6901 object step - the value of the FIRST member (from child index i on) whose name
// equals the reference token exactly; nil when there is none.
func firstMember(n *yaml.Node, key string, i int) *yaml.Node {
	if i < 0 || i+1 >= len(n.Content) {
		return nil
	}
	if n.Content[i].Value == key {
		return n.Content[i+1]
	}
	return firstMember(n, key, i+2)
}

// rfcStep: ONE evaluation step of RFC 6901 section 4 from node n along the (already unescaped) reference
// token tok: the designated child, or nil when the token designates nothing (no such member; not an
// array-index, or index out of range; n is a scalar).
func rfcStep(n *yaml.Node, tok string) *yaml.Node {
	if n == nil {
		return nil
	}
	if n.Kind == yaml.MappingNode {
		return firstMember(n, tok, 0)
	}
	if n.Kind == yaml.SequenceNode && rfcIndex(tok) && decVal(tok) < uint64(len(n.Content)) {
		return n.Content[decVal(tok)]
	}
	return nil
}

// rfcEvalS: RFC 6901 evaluation from node n of the reference tokens of s, s being the pointer text after
// its leading '/': tokens are separated by '/', each is unescaped (rfcUnescape) and applied in turn; nil
// as soon as one token designates nothing.
func rfcEvalS(n *yaml.Node, s string) *yaml.Node {
	if n == nil {
		return nil
	}
	if indexB(s, '/') < 0 {
		return rfcStep(n, rfcUnescape(s))
	}
	return rfcEvalS(rfcStep(n, rfcUnescape(s[:indexB(s, '/')])), s[indexB(s, '/')+1:])
}

// rfcEval: evaluation of a whole JSON Pointer (RFC 6901 section 3: "" or a sequence of '/'-prefixed tokens).
func rfcEval(n *yaml.Node, ptr string) *yaml.Node {
	if ptr == "" {
		return n
	}
	if ptr[0] != '/' {
		return nil
	}
	return rfcEvalS(n, ptr[1:])
}

// docRoot: the node a pointer is evaluated from - the content of a document node, else the node itself.
func docRoot(n *yaml.Node) *yaml.Node {
	if n.Kind == yaml.DocumentNode && len(n.Content) > 0 {
		return n.Content[0]
	}
	return n
}

// Object member lookup: the FIRST member whose name equals the reference token, exact match.
// Mapping nodes produced by the YAML decoder hold key/value children alternately (even count;
// assumption on the dependency, stated as precondition).
//@ func findKey(n *yaml.Node, part string) (r *yaml.Node, ok bool)
//@   requires node:    n != nil
//@   requires pairs:   len(n.Content)%2 == 0
//@   requires nonnil:  forall k in (0, len(n.Content)) :: n.Content[k] != nil
//@   ensures hit:  ok ==> (exists j in (0, len(n.Content)) :: j%2 == 0 && n.Content[j].Value == part && r == n.Content[j+1] &&
//@                          (forall i in (0, j) :: i%2 == 0 ==> n.Content[i].Value != part))
//@   ensures miss: !ok ==> r == nil && (forall i in (0, len(n.Content)) :: i%2 == 0 ==> n.Content[i].Value != part)
//@   ensures first: r == firstMember(n, part, 0) && ok == (r != nil)
//@   loop 0 vars i int
//@   loop 0 invariant even:  0 <= i && i%2 == 0 && i <= len(n.Content)
//@   loop 0 invariant seen:  forall k in (0, i) :: k%2 == 0 ==> n.Content[k].Value != part
//@   loop 0 invariant rest:  firstMember(n, part, 0) == firstMember(n, part, i)
//@   loop 0 decreases len(n.Content) - i

// Array element lookup: the token must be an RFC array-index and designate an existing element - the
// element at the position the decimal token denotes.
//@ func findIdx(n *yaml.Node, part string) (r *yaml.Node, ok bool, err error)
//@   requires node: n != nil
//@   ensures syntax:  ok ==> rfcIndex(part)
//@   ensures element: ok ==> err == nil && decVal(part) < uint64(len(n.Content)) && r == n.Content[decVal(part)]
//@   ensures noelem:  !ok ==> r == nil
//@   ensures found:   rfcIndex(part) && decVal(part) < uint64(len(n.Content)) ==> ok
//@   ensures failed:  err != nil ==> !ok && !(rfcIndex(part) && decVal(part) < uint64(len(n.Content)))

// rfcUnescape: RFC 6901 section 4: "~1" -> "/" and "~0" -> "~", evaluated in ONE left-to-right pass
// (so "~01" becomes "~1", never "/").
func rfcUnescape(s string) string {
	if len(s) < 2 {
		return s
	}
	if s[0] == '~' && s[1] == '1' {
		return "/" + rfcUnescape(s[2:])
	}
	if s[0] == '~' && s[1] == '0' {
		return "~" + rfcUnescape(s[2:])
	}
	return s[:1] + rfcUnescape(s[1:])
}

// hasTilde01: the token contains "~0" or "~1".
func hasSub2(s string, a, b byte) bool {
	return vExistsIn(0, len(s)-1, func(i int) bool { return s[i] == a && s[i+1] == b })
}

//@ extern func strings.Contains(s string, substr string) (ok bool)
//@   pure
//@   ensures two: len(substr) == 2 ==> ok == hasSub2(s, substr[0], substr[1])

// The package-level unescapeReplacer is strings.NewReplacer("~1", "/", "~0", "~"); strings.Replacer
// documentation: "Replacements are performed in the order they appear in the target string, without
// overlapping matches" - i.e. exactly the single left-to-right pass of rfcUnescape. ASSUMED for this
// one replacer object (its construction arguments are not visible to the proof; the bounded stand-in
// unescape-exhaustive compares the real function with rfcUnescape on every short token).
//@ extern func (r *strings.Replacer) Replace(s string) (out string)
//@   pure
//@   ensures rfc: r == unescapeReplacer ==> out == rfcUnescape(s)

//@ lemma unescapeNoTilde(s string)
//@   requires none: !hasSub2(s, '~', '1') && !hasSub2(s, '~', '0')
//@   ensures id: rfcUnescape(s) == s
//@   decreases len(s)
//@   induct s[1:]
//@   trigger rfcUnescape(s)

// Token splitting (RFC 6901 section 3: reference tokens are separated by '/'): the callback receives
// exactly the pieces of s, in order, first separator first; an empty string is ONE empty token.
//@ func splitFunc(s string, sep byte, cb func(s string) error) (err error)
//@   callback cb(s string) log parts s
//@   modifies cb:cb
//@   uses indexBRange
//@   ensures parts:  vCbOK(cb) && err == nil ==> vSeqEq(vCbLog(cb, "parts"), vCat(old(vCbLog(cb, "parts")), splitS(s, sep)))
//@   ensures ok:     vCbOK(cb) ==> err == nil
//@   ensures cbfail: old(vCbOK(cb)) && !vCbOK(cb) ==> err != nil
//@   loop 0 vars s_cur string
//@   loop 0 invariant mono: vCbOK(cb) == old(vCbOK(cb))
//@   loop 0 invariant acc:  vCbOK(cb) ==> vSeqEq(vCat(vCbLog(cb, "parts"), splitS(s_cur, sep)), vCat(old(vCbLog(cb, "parts")), splitS(s, sep)))
//@   loop 0 decreases len(s_cur)

//@ func unescape(part string) (r string)
//@   uses unescapeNoTilde
//@   ensures rfc: r == rfcUnescape(part)

// (*yaml.Node).ShortTag only feeds an error text.
//@ extern func (n *yaml.Node) ShortTag() (s string)
//@   pure

// find: evaluation of a plain JSON Pointer. splitFunc and the token closure are INLINED, so the token
// loop is verified together with the captured variable `node` it advances; the invariant says the
// tokens still to come, evaluated from the current node, designate what the whole pointer designates.
//@ func find(ptr string, node *yaml.Node) (r *yaml.Node, err error)
//@   inline splitFunc
//@   requires root: node != nil
//@   requires kids:  forall m *yaml.Node :: m != nil ==> (forall k in (0, len(m.Content)) :: m.Content[k] != nil)
//@   requires pairs: forall m *yaml.Node :: m != nil && m.Kind == yaml.MappingNode ==> len(m.Content)%2 == 0
//@   ensures sound:    err == nil ==> r != nil && r == rfcEval(node, ptr)
//@   ensures complete: rfcEval(node, ptr) != nil ==> err == nil
//@   ensures failnil:  err != nil ==> rfcEval(node, ptr) == nil
//@   loop splitFunc.0 vars s_cur string, node_cur **yaml.Node
//@   loop splitFunc.0 invariant live: *node_cur != nil
//@   loop splitFunc.0 invariant acc:  rfcEvalS(*node_cur, s_cur) == rfcEvalS(node, ptr[1:])
//@   loop splitFunc.0 decreases len(s_cur)

// Resolve: plain form ("" or "/..."), URI-fragment form ("#" + percent-encoded pointer), or a URL whose
// fragment is the pointer. The root is the content of a document node.
//@ func Resolve(ptr string, node *yaml.Node) (r *yaml.Node, err error)
//@   requires kids:  forall m *yaml.Node :: m != nil ==> (forall k in (0, len(m.Content)) :: m.Content[k] != nil)
//@   requires pairs: forall m *yaml.Node :: m != nil && m.Kind == yaml.MappingNode ==> len(m.Content)%2 == 0
//@   ensures nilroot: node == nil ==> err != nil
//@   ensures whole:   node != nil && (ptr == "" || ptr == "#") ==> err == nil && r == docRoot(node)
//@   ensures plain:   node != nil && len(ptr) > 0 && ptr[0] == '/' ==> (err == nil ==> r != nil && r == rfcEval(docRoot(node), ptr)) &&
//@                      (rfcEval(docRoot(node), ptr) != nil ==> err == nil)
//@   ensures frag:    node != nil && len(ptr) > 1 && ptr[0] == '#' ==>
//@                      (err == nil ==> verifUnescOK(ptr[1:]) && r != nil && r == rfcEval(docRoot(node), verifUnescVal(ptr[1:]))) &&
//@                      (verifUnescOK(ptr[1:]) && rfcEval(docRoot(node), verifUnescVal(ptr[1:])) != nil ==> err == nil)

var _ yaml.Node
var _ = strings.Contains

// ---------------------------------------------------------------------------
// ResolveCtx: the cycle / depth mechanism of reference resolution (C07)
// Abstract view: refs = set of keys in progress, depthLimit = remaining depth, locstack = one entry
// per key in progress.
// ---------------------------------------------------------------------------

//@ func (r *ResolveCtx) AddKey(key RefKey, file location.File) (err error)
//@   requires ctx: r.refs != nil
//@   modifies r.refs[*], r.depthLimit, r.locstack
//@   ensures depth:   old(r.depthLimit) <= 0 ==> err != nil && r.depthLimit == old(r.depthLimit) && len(r.locstack) == len(old(r.locstack)) &&
//@                      (forall k RefKey :: vHas(r.refs, k) == vHas(old(r.refs), k))
//@   ensures cycle:   old(r.depthLimit) > 0 && vHas(old(r.refs), key) ==> err != nil && r.depthLimit == old(r.depthLimit) && len(r.locstack) == len(old(r.locstack)) &&
//@                      (forall k RefKey :: vHas(r.refs, k) == vHas(old(r.refs), k))
//@   ensures rollback: err != nil ==> r.depthLimit == old(r.depthLimit) && len(r.locstack) == len(old(r.locstack)) &&
//@                      (forall k RefKey :: vHas(r.refs, k) == vHas(old(r.refs), k))
//@   ensures pushed:  err == nil ==> old(r.depthLimit) > 0 && !vHas(old(r.refs), key) && r.depthLimit == old(r.depthLimit) - 1 &&
//@                      len(r.locstack) == len(old(r.locstack)) + 1 &&
//@                      (forall k RefKey :: vHas(r.refs, k) == (vHas(old(r.refs), k) || k == key))

// Key / IsRoot read the location stack and parse URLs; they do not change the context. Not verified
// (net/url): their results are arbitrary here.
//@ func (r *ResolveCtx) Key(ref string) (key RefKey, err error)
//@   trusted reads only (url.Parse, ResolveReference on the location stack); results unconstrained
//@ func (r *ResolveCtx) IsRoot(key RefKey) (root bool)
//@   trusted reads only; result unconstrained

// View accessors for the contracts of OTHER packages (the fields of ResolveCtx are unexported):
// remaining depth, "key is in progress", height of the location stack.
func VerifDepth(r *ResolveCtx) int { return r.depthLimit }

func VerifInProgress(r *ResolveCtx, k RefKey) bool {
	_, ok := r.refs[k]
	return ok
}

func VerifStack(r *ResolveCtx) int { return len(r.locstack) }

// VerifWF: the context was built by NewResolveCtx (its in-progress set exists).
func VerifWF(r *ResolveCtx) bool { return r.refs != nil }

//@ func (r *ResolveCtx) Delete(key RefKey)
//@   requires ctx:  r.refs != nil
//@   requires room: r.depthLimit < 9223372036854775807
//@   modifies r.refs[*], r.depthLimit, r.locstack
//@   ensures popped: r.depthLimit == old(r.depthLimit) + 1 &&
//@                   (forall k RefKey :: vHas(r.refs, k) == (vHas(old(r.refs), k) && k != key)) &&
//@                   (len(old(r.locstack)) > 0 ==> len(r.locstack) == len(old(r.locstack)) - 1)

// Harness: a successful AddKey followed by Delete of the same key restores the abstract view —
// the balanced push/pop that makes nested resolution terminate within the depth limit.
//@ func verifAddDelete(r *ResolveCtx, key RefKey, file location.File) (err error)
//@   requires ctx: r != nil && r.refs != nil
//@   modifies r.refs[*], r.depthLimit, r.locstack
//@   ensures balanced: r.depthLimit == old(r.depthLimit) && len(r.locstack) == len(old(r.locstack)) &&
//@                     (err == nil ==> (forall k RefKey :: vHas(r.refs, k) == vHas(old(r.refs), k)))
func verifAddDelete(r *ResolveCtx, key RefKey, file location.File) error {
	if err := r.AddKey(key, file); err != nil {
		if len(r.locstack) == 0 { // keep the function total for the replay harness
			return err
		}
		return err
	}
	r.Delete(key)
	return nil
}

var _ location.File

//go:build verif

// Contract file of package gen/ir (build tag verif). Property C09: the generated security check
// indexes `satisfied [N]uint8` and every requirement mask with the same i < N, N = BitArrayLen().

package ir

//@ func (s SecurityRequirements) BitArrayLen() (r int)
//@   ensures upper:  forall k in (0, len(s.Requirements)) :: len(s.Requirements[k]) <= r
//@   ensures tight:  r == 0 || (exists k in (0, len(s.Requirements)) :: len(s.Requirements[k]) == r)
//@   ensures nonneg: r >= 0
//@   loop 0 vars rangeindex int, r int
//@   loop 0 invariant range: -1 <= rangeindex && rangeindex < len(s.Requirements)
//@   loop 0 invariant upper: forall k in (0, rangeindex+1) :: len(s.Requirements[k]) <= r
//@   loop 0 invariant tight: r == 0 || (exists k in (0, rangeindex+1) :: len(s.Requirements[k]) == r)

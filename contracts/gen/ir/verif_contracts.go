//go:build verif

// Contract file of package gen/ir (build tag verif). Property C09: the generated security check
// indexes `satisfied [N]uint8` and every requirement mask with the same i < N, N = BitArrayLen().

package ir

import (
	"github.com/ogen-go/ogen/jsonschema"
	"github.com/ogen-go/ogen/ogenregex"
)

var _ *jsonschema.Schema
var _ ogenregex.Regexp

//@ func (s SecurityRequirements) BitArrayLen() (r int)
//@   ensures upper:  forall k in (0, len(s.Requirements)) :: len(s.Requirements[k]) <= r
//@   ensures tight:  r == 0 || (exists k in (0, len(s.Requirements)) :: len(s.Requirements[k]) == r)
//@   ensures nonneg: r >= 0
//@   loop 0 vars rangeindex int, r int
//@   loop 0 invariant range: -1 <= rangeindex && rangeindex < len(s.Requirements)
//@   loop 0 invariant upper: forall k in (0, rangeindex+1) :: len(s.Requirements[k]) <= r
//@   loop 0 invariant tight: r == 0 || (exists k in (0, rangeindex+1) :: len(s.Requirements[k]) == r)

// ---------------------------------------------------------------------------
// C08 / C03 (pattern): the string validator of a schema with a pattern executes EXACTLY that pattern:
// SetString compiles every non-empty pattern with ogenregex.Compile (whose contract - engine selection,
// never approximated, String() == source - is proved in package ogenregex) and stores the result; no
// pattern is skipped or replaced. A schema without a pattern leaves the validator's expression alone.
// ---------------------------------------------------------------------------

//@ use errors

//@ func (v *Validators) SetString(schema *jsonschema.Schema) (err error)
//@   requires schema: schema != nil
//@   modifies v.String
//@   ensures pattern:   err == nil && schema.Pattern != "" ==> v.String.Regex != nil && ogenregex.VerifSource(v.String.Regex) == schema.Pattern
//@   ensures nopattern: schema.Pattern == "" ==> v.String.Regex == old(v.String.Regex)
//@   ensures refused:   err != nil ==> schema.Pattern != ""

//go:build verif

// Contract file of package gen (build tag verif): mechanisms behind "everything the generator
// writes is a Go package that compiles" (C02) — identifier synthesis.

package gen

import (
	"go/token"
	"strconv"
	"strings"

	"github.com/ogen-go/ogen/gen/ir"

	"github.com/ogen-go/ogen/internal/naming"
)

//@ use errors
//@ use gotoken

//@ extern func naming.Rule(part string) (rule string, ok bool)
//@   pure

// Every name the synthesiser returns without error is a valid Go identifier.
//@ func (g *nameGen) generate() (name string, err error)
//@   nooverflow g.pos counts runes of a string that exists in memory
//@   requires pos: 0 <= g.pos && g.pos <= len(g.src)
//@   modifies g.parts, g.pos
//@   ensures ident: err == nil ==> token.IsIdentifier(name)
//@   loop 0 modifies g.parts, g.pos
//@   loop 0 invariant pos: 0 <= g.pos && g.pos <= len(g.src)

//@ func pascal(strs ...string) (name string, err error)
//@   ensures ident: err == nil ==> token.IsIdentifier(name)
//@ func pascalSpecial(strs ...string) (name string, err error)
//@   ensures ident: err == nil ==> token.IsIdentifier(name)
//@ func pascalNonEmpty(strs ...string) (name string, err error)
//@   ensures ident: err == nil ==> token.IsIdentifier(name) && name != ""

// ---- spec-provided strings reach Go source only through quoting ---------------------------
//
// goElem(x): x is a well-formed element literal {Name:<Go string literal>,Required:<bool>};
// goExprList(x): x is a well-formed []uri.QueryParameterObjectField{...} literal (or nil).
// Both are uninterpreted; the only facts assumed about them are the two grammar lemmas below.
func goElem(x string) bool     { panic("uninterpreted: x is a well-formed element literal") }
func goExprList(x string) bool { panic("uninterpreted: x is a well-formed slice literal") }

//@ lemma quotedElem(name string)
//@   trusted Go grammar: strconv.Quote(name) is a Go string literal, true/false are Go expressions
//@   ensures elemT: goElem("{Name:" + strconv.Quote(name) + ",Required:" + "true" + "}")
//@   ensures elemF: goElem("{Name:" + strconv.Quote(name) + ",Required:" + "false" + "}")
//@   trigger strconv.Quote(name)

//@ lemma listOfElems(xs []string)
//@   trusted Go grammar: a comma-separated list of element literals between the type and braces is a composite literal
//@   requires elems: forall k in (0, len(xs)) :: goElem(xs[k])
//@   ensures list: goExprList("[]uri.QueryParameterObjectField{" + strings.Join(xs, ",") + "}")
//@   trigger strings.Join(xs, ",")

//@ lemma nilIsExpr()
//@   trusted Go grammar: nil is an expression
//@   ensures isnil: goExprList("nil")

//@ extern func strconv.Quote(s string) (q string)
//@   pure
//@ extern func (t *ir.Type) Is(vs ...ir.Kind) (r bool)
//@   requires nonnil: t != nil
//@   ensures one: len(vs) == 1 ==> r == (t.Kind == vs[0])

//@ func paramObjectFields(typ *ir.Type) (out string)
//@   requires typ: typ != nil && (typ.Kind == ir.KindGeneric ==> typ.GenericOf != nil)
//@   requires fields: forall k in (0, len(typ.Fields)) :: typ.Fields[k] != nil
//@   requires gfields: typ.GenericOf != nil ==> (forall k in (0, len(typ.GenericOf.Fields)) :: typ.GenericOf.Fields[k] != nil)
//@   uses quotedElem, listOfElems, nilIsExpr
//@   nooverflow the range index is bounded by the length of a slice that exists in memory
//@   ensures parses: goExprList(out)
//@   loop 0 vars fields []string, rangeindex int
//@   loop 0 invariant idx:   rangeindex >= -1
//@   loop 0 invariant elems: forall k in (0, len(fields)) :: goElem(fields[k])

var _ = token.IsIdentifier
var _ = naming.Rule

var _ = strconv.Quote
var _ = strings.Join
var _ ir.Kind

//go:build verif

// Contract file of package gen (build tag verif): mechanisms behind "everything the generator
// writes is a Go package that compiles" (C02) — identifier synthesis.

package gen

import (
	"github.com/ogen-go/ogen/jsonschema"
	"go/token"
	"strconv"
	"strings"

	"github.com/ogen-go/ogen"
	"github.com/ogen-go/ogen/gen/ir"
	"github.com/ogen-go/ogen/openapi"
	"github.com/ogen-go/ogen/openapi/parser"

	"github.com/ogen-go/ogen/internal/naming"
)

//@ use errors
//@ use gotoken

//@ extern func naming.Rule(part string) (rule string, ok bool)
//@   pure

// Every name the synthesiser returns without error is a valid Go identifier.
//@ func (g *nameGen) generate() (name string, err error)
//@   nooverflow g.pos counts runes of a string that exists in memory
//@   requires pos: 0 <= g.pos && g.pos <= len(g.src)
//@   modifies g.parts, g.pos
//@   ensures ident: err == nil ==> token.IsIdentifier(name)
//@   loop 0 modifies g.parts, g.pos
//@   loop 0 invariant pos: 0 <= g.pos && g.pos <= len(g.src)

//@ func pascal(strs ...string) (name string, err error)
//@   ensures ident: err == nil ==> token.IsIdentifier(name)
//@ func pascalSpecial(strs ...string) (name string, err error)
//@   ensures ident: err == nil ==> token.IsIdentifier(name)
//@ func pascalNonEmpty(strs ...string) (name string, err error)
//@   ensures ident: err == nil ==> token.IsIdentifier(name) && name != ""

// ---- spec-provided strings reach Go source only through quoting ---------------------------
//
// goElem(x): x is a well-formed element literal {Name:<Go string literal>,Required:<bool>};
// goExprList(x): x is a well-formed []uri.QueryParameterObjectField{...} literal (or nil).
// Both are uninterpreted; the only facts assumed about them are the two grammar lemmas below.
func goElem(x string) bool     { panic("uninterpreted: x is a well-formed element literal") }
func goExprList(x string) bool { panic("uninterpreted: x is a well-formed slice literal") }

//@ lemma quotedElem(name string)
//@   trusted Go grammar: strconv.Quote(name) is a Go string literal, true/false are Go expressions
//@   ensures elemT: goElem("{Name:" + strconv.Quote(name) + ",Required:" + "true" + "}")
//@   ensures elemF: goElem("{Name:" + strconv.Quote(name) + ",Required:" + "false" + "}")
//@   trigger strconv.Quote(name)

//@ lemma listOfElems(xs []string)
//@   trusted Go grammar: a comma-separated list of element literals between the type and braces is a composite literal
//@   requires elems: forall k in (0, len(xs)) :: goElem(xs[k])
//@   ensures list: goExprList("[]uri.QueryParameterObjectField{" + strings.Join(xs, ",") + "}")
//@   trigger strings.Join(xs, ",")

//@ lemma nilIsExpr()
//@   trusted Go grammar: nil is an expression
//@   ensures isnil: goExprList("nil")

//@ extern func strconv.Quote(s string) (q string)
//@   pure
//@ extern func (t *ir.Type) Is(vs ...ir.Kind) (r bool)
//@   requires nonnil: t != nil
//@   ensures one: len(vs) == 1 ==> r == (t.Kind == vs[0])
//@   ensures any: r == (exists i in (0, len(vs)) :: vs[i] == t.Kind)
//@   ensures eight: len(vs) == 8 ==> r == (vs[0] == t.Kind || vs[1] == t.Kind || vs[2] == t.Kind || vs[3] == t.Kind || vs[4] == t.Kind || vs[5] == t.Kind || vs[6] == t.Kind || vs[7] == t.Kind)

//@ func paramObjectFields(typ *ir.Type) (out string)
//@   requires typ: typ != nil && (typ.Kind == ir.KindGeneric ==> typ.GenericOf != nil)
//@   requires fields: forall k in (0, len(typ.Fields)) :: typ.Fields[k] != nil
//@   requires gfields: typ.GenericOf != nil ==> (forall k in (0, len(typ.GenericOf.Fields)) :: typ.GenericOf.Fields[k] != nil)
//@   uses quotedElem, listOfElems, nilIsExpr
//@   nooverflow the range index is bounded by the length of a slice that exists in memory
//@   ensures parses: goExprList(out)
//@   loop 0 vars fields []string, rangeindex int
//@   loop 0 invariant idx:   rangeindex >= -1
//@   loop 0 invariant elems: forall k in (0, len(fields)) :: goElem(fields[k])

var _ = token.IsIdentifier
var _ = naming.Rule

var _ = strconv.Quote
var _ = strings.Join
var _ ir.Kind

// ---------------------------------------------------------------------------
// tstorage (gen/tstorage.go): "type-name conflict detection instead of silent overwrite" (C02).
// The save* operations either insert under a key/name that was free, leaving everything else as it
// was, or fail and change nothing. merge (range over maps) and the generic-overwrite branch of
// saveType are not under contract.
// ---------------------------------------------------------------------------

//@ extern func (t *ir.Type) IsGeneric() (r bool)
//@   requires nonnil: t != nil
//@   ensures def: r == (t.Kind == ir.KindGeneric)

// saveType, for types that are not generic (the generic branch merges features over a range over
// maps and is cut as unmodelled: it must be - and is - unreachable under the precondition).
//@ func (s *tstorage) saveType(t *ir.Type) (err error)
//@   requires maps:  s.types != nil && t != nil
//@   requires named: t.Kind == ir.KindInterface || t.Kind == ir.KindStruct || t.Kind == ir.KindMap || t.Kind == ir.KindEnum || t.Kind == ir.KindAlias || t.Kind == ir.KindSum || t.Kind == ir.KindStream
//@   modifies s.types[*]
//@   ensures verdict: (err == nil) == !old(vHas(s.types, t.Name))
//@   ensures stored:  err == nil ==> vHas(s.types, t.Name) && s.types[t.Name] == t
//@   ensures types:   forall n string :: n != t.Name || err != nil ==> vHas(s.types, n) == old(vHas(s.types, n)) && s.types[n] == old(s.types[n])

//@ func (s *tstorage) saveResponse(ref jsonschema.Ref, r *ir.Response) (err error)
//@   requires maps: s.responses != nil
//@   modifies s.responses[*]
//@   ensures verdict: (err == nil) == !old(vHas(s.responses, ref))
//@   ensures stored:  err == nil ==> vHas(s.responses, ref) && s.responses[ref] == r
//@   ensures others:  forall k jsonschema.Ref :: k != ref || err != nil ==> vHas(s.responses, k) == old(vHas(s.responses, k)) && s.responses[k] == old(s.responses[k])

//@ func (s *tstorage) saveParameter(ref jsonschema.Ref, p *ir.Parameter) (err error)
//@   requires maps: s.parameters != nil
//@   modifies s.parameters[*]
//@   ensures verdict: (err == nil) == !old(vHas(s.parameters, ref))
//@   ensures stored:  err == nil ==> vHas(s.parameters, ref) && s.parameters[ref] == p
//@   ensures others:  forall k jsonschema.Ref :: k != ref || err != nil ==> vHas(s.parameters, k) == old(vHas(s.parameters, k)) && s.parameters[k] == old(s.parameters[k])

//@ func (s *tstorage) saveRef(ref jsonschema.Ref, e ir.Encoding, t *ir.Type) (err error)
//@   requires maps: s.refs != nil && s.types != nil && t != nil
//@   modifies s.refs[*], s.types[*]
//@   ensures verdict: (err == nil) == (!old(vHas(s.refs, schemaKey{ref, e})) && !old(vHas(s.types, t.Name)))
//@   ensures stored:  err == nil ==> vHas(s.refs, schemaKey{ref, e}) && s.refs[schemaKey{ref, e}] == t && vHas(s.types, t.Name) && s.types[t.Name] == t
//@   ensures refs:    forall k schemaKey :: k != (schemaKey{ref, e}) || err != nil ==> vHas(s.refs, k) == old(vHas(s.refs, k)) && s.refs[k] == old(s.refs[k])
//@   ensures types:   forall n string :: n != t.Name || err != nil ==> vHas(s.types, n) == old(vHas(s.types, n)) && s.types[n] == old(s.types[n])

//@ func (s *tstorage) saveWType(parent jsonschema.Ref, ref jsonschema.Ref, t *ir.Type) (err error)
//@   requires maps: s.wtypes != nil && s.types != nil && t != nil
//@   modifies s.wtypes[*], s.types[*]
//@   ensures verdict: (err == nil) == (!old(vHas(s.wtypes, [2]jsonschema.Ref{parent, ref})) && !old(vHas(s.types, t.Name)))
//@   ensures stored:  err == nil ==> vHas(s.wtypes, [2]jsonschema.Ref{parent, ref}) && s.wtypes[[2]jsonschema.Ref{parent, ref}] == t && vHas(s.types, t.Name) && s.types[t.Name] == t
//@   ensures types:   forall n string :: n != t.Name || err != nil ==> vHas(s.types, n) == old(vHas(s.types, n)) && s.types[n] == old(s.types[n])

var _ jsonschema.Ref

// ---------------------------------------------------------------------------
// NewGenerator (C20): every failure that is attributable to the spec - parsing, IR building and ROUTING
// conflicts - is detected by NewGenerator, i.e. before cmd/ogen prepares or cleans the target directory
// (generate() in cmd/ogen calls NewGenerator first; proved there). The stages are opaque here (trusted,
// one ghost event each on the log "stage"); the contract pins down WHICH stages a successful
// NewGenerator has run, in order: the IR was built and the routes were built.
// ---------------------------------------------------------------------------

//@ func (g *Generator) makeIR(api *openapi.API) (err error)
//@   trusted opaque stage (IR building); one ghost event
//@   effect stage "ir"
//@ func (g *Generator) route() (err error)
//@   trusted opaque stage (route building: refuses conflicting templates); one ghost event
//@   effect stage "route"
//@ func expandSpec(api *openapi.API, p string) (err error)
//@   trusted opaque stage (writes the expanded spec when the option asks for it)
//@   effect stage "expand"
//@ func newTStorage() (s *tstorage)
//@   trusted constructor
//@   ensures nonnil: s != nil
//@ func (o *Options) setDefaults()
//@   trusted fills defaults of the parser options and of the logger, nothing else
//@   modifies o.Parser, o.Logger
//@ extern func jsonschema.NewExternalResolver(opts jsonschema.ExternalOptions) (r jsonschema.ExternalResolver)
//@   pure
//@ extern func parser.Parse(spec *ogen.Spec, s parser.Settings) (api *openapi.API, err error)
//@   pure

//@ func NewGenerator(spec *ogen.Spec, opts Options) (g *Generator, err error)
//@   modifies log:stage
//@   ensures routed: err == nil ==> g != nil && opts.ExpandSpec == "" ==> vSeqEq(vLogStr("stage"), vCat(old(vLogStr("stage")), []string{"ir", "route"}))
//@   ensures failed: err != nil ==> g == nil
//@   ensures nowrite_on_failure__kfExpandEarly: err != nil ==> (forall k in (len(old(vLogStr("stage"))), len(vLogStr("stage"))) :: vLogStr("stage")[k] != "expand")

var _ *ogen.Spec
var _ *openapi.API
var _ parser.Settings

//go:build verif

// Contract file of package jsonschema (build tag verif). Property C07, "reference cycles always
// terminate": every resolution step leaves the resolve context as it found it (balanced AddKey /
// Delete on every path, including every error path), so the in-progress set holds exactly the
// chain of references being resolved and the depth counter bounds its length.

package jsonschema

import "github.com/ogen-go/ogen/jsonpointer"

//@ use errors
//@ puremethod ResolveReference

// The parser proper (about 900 lines, mutually recursive with resolve) is outside the verifier's
// reach. ASSUMED: it leaves the resolve context as it found it. By induction on the nesting depth
// this is exactly what is PROVED for resolve below (parse1 touches the context only through
// resolve), so the assumption is the induction hypothesis, not an independent fact; it is listed.
//@ func (p *Parser) parse1(schema *RawSchema, ctx *jsonpointer.ResolveCtx, hook func(*Schema) *Schema) (s *Schema, err error)
//@   trusted induction hypothesis: nested resolution leaves the resolve context balanced
//@   modifies ctx.depthLimit, ctx.refs[*], ctx.locstack, p.refcache[*]
//@   ensures depth: jsonpointer.VerifDepth(ctx) == old(jsonpointer.VerifDepth(ctx))
//@   ensures stack: jsonpointer.VerifStack(ctx) == old(jsonpointer.VerifStack(ctx))
//@   ensures keys:  forall k jsonpointer.RefKey :: jsonpointer.VerifInProgress(ctx, k) == old(jsonpointer.VerifInProgress(ctx, k))

//@ func (p *Parser) getResolver(loc string) (r resolver, rerr error)
//@   trusted external file access and YAML decoding; does not touch any resolve context
//@   modifies p.schemas[*]

//@ func (p *Parser) resolve(ref string, ctx *jsonpointer.ResolveCtx) (s *Schema, rerr error)
//@   requires ctx:   ctx != nil && jsonpointer.VerifWF(ctx) && p.refcache != nil && p.schemas != nil
//@   requires room:  jsonpointer.VerifDepth(ctx) < 9223372036854775807
//@   requires stack: jsonpointer.VerifStack(ctx) >= 0
//@   modifies ctx.depthLimit, ctx.refs[*], ctx.locstack, p.refcache[*], p.schemas[*]
//@   ensures depth: jsonpointer.VerifDepth(ctx) == old(jsonpointer.VerifDepth(ctx))
//@   ensures keys:  forall k jsonpointer.RefKey :: jsonpointer.VerifInProgress(ctx, k) == old(jsonpointer.VerifInProgress(ctx, k))
//@   ensures stack: jsonpointer.VerifStack(ctx) == old(jsonpointer.VerifStack(ctx))

var _ jsonpointer.RefKey

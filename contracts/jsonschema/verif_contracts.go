//go:build verif

// Contract file of package jsonschema (build tag verif). Property C07, "reference cycles always
// terminate": every resolution step leaves the resolve context as it found it (balanced AddKey /
// Delete on every path, including every error path), so the in-progress set holds exactly the
// chain of references being resolved and the depth counter bounds its length.

package jsonschema

import (
	"fmt"

	ogenjson "github.com/ogen-go/ogen/json"
	"github.com/ogen-go/ogen/jsonpointer"
	"github.com/ogen-go/ogen/location"
)

//@ use errors
//@ use fmt
//@ puremethod ResolveReference

// The parser proper (about 900 lines, mutually recursive with resolve) is outside the verifier's
// reach. ASSUMED: it leaves the resolve context as it found it. By induction on the nesting depth
// this is exactly what is PROVED for resolve below (parse1 touches the context only through
// resolve), so the assumption is the induction hypothesis, not an independent fact; it is listed.
//@ func (p *Parser) parse1(schema *RawSchema, ctx *jsonpointer.ResolveCtx, hook func(*Schema) *Schema) (s *Schema, err error)
//@   trusted induction hypothesis: nested resolution leaves the resolve context balanced
//@   modifies ctx.depthLimit, ctx.refs[*], ctx.locstack, p.refcache[*]
//@   ensures depth: jsonpointer.VerifDepth(ctx) == old(jsonpointer.VerifDepth(ctx))
//@   ensures stack: jsonpointer.VerifStack(ctx) == old(jsonpointer.VerifStack(ctx))
//@   ensures keys:  forall k jsonpointer.RefKey :: jsonpointer.VerifInProgress(ctx, k) == old(jsonpointer.VerifInProgress(ctx, k))

//@ func (p *Parser) getResolver(loc string) (r resolver, rerr error)
//@   trusted external file access and YAML decoding; does not touch any resolve context
//@   modifies p.schemas[*]

//@ func (p *Parser) resolve(ref string, ctx *jsonpointer.ResolveCtx) (s *Schema, rerr error)
//@   requires ctx:   ctx != nil && jsonpointer.VerifWF(ctx) && p.refcache != nil && p.schemas != nil
//@   requires room:  jsonpointer.VerifDepth(ctx) < 9223372036854775807
//@   requires stack: jsonpointer.VerifStack(ctx) >= 0
//@   modifies ctx.depthLimit, ctx.refs[*], ctx.locstack, p.refcache[*], p.schemas[*]
//@   ensures depth: jsonpointer.VerifDepth(ctx) == old(jsonpointer.VerifDepth(ctx))
//@   ensures keys:  forall k jsonpointer.RefKey :: jsonpointer.VerifInProgress(ctx, k) == old(jsonpointer.VerifInProgress(ctx, k))
//@   ensures stack: jsonpointer.VerifStack(ctx) == old(jsonpointer.VerifStack(ctx))

var _ jsonpointer.RefKey

// ---------------------------------------------------------------------------
// C18, last sentence: "a schema is rejected for duplicate enum values exactly when two members are the
// same value". The duplicate scan is a section of parse1 (which as a whole is outside the verifier's
// reach: ranges over maps, closures, 150 lines); the section - the nested loop over the enum members -
// is extracted MECHANICALLY on every run, verbatim, as a function of its own (directive below; only the
// return statement is rewritten, from parse1's two results to one), and put under contract:
// it returns an error exactly when two DIFFERENT positions hold members that json.Equal calls equal
// (json.Equal's number comparison is proved sound and complete under C18's equalNumber contract).
// ---------------------------------------------------------------------------

//@ extract verifEnumDuplicates(p *Parser, ctx *jsonpointer.ResolveCtx, enum Enum, loc location.Locator) (err error)
//@ xfrom parser.go (*Parser).parse1
//@ xstmt for i, a := range enum {
//@ xrewrite return nil, me => return me
//@ xtail return nil

// sameJSON: the verdict of json.Equal (errors count as "not equal", as parse1 ignores them).
func sameJSON(a, b []byte) bool {
	ok, _ := ogenjson.Equal(a, b)
	return ok
}

//@ func sameJSON(a []byte, b []byte) (r bool)
//@   trusted wrapper around json.Equal (package json; number comparison verified there), an uninterpreted relation here
//@   pure

//@ extern func ogenjson.Equal(a []byte, b []byte) (ok bool, err error)
//@   pure
//@   ensures rel: ok == sameJSON(a, b)

// Error reporting helpers: no effect the contract talks about.
//@ func (p *Parser) file(ctx *jsonpointer.ResolveCtx) (f location.File)
//@   trusted reads the resolve context only
//@   pure
//@ extern func (l location.Locator) Index(idx int) (loc location.Locator)
//@   pure
//@ extern func (e *location.MultiError) Report(file location.File, l location.Locator, msg string)

//@ func verifEnumDuplicates(p *Parser, ctx *jsonpointer.ResolveCtx, enum Enum, loc location.Locator) (err error)
//@   requires recv: p != nil
//@   ensures dup:   err != nil ==> (exists i in (0, len(enum)) :: exists j in (0, len(enum)) :: i != j && sameJSON(enum[i], enum[j]))
//@   ensures nodup: err == nil ==> (forall i in (0, len(enum)) :: forall j in (0, len(enum)) :: i != j ==> !sameJSON(enum[i], enum[j]))
//@   loop 0 vars rangeindex int
//@   loop 0 invariant range: -1 <= rangeindex && rangeindex < len(enum)
//@   loop 0 invariant seen:  forall i in (0, rangeindex+1) :: forall j in (0, len(enum)) :: i != j ==> !sameJSON(enum[i], enum[j])
//@   loop 0 decreases len(enum) - rangeindex
//@   loop 1 vars rangeindex int, rangeindex_L0 int
//@   loop 1 invariant range: -1 <= rangeindex && rangeindex < len(enum)
//@   loop 1 invariant row:   forall j in (0, rangeindex+1) :: rangeindex_L0+1 != j ==> !sameJSON(enum[rangeindex_L0+1], enum[j])
//@   loop 1 decreases len(enum) - rangeindex

var _ = fmt.Sprintf
var _ location.File

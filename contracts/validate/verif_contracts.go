//go:build verif

// Contract file of package validate (build tag verif): the validator primitives against the
// JSON Schema keyword semantics (draft-4 boolean exclusive bounds, as OpenAPI 3.0 uses them).

package validate

import (
	"math"
	"math/big"
)

var _ = math.IsNaN

//@ use errors

// specAbs: |v| as a mathematical integer (fits uint64: |MinInt64| = 2^63).
func specAbs(v int64) uint64 {
	if v < 0 {
		return uint64(-(v + 1)) + 1
	}
	return uint64(v)
}

// specIntValid: JSON Schema validity of the integer instance v.
func specIntValid(t Int, v int64) bool {
	if t.MinSet && (v < t.Min || t.MinExclusive && v == t.Min) {
		return false
	}
	if t.MaxSet && (v > t.Max || t.MaxExclusive && v == t.Max) {
		return false
	}
	return !t.MultipleOfSet || specAbs(v)%t.MultipleOf == 0
}

func specLenValid(t Array, n int) bool {
	return !(t.MaxLengthSet && n > t.MaxLength) && !(t.MinLengthSet && n < t.MinLength)
}

func specPropsValid(t Object, n int) bool {
	return !(t.MaxPropertiesSet && n > t.MaxProperties) && !(t.MinPropertiesSet && n < t.MinProperties)
}

//@ func (t Int) Validate(v int64) (err error)
//@   wraparound v *= -1 relies on two's-complement wrap for MinInt64; arithmetic is translated wrap-exact
//@   requires divisor: t.MultipleOfSet ==> t.MultipleOf > 0
//@   ensures iff: (err == nil) == specIntValid(t, v)
//@ func (t Int) Set() (r bool)
//@   ensures spec: r == (t.MinSet || t.MaxSet || t.MultipleOfSet)
//@ func (t *Int) SetMultipleOf(v uint64)
//@   modifies t.MultipleOfSet, t.MultipleOf
//@   ensures set: t.MultipleOfSet && t.MultipleOf == v
//@ func (t *Int) SetMinimum(v int64)
//@   modifies t.Min, t.MinSet
//@   ensures set: t.MinSet && (v != v || t.Min == v)
//@ func (t *Int) SetMaximum(v int64)
//@   modifies t.Max, t.MaxSet
//@   ensures set: t.MaxSet && (v != v || t.Max == v)
//@ func (t *Int) SetExclusiveMinimum(v int64)
//@   modifies t.Min, t.MinSet, t.MinExclusive
//@   ensures set: t.MinSet && t.Min == v && t.MinExclusive
//@ func (t *Int) SetExclusiveMaximum(v int64)
//@   modifies t.Max, t.MaxSet, t.MaxExclusive
//@   ensures set: t.MaxSet && t.Max == v && t.MaxExclusive

//@ func (t Array) ValidateLength(v int) (err error)
//@   ensures iff: (err == nil) == specLenValid(t, v)
// String: length bounds count CHARACTERS (runes), JSON Schema 6.3.1/6.3.2; the format checks
// (email, hostname, regex) are not under contract: the clause is for validators without them.
//@ func (t String) checkEmail(v string) (err error)
//@   trusted not under contract (range over runes, unicode tables); unreachable under String.Validate's precondition
//@ func (t String) checkHostname(v string) (err error)
//@   trusted not under contract (range over runes, unicode tables); unreachable under String.Validate's precondition
//@ func (t String) Validate(v string) (err error)
//@   requires plain: !t.Email && !t.Hostname && t.Regex == nil
//@   ensures iff: (err == nil) == (!(t.MaxLengthSet && len([]rune(v)) > t.MaxLength) && !(t.MinLengthSet && len([]rune(v)) < t.MinLength))
//@ func (t Array) Set() (r bool)
//@   ensures spec: r == (t.MaxLengthSet || t.MinLengthSet || t.UniqueItems)
//@ func (t *Array) SetMaxLength(v int)
//@   modifies t.MaxLengthSet, t.MaxLength
//@   ensures set: t.MaxLengthSet && t.MaxLength == v
//@ func (t *Array) SetMinLength(v int)
//@   modifies t.MinLengthSet, t.MinLength
//@   ensures set: t.MinLengthSet && t.MinLength == v
//@ func (t *Array) SetUniqueItems(v bool)
//@   modifies t.UniqueItems
//@   ensures set: t.UniqueItems == v

//@ func (t Object) ValidateProperties(v int) (err error)
//@   ensures iff: (err == nil) == specPropsValid(t, v)
//@ func (t Object) Set() (r bool)
//@   ensures spec: r == (t.MaxPropertiesSet || t.MinPropertiesSet)
//@ func (t *Object) SetMinProperties(v int)
//@   modifies t.MinPropertiesSet, t.MinProperties
//@   ensures set: t.MinPropertiesSet && t.MinProperties == v
//@ func (t *Object) SetMaxProperties(v int)
//@   modifies t.MaxPropertiesSet, t.MaxProperties
//@   ensures set: t.MaxPropertiesSet && t.MaxProperties == v

// ---------------------------------------------------------------------------
// Float validators (C03): numeric bounds with the draft-4 boolean exclusive flags, and multipleOf as an
// EXACT rational test. Floating-point comparisons are the Go operators themselves (uninterpreted
// orderings in the proofs); math/big is modelled functionally (a *big.Rat denotes a value:
// SetFloat64 = the exact rational of the float, Quo = the quotient, IsInt = "is an integer"), so the
// contract pins down that a value is accepted exactly when value/multipleOf is an integer - no tolerance.
// ---------------------------------------------------------------------------

func ratOfFloat(v float64) *big.Rat { return new(big.Rat).SetFloat64(v) }

//@ func ratOfFloat(v float64) (r *big.Rat)
//@   trusted the exact rational value of a finite float (big.Rat.SetFloat64), an uninterpreted function here
//@   pure
//@   ensures nonnil: r != nil

func ratQuo(x, y *big.Rat) *big.Rat { return new(big.Rat).Quo(x, y) }

//@ func ratQuo(x *big.Rat, y *big.Rat) (r *big.Rat)
//@   trusted the quotient of two rationals (big.Rat.Quo), an uninterpreted function here
//@   pure
//@   ensures nonnil: r != nil

//@ extern func (z *big.Rat) SetFloat64(f float64) (r *big.Rat)
//@   pure
//@   ensures value: r == ratOfFloat(f)
//@ extern func (z *big.Rat) Quo(x *big.Rat, y *big.Rat) (r *big.Rat)
//@   pure
//@   ensures value: r == ratQuo(x, y)
//@ extern func (x *big.Rat) IsInt() (r bool)
//@   pure
//@ extern func (x *big.Rat) RatString() (s string)
//@   pure

// specFloatValid: JSON Schema validity of a number against the keywords held by t.
func specFloatValid(t Float, v float64) bool {
	if t.MinSet && (v < t.Min || t.MinExclusive && v == t.Min) {
		return false
	}
	if t.MaxSet && (v > t.Max || t.MaxExclusive && v == t.Max) {
		return false
	}
	return !t.MultipleOfSet || ratQuo(ratOfFloat(v), t.MultipleOf).IsInt()
}

//@ func (t Float) validate(v float64) (err error)
//@   requires divisor: t.MultipleOfSet ==> t.MultipleOf != nil
//@   ensures iff: (err == nil) == specFloatValid(t, v)
//@ func (t Float) ValidateStringified(v float64) (err error)
//@   requires divisor: t.MultipleOfSet ==> t.MultipleOf != nil
//@   ensures iff: (err == nil) == specFloatValid(t, v)
//@ func (t Float) Set() (r bool)
//@   ensures spec: r == (t.MinSet || t.MaxSet || t.MultipleOfSet)
//@ func (t *Float) SetMinimum(v float64)
//@   modifies t.Min, t.MinSet
//@   ensures set: t.MinSet && (v != v || t.Min == v)
//@ func (t *Float) SetMaximum(v float64)
//@   modifies t.Max, t.MaxSet
//@   ensures set: t.MaxSet && (v != v || t.Max == v)
//@ func (t *Float) SetExclusiveMinimum(v float64)
//@   modifies t.Min, t.MinSet, t.MinExclusive
//@   ensures set: t.MinSet && t.MinExclusive && (v != v || t.Min == v)
//@ func (t *Float) SetExclusiveMaximum(v float64)
//@   modifies t.Max, t.MaxSet, t.MaxExclusive
//@   ensures set: t.MaxSet && t.MaxExclusive && (v != v || t.Max == v)

//@ extern func math.IsNaN(f float64) (r bool)
//@   pure
//@ extern func math.IsInf(f float64, sign int) (r bool)
//@   pure

//@ func (t Float) Validate(v float64) (err error)
//@   requires divisor: t.MultipleOfSet ==> t.MultipleOf != nil
//@   ensures sound:    err == nil ==> specFloatValid(t, v) && !math.IsNaN(v) && !math.IsInf(v, 0)
//@   ensures complete: specFloatValid(t, v) && !math.IsNaN(v) && !math.IsInf(v, 0) ==> err == nil

//go:build verif

// Contracts for package ogenregex (property C08): engine selection and String().
//
// What is decided here: Compile keeps the ORIGINAL pattern text observable through String()
// whichever engine runs it; the linear-time engine is used only when Convert reports a faithful
// conversion (ok) and only with Convert's output; every other pattern is compiled by the
// backtracking ECMAScript engine from the original text, with the ECMAScript|Unicode options.
// What is NOT decided: that Convert's output accepts the same language (see DESIGN.md, C08): Convert
// enters as an uninterpreted function.

package ogenregex

import (
	"regexp"

	"github.com/dlclark/regexp2"
)

//@ use errors

// Convert: out of the verifier's reach (hand-written scanner over runes with a mutable parser
// object, ~400 lines); here it is an uninterpreted pure function (its two results).
//@ func Convert(pattern string) (out string, ok bool)
//@   trusted not verified: language equivalence of the conversion is covered by the bounded stand-in only
//@   pure

// regexp.Compile: the compiled object remembers its source (regexp.Regexp.String, stdlib doc).
//@ extern func regexp.Compile(expr string) (re *regexp.Regexp, err error)
//@   ensures ok:  err == nil ==> re != nil && re.String() == expr
//@   ensures bad: err != nil ==> re == nil
//@ extern func (re *regexp.Regexp) String() (s string)
//@   observer String

// regexp2.Compile: Regexp.String() returns the pattern it was compiled from. The fallback engine is
// only specified for the ECMAScript|Unicode dialect, so the dialect is a PRECONDITION of the assumed
// contract: every call site has to prove it passes exactly these options.
//@ extern func regexp2.Compile(expr string, opt regexp2.RegexOptions) (re *regexp2.Regexp, err error)
//@   requires dialect: int(opt) == int(regexp2.ECMAScript|regexp2.Unicode)
//@   fresh re
//@   ensures ok:  err == nil ==> re != nil && re.String() == expr
//@   ensures bad: err != nil ==> re == nil
//@ extern func (re *regexp2.Regexp) String() (s string)
//@   observer String

func isGoRegexp(r Regexp) bool {
	_, ok := r.(goRegexp)
	return ok
}

func isRegexp2(r Regexp) bool {
	_, ok := r.(regexp2Regexp)
	return ok
}

func goSource(r Regexp) string {
	g, ok := r.(goRegexp)
	if !ok || g.exp == nil {
		return ""
	}
	return g.exp.String()
}

func re2Source(r Regexp) string {
	g, ok := r.(regexp2Regexp)
	if !ok || g.exp == nil {
		return ""
	}
	return g.exp.String()
}

// specString: what r.String() returns, by the contracts of the two String methods below (dynamic
// dispatch on the two implementations of Regexp).
func specString(r Regexp) string {
	if g, ok := r.(goRegexp); ok {
		return g.orig
	}
	return re2Source(r)
}

func convOut(p string) string {
	out, _ := Convert(p)
	return out
}

func convOK(p string) bool {
	_, ok := Convert(p)
	return ok
}

//@ func Compile(exp string) (r Regexp, err error)
//@   ensures total:     (err == nil) != (r == nil)
//@   ensures source:    err == nil ==> specString(r) == exp
//@   ensures engine:    err == nil ==> isGoRegexp(r) || isRegexp2(r)
//@   ensures linear:    err == nil && isGoRegexp(r) ==> convOK(exp) && goSource(r) == convOut(exp)
//@   ensures fallback:  err == nil && !convOK(exp) ==> isRegexp2(r)
//@   ensures original:  err == nil && isRegexp2(r) ==> re2Source(r) == exp

//@ func (r goRegexp) String() (s string)
//@   pure
//@   ensures orig: s == r.orig

//@ func (r regexp2Regexp) String() (s string)
//@   pure
//@   requires nonnil: r.exp != nil
//@   ensures src: s == r.exp.String()

var _ = regexp.Compile
var _ = regexp2.ECMAScript

// VerifSource: exported view of specString for the contracts of other packages - the original pattern
// text a compiled expression executes (whichever engine was selected).
func VerifSource(r Regexp) string { return specString(r) }

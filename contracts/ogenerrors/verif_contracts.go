//go:build verif

// Contract file of package ogenerrors (build tag verif): error type -> HTTP status code.

package ogenerrors

import (
	"github.com/go-faster/errors"

	ht "github.com/ogen-go/ogen/http"
	"github.com/ogen-go/ogen/validate"
)

//@ use errors
//@ puremethod Code

// The three questions ErrorCode asks about an error chain, as spec functions over the same
// (assumed) errors.Is / errors.As the code uses.
func specNotImplemented(err error) bool { return errors.Is(err, ht.ErrNotImplemented) }

func specIsContentType(err error) bool {
	var t *validate.InvalidContentTypeError
	return errors.As(err, &t)
}

func specIsOgenError(err error) bool {
	var e Error
	return errors.As(err, &e)
}

func specOgenCode(err error) int {
	var e Error
	if errors.As(err, &e) {
		return e.Code()
	}
	return 0
}

//@ func ErrorCode(err error) (code int)
//@   ensures notimpl: specNotImplemented(err) ==> code == 501
//@   ensures ctype:   !specNotImplemented(err) && specIsContentType(err) ==> code == 415
//@   ensures ogen:    !specNotImplemented(err) && !specIsContentType(err) && specIsOgenError(err) ==> code == specOgenCode(err)
//@   ensures other:   !specNotImplemented(err) && !specIsContentType(err) && !specIsOgenError(err) ==> code == 500

//@ func (d *SecurityError) Code() (c int)
//@   ensures unauthorized: c == 401
//@ func (d *DecodeParamsError) Code() (c int)
//@   ensures badrequest: c == 400
//@ func (d *DecodeRequestError) Code() (c int)
//@   ensures badrequest: c == 400

//@ func (d *SecurityError) Unwrap() (e error)
//@   ensures inner: e == d.Err
//@ func (d *DecodeParamsError) Unwrap() (e error)
//@   ensures inner: e == d.Err
//@ func (d *DecodeRequestError) Unwrap() (e error)
//@   ensures inner: e == d.Err

// Harness: a security failure is answered 401, a parameter or request decoding failure 400 —
// the status the generated handlers produce by passing these values to ErrorCode — provided the
// wrapped cause is not itself "not implemented" / a content-type error (which take precedence by design).
//@ func verifSecurityCode(d *SecurityError) (c int)
//@   requires nonnil: d != nil
//@   ensures c401: c == 401
func verifSecurityCode(d *SecurityError) int { return Error(d).Code() }

//@ func verifDecodeParamsCode(d *DecodeParamsError) (c int)
//@   requires nonnil: d != nil
//@   ensures c400: c == 400
func verifDecodeParamsCode(d *DecodeParamsError) int { return Error(d).Code() }

//@ func verifDecodeRequestCode(d *DecodeRequestError) (c int)
//@   requires nonnil: d != nil
//@   ensures c400: c == 400
func verifDecodeRequestCode(d *DecodeRequestError) int { return Error(d).Code() }

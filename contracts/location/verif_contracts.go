//go:build verif

// Contracts for package location (property C11, the part within reach: the functions that turn a
// YAML node / byte offset into the reported line and column never panic and report a position
// inside the node they were asked about).

package location

import (
	"bytes"

	"github.com/go-faster/yaml"
)

//@ use bytes

// ---------------------------------------------------------------------------
// Lines: newline index of a document
// ---------------------------------------------------------------------------

// wfLines: representation invariant established by Collect: lines holds exactly the offsets of
// the '\n' bytes of data, in increasing order.
func wfLines(data []byte, lines []int) bool {
	return vForallIn(0, len(lines), func(i int) bool {
		return 0 <= lines[i] && lines[i] < len(data) && data[lines[i]] == '\n' && (i == 0 || lines[i-1] < lines[i])
	})
}

// specNL: the offsets (shifted by base) of the '\n' bytes of data, in order (spec function).
func specNL(data []byte, base int) []int {
	k := indexBS(data, '\n')
	if k < 0 {
		return nil
	}
	return vCat([]int{base + k}, specNL(data[k+1:], base+k+1))
}

//@ func (l *Lines) Collect(data []byte)
//@   modifies l.data, l.lines
//@   ensures data:     vSeqEq(l.data, data)
//@   ensures wf:       wfLines(l.data, l.lines)
//@   ensures exact:    vSeqEq(l.lines, specNL(l.data, 0))
//@   uses indexBSRange
//@   loop 0 vars remain []byte, offset int
//@   loop 0 modifies l.lines
//@   loop 0 invariant off:    0 <= offset && offset <= len(data) && vSeqEq(remain, data[offset:])
//@   loop 0 invariant data:   vSeqEq(l.data, data)
//@   loop 0 invariant wf:     wfLines(data, l.lines)
//@   loop 0 invariant last:   len(l.lines) > 0 ==> l.lines[len(l.lines)-1] < offset
//@   loop 0 invariant acc:    vSeqEq(vCat(l.lines, specNL(remain, offset)), specNL(data, 0))
//@   loop 0 decreases len(data) - offset

//@ func (l Lines) Line(n int) (start int, end int)
//@   requires wf:   wfLines(l.data, l.lines)
//@   requires sane: n > -(1 << 62)
//@   ensures invalid: n < 1 ==> start == -1 && end == -1
//@   ensures inside:  n >= 1 ==> 0 <= start && start <= end && end <= len(l.data)
//@   ensures first:   n == 1 ==> start == 0
//@   ensures lineEnd: n >= 1 && n <= len(l.lines) ==> end == l.lines[n-1]
//@   ensures lastEnd: n > len(l.lines) ==> end == len(l.data)

// ---------------------------------------------------------------------------
// Position: navigation in the YAML tree
// ---------------------------------------------------------------------------

// The mapping node the position designates (through a document node), or nil.
func specMapping(n *yaml.Node) *yaml.Node {
	if n != nil && n.Kind == yaml.DocumentNode {
		if len(n.Content) < 1 {
			return nil
		}
		n = n.Content[0]
	}
	if n == nil || n.Kind != yaml.MappingNode || len(n.Content) < 2 {
		return nil
	}
	return n
}

// wfMapping: a mapping node produced by the YAML parser holds key/value PAIRS and no nil children
// (type invariant of yaml.Node as the decoder builds it; stated as a precondition).
func wfChildren(c []*yaml.Node) bool {
	return len(c)%2 == 0 && vForallIn(0, len(c), func(i int) bool { return c[i] != nil })
}

// firstKey: index of the first pair whose key scalar equals key, or -1.
func firstKey(c []*yaml.Node, key string, from int) int {
	if from+1 >= len(c) {
		return -1
	}
	if c[from] != nil && c[from].Value == key {
		return from
	}
	return firstKey(c, key, from+2)
}

//@ func (p *Position) FromNode(node *yaml.Node)
//@   requires nonnil: node != nil
//@   modifies *p
//@   ensures pos: p.Line == node.Line && p.Column == node.Column && p.Node == node

//@ func (p Position) mapping() (c []*yaml.Node, ok bool)
//@   ensures ok:  ok == (specMapping(p.Node) != nil)
//@   ensures hit: ok ==> vSeqEq(c, specMapping(p.Node).Content) && len(c) >= 2

//@ func (p Position) Field(key string) (loc Position)
//@   requires pairs: specMapping(p.Node) != nil ==> wfChildren(specMapping(p.Node).Content)
//@   ensures notmap: specMapping(p.Node) == nil ==> loc.Node == nil && loc.Line == 0 && loc.Column == 0
//@   ensures miss:   specMapping(p.Node) != nil && firstKey(specMapping(p.Node).Content, key, 0) < 0 ==> loc == p
//@   ensures hit:    specMapping(p.Node) != nil && firstKey(specMapping(p.Node).Content, key, 0) >= 0 ==>
//@                     loc.Node == specMapping(p.Node).Content[firstKey(specMapping(p.Node).Content, key, 0)+1] &&
//@                     loc.Line == loc.Node.Line && loc.Column == loc.Node.Column
//@   loop 0 vars i int
//@   loop 0 invariant range: 0 <= i && i%2 == 0 && i <= len(specMapping(p.Node).Content)
//@   loop 0 invariant none:  firstKey(specMapping(p.Node).Content, key, 0) == firstKey(specMapping(p.Node).Content, key, i)
//@   loop 0 decreases len(specMapping(p.Node).Content) - i

//@ func (p Position) Key(key string) (loc Position)
//@   requires pairs: specMapping(p.Node) != nil ==> wfChildren(specMapping(p.Node).Content)
//@   ensures notmap: specMapping(p.Node) == nil ==> loc.Node == nil && loc.Line == 0 && loc.Column == 0
//@   ensures miss:   specMapping(p.Node) != nil && firstKey(specMapping(p.Node).Content, key, 0) < 0 ==> loc == p
//@   ensures hit:    specMapping(p.Node) != nil && firstKey(specMapping(p.Node).Content, key, 0) >= 0 ==>
//@                     loc.Node == specMapping(p.Node).Content[firstKey(specMapping(p.Node).Content, key, 0)] &&
//@                     loc.Line == loc.Node.Line && loc.Column == loc.Node.Column
//@   loop 0 vars i int
//@   loop 0 invariant range: 0 <= i && i%2 == 0 && i <= len(specMapping(p.Node).Content)
//@   loop 0 invariant none:  firstKey(specMapping(p.Node).Content, key, 0) == firstKey(specMapping(p.Node).Content, key, i)
//@   loop 0 decreases len(specMapping(p.Node).Content) - i

// The sequence node the position designates (through a document node), or nil.
func specSequence(n *yaml.Node) *yaml.Node {
	if n != nil && n.Kind == yaml.DocumentNode {
		if len(n.Content) < 1 {
			return nil
		}
		n = n.Content[0]
	}
	if n == nil || n.Kind != yaml.SequenceNode {
		return nil
	}
	return n
}

//@ func (p Position) Index(idx int) (loc Position)
//@   requires nonnil: specSequence(p.Node) != nil ==> vForallIn(0, len(specSequence(p.Node).Content), func(i int) bool { return specSequence(p.Node).Content[i] != nil })
//@   ensures miss: specSequence(p.Node) == nil || idx < 0 || idx >= len(specSequence(p.Node).Content) ==> loc == p
//@   ensures hit:  specSequence(p.Node) != nil && 0 <= idx && idx < len(specSequence(p.Node).Content) ==>
//@                   loc.Node == specSequence(p.Node).Content[idx] && loc.Line == loc.Node.Line && loc.Column == loc.Node.Column

// ---------------------------------------------------------------------------
// Locator: optional position; navigation keeps "set" and delegates to Position
// ---------------------------------------------------------------------------

//@ func (l *Locator) SetPosition(loc Position)
//@   modifies l.position, l.set
//@   ensures set: l.set && l.position == loc

//@ func (l Locator) Field(key string) (loc Locator)
//@   requires pairs: l.set && specMapping(l.position.Node) != nil ==> wfChildren(specMapping(l.position.Node).Content)
//@   ensures unset:  !l.set ==> !loc.set && loc.position.Node == nil
//@   ensures set:    l.set ==> loc.set
//@   ensures notmap: l.set && specMapping(l.position.Node) == nil ==> loc.position.Node == nil && loc.position.Line == 0
//@   ensures miss:   l.set && specMapping(l.position.Node) != nil && firstKey(specMapping(l.position.Node).Content, key, 0) < 0 ==> loc.position == l.position
//@   ensures hit:    l.set && specMapping(l.position.Node) != nil && firstKey(specMapping(l.position.Node).Content, key, 0) >= 0 ==>
//@                     loc.position.Node == specMapping(l.position.Node).Content[firstKey(specMapping(l.position.Node).Content, key, 0)+1] &&
//@                     loc.position.Line == loc.position.Node.Line && loc.position.Column == loc.position.Node.Column

//@ func (l Locator) Key(key string) (loc Locator)
//@   requires pairs: l.set && specMapping(l.position.Node) != nil ==> wfChildren(specMapping(l.position.Node).Content)
//@   ensures unset:  !l.set ==> !loc.set && loc.position.Node == nil
//@   ensures set:    l.set ==> loc.set
//@   ensures miss:   l.set && specMapping(l.position.Node) != nil && firstKey(specMapping(l.position.Node).Content, key, 0) < 0 ==> loc.position == l.position
//@   ensures hit:    l.set && specMapping(l.position.Node) != nil && firstKey(specMapping(l.position.Node).Content, key, 0) >= 0 ==>
//@                     loc.position.Node == specMapping(l.position.Node).Content[firstKey(specMapping(l.position.Node).Content, key, 0)] &&
//@                     loc.position.Line == loc.position.Node.Line && loc.position.Column == loc.position.Node.Column

//@ func (l Locator) Index(idx int) (loc Locator)
//@   requires nonnil: l.set && specSequence(l.position.Node) != nil ==> vForallIn(0, len(specSequence(l.position.Node).Content), func(i int) bool { return specSequence(l.position.Node).Content[i] != nil })
//@   ensures unset: !l.set ==> !loc.set
//@   ensures set:   l.set ==> loc.set
//@   ensures miss:  l.set && (specSequence(l.position.Node) == nil || idx < 0 || idx >= len(specSequence(l.position.Node).Content)) ==> loc.position == l.position
//@   ensures hit:   l.set && specSequence(l.position.Node) != nil && 0 <= idx && idx < len(specSequence(l.position.Node).Content) ==>
//@                    loc.position.Node == specSequence(l.position.Node).Content[idx] && loc.position.Line == loc.position.Node.Line

//@ func (l *Locator) UnmarshalYAML(n *yaml.Node) (err error)
//@   requires node: n != nil
//@   modifies l.position, l.set
//@   ensures ok:  err == nil && l.set && l.position.Node == n && l.position.Line == n.Line && l.position.Column == n.Column

var _ = bytes.IndexByte

package eng

// interval.go: a small interval analysis used while translating. Its only purpose is to avoid
// emitting `mod 2^w` wrappers around unsigned arithmetic that provably does not wrap on the
// current path (e.g. c - 'a' + 10 under 'a' <= c <= 'f'); the wrapped and the unwrapped term
// denote the same value there, so eliding the wrapper is exact, and queries without div/mod are
// far more stable.

import (
	"go/types"
	"math/big"
)

type ival struct{ lo, hi *big.Int } // nil = unbounded

func (a ival) within(lo, hi *big.Int) bool {
	return a.lo != nil && a.hi != nil && a.lo.Cmp(lo) >= 0 && a.hi.Cmp(hi) <= 0
}

func meet(a, b ival) ival {
	r := a
	if b.lo != nil && (r.lo == nil || b.lo.Cmp(r.lo) > 0) {
		r.lo = b.lo
	}
	if b.hi != nil && (r.hi == nil || b.hi.Cmp(r.hi) < 0) {
		r.hi = b.hi
	}
	return r
}

func hull(a, b ival) ival {
	var r ival
	if a.lo != nil && b.lo != nil {
		r.lo = a.lo
		if b.lo.Cmp(a.lo) < 0 {
			r.lo = b.lo
		}
	}
	if a.hi != nil && b.hi != nil {
		r.hi = a.hi
		if b.hi.Cmp(a.hi) > 0 {
			r.hi = b.hi
		}
	}
	return r
}

// noteRange records the type range of an atom term of Go integer type t.
func (f *frame) noteRange(x *Term, t types.Type) {
	if x == nil || x.Sort != SInt || x.Int != nil {
		return
	}
	lo, hi, ok := intRange(t)
	if !ok {
		return
	}
	f.noteIval(x, ival{lo, hi})
}

// rangeEnv holds the intervals known for terms within one verification context (one function under
// proof, one spec-function definition, one axiom). Term names such as param!v are reused between
// contexts, so the table must never be shared between them.
type rangeEnv struct {
	m map[string]ival
}

func newRangeEnv() *rangeEnv { return &rangeEnv{m: map[string]ival{}} }

// noteIval records a derived interval for a term.
func (f *frame) noteIval(x *Term, iv ival) {
	if x == nil || x.Sort != SInt || x.Int != nil {
		return
	}
	if f.ranges == nil {
		f.ranges = newRangeEnv()
	}
	k := x.String()
	f.ranges.m[k] = meet(f.ranges.m[k], iv)
}

func (f *frame) ivalOf(t *Term) ival {
	if t.Int != nil {
		return ival{t.Int, t.Int}
	}
	var r ival
	if f.bounds != nil {
		if b, ok := f.bounds[t.String()]; ok {
			r = b
		}
	}
	if f.ranges != nil {
		if b, ok := f.ranges.m[t.String()]; ok {
			r = meet(r, b)
		}
	}
	switch t.Op {
	case "+":
		a, b := f.ivalOf(t.Args[0]), f.ivalOf(t.Args[1])
		var c ival
		if a.lo != nil && b.lo != nil {
			c.lo = new(big.Int).Add(a.lo, b.lo)
		}
		if a.hi != nil && b.hi != nil {
			c.hi = new(big.Int).Add(a.hi, b.hi)
		}
		r = meet(r, c)
	case "-":
		if len(t.Args) == 2 {
			a, b := f.ivalOf(t.Args[0]), f.ivalOf(t.Args[1])
			var c ival
			if a.lo != nil && b.hi != nil {
				c.lo = new(big.Int).Sub(a.lo, b.hi)
			}
			if a.hi != nil && b.lo != nil {
				c.hi = new(big.Int).Sub(a.hi, b.lo)
			}
			r = meet(r, c)
		}
	case "*":
		a, b := f.ivalOf(t.Args[0]), f.ivalOf(t.Args[1])
		if a.lo != nil && a.hi != nil && b.lo != nil && b.hi != nil {
			ps := []*big.Int{new(big.Int).Mul(a.lo, b.lo), new(big.Int).Mul(a.lo, b.hi), new(big.Int).Mul(a.hi, b.lo), new(big.Int).Mul(a.hi, b.hi)}
			c := ival{ps[0], ps[0]}
			for _, p := range ps[1:] {
				if p.Cmp(c.lo) < 0 {
					c.lo = p
				}
				if p.Cmp(c.hi) > 0 {
					c.hi = p
				}
			}
			r = meet(r, c)
		}
	case "mod":
		if k := t.Args[1].Int; k != nil && k.Sign() > 0 {
			a := f.ivalOf(t.Args[0])
			km1 := new(big.Int).Sub(k, big.NewInt(1))
			if a.within(big.NewInt(0), km1) {
				r = meet(r, a)
			} else {
				r = meet(r, ival{big.NewInt(0), km1})
			}
		}
	case "div":
		if k := t.Args[1].Int; k != nil && k.Sign() > 0 {
			a := f.ivalOf(t.Args[0])
			var c ival
			if a.lo != nil {
				c.lo, _ = new(big.Int).DivMod(a.lo, k, new(big.Int))
			}
			if a.hi != nil {
				c.hi, _ = new(big.Int).DivMod(a.hi, k, new(big.Int))
			}
			r = meet(r, c)
		}
	case "ite":
		r = meet(r, hull(f.ivalOf(t.Args[1]), f.ivalOf(t.Args[2])))
	case "pow2":
		a := f.ivalOf(t.Args[0])
		if a.lo != nil && a.hi != nil && a.lo.Sign() >= 0 && a.hi.Cmp(big.NewInt(63)) <= 0 {
			r = meet(r, ival{pow2(uint(a.lo.Int64())), pow2(uint(a.hi.Int64()))})
		}
	case "bitval":
		r = meet(r, ival{big.NewInt(0), big.NewInt(1)})
	case "band8", "bor8", "bxor8", "bandnot8":
		r = meet(r, ival{big.NewInt(0), big.NewInt(255)})
	}
	if len(t.Op) > 4 && t.Op[:4] == "len." {
		r = meet(r, ival{lo: big.NewInt(0)})
	}
	if t.Op == "at.Str" {
		r = meet(r, ival{big.NewInt(0), big.NewInt(255)})
	}
	return r
}

// learn refines the path bounds from a branch condition.
func (f *frame) learn(c *Term, pos bool) {
	switch c.Op {
	case "not":
		f.learn(c.Args[0], !pos)
		return
	case "and":
		if pos {
			for _, a := range c.Args {
				f.learn(a, true)
			}
		}
		return
	case "or":
		if !pos {
			for _, a := range c.Args {
				f.learn(a, false)
			}
		}
		return
	}
	if len(c.Args) != 2 || c.Args[0].Sort != SInt {
		return
	}
	op := c.Op
	if !pos {
		switch op {
		case "<":
			op = ">="
		case "<=":
			op = ">"
		case ">":
			op = "<="
		case ">=":
			op = "<"
		case "=":
			return
		default:
			return
		}
	}
	a, b := c.Args[0], c.Args[1]
	one := big.NewInt(1)
	set := func(x *Term, iv ival) {
		if x.Int != nil {
			return
		}
		if f.bounds == nil {
			f.bounds = map[string]ival{}
		}
		f.bounds[x.String()] = meet(f.bounds[x.String()], iv)
	}
	ia, ib := f.ivalOf(a), f.ivalOf(b)
	switch op {
	case "<=":
		if ib.hi != nil {
			set(a, ival{hi: ib.hi})
		}
		if ia.lo != nil {
			set(b, ival{lo: ia.lo})
		}
	case "<":
		if ib.hi != nil {
			set(a, ival{hi: new(big.Int).Sub(ib.hi, one)})
		}
		if ia.lo != nil {
			set(b, ival{lo: new(big.Int).Add(ia.lo, one)})
		}
	case ">=":
		if ib.lo != nil {
			set(a, ival{lo: ib.lo})
		}
		if ia.hi != nil {
			set(b, ival{hi: ia.hi})
		}
	case ">":
		if ib.lo != nil {
			set(a, ival{lo: new(big.Int).Add(ib.lo, one)})
		}
		if ia.hi != nil {
			set(b, ival{hi: new(big.Int).Sub(ia.hi, one)})
		}
	case "=":
		set(a, ib)
		set(b, ia)
	}
}

// wrapT reduces x to the range of Go type t unless the interval analysis shows it is already there.
func (f *frame) wrapT(x *Term, t types.Type) *Term {
	lo, hi, ok := intRange(t)
	if !ok {
		return x
	}
	if f.ivalOf(x).within(lo, hi) {
		return x
	}
	return wrap(x, t)
}

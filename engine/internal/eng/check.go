package eng

// check.go: running one property check end to end: load, generate obligations, discharge, vacuity
// guards, known findings, evidence, exit code.

import (
	"encoding/json"
	"fmt"
	"os"
	"path/filepath"
	"sort"
	"strings"
	"sync"
	"time"
)

// PropConfig is the entry of one property in /verif/props.json.
type PropConfig struct {
	ID         string   `json:"id"`
	Packages   []string `json:"packages"`             // package directories relative to the repo root
	Contracts  []string `json:"contracts"`            // "<pkg>.<Key>" of functions / "<pkg>.lemma.<Name>" under this property ("*" = all of the packages)
	Expected   []string `json:"expected"`             // labelled obligations that must exist and be discharged (vacuity guard)
	Undecided  []string `json:"undecided_clauses"`    // sentences of the property this check does not decide
	Assume     []string `json:"assumptions"`          // property-specific assumptions (besides the global trusted base)
	Standins   []StandIn `json:"bounded_standins"`    // bounded checks that stand in for clauses out of reach (never counted as proved)
	Level      string   `json:"level"`
	Requires   []string `json:"requires_properties"`  // premises re-run by this check (e.g. C01 depends on C06, C13)
	Family     string   `json:"family,omitempty"`     // "router": verify code generated from the current templates for an enumerated family of specs
	FamilyQuick    int  `json:"family_sampled_quick,omitempty"`    // number of sampled programs besides the corner programs (quick tier)
	FamilyThorough int  `json:"family_sampled_thorough,omitempty"` // ... (thorough tier)
	FamilyNoSampled bool `json:"family_no_sampled,omitempty"` // thorough tier does not add sampled members (the proofs of some sampled shapes exceed the per-query budget)
	FamilyOnly []string `json:"family_only"` // family packages: only functions whose key contains one of these (empty = all)
}

// StandIn is a bounded check executed on the real code.
type StandIn struct {
	Name  string `json:"name"`
	Pkg   string `json:"pkg"`   // package directory
	Test  string `json:"test"`  // test function name (in /verif/standins/<pkg>/*_test.go, injected by overlay)
	Bound string `json:"bound"` // stated bound
	Quick string `json:"quick_env,omitempty"`
	Thorough string `json:"thorough_env,omitempty"`
}

// KnownFinding is an entry of /verif/known_findings.json.
type KnownFinding struct {
	Status     string   `json:"status"` // known | fixed
	Property   string   `json:"property"`
	ID         string   `json:"id"`
	Obligations []string `json:"obligations"` // obligation names this finding explains (exact)
	Class      string   `json:"class,omitempty"`
	Witness    json.RawMessage `json:"witness,omitempty"`
	What       string   `json:"what"`
	Commit     string   `json:"commit,omitempty"`
}

// Evidence mirrors EVIDENCE.schema.json.
type Evidence struct {
	PropertyID  string         `json:"property_id"`
	Tier        string         `json:"tier"`
	Seed        int            `json:"seed"`
	Level       string         `json:"level"`
	Coverage    map[string]any `json:"coverage"`
	Assumptions []string       `json:"assumptions"`
	WallS       float64        `json:"wall_s"`
	Violations  int            `json:"violations"`
}

// CheckOptions of a run.
type CheckOptions struct {
	VerifDir string
	RepoDir  string
	Tier     string
	Seed     int
	Timeout  time.Duration
	Workers  int
	DumpDir  string
	Verbose  bool
	OutDir   string // where evidence/ and replay/ are written (default VerifDir)
}

type oblReport struct {
	Name    string  `json:"name"`
	Class   string  `json:"class"`
	Status  string  `json:"status"`
	By      string  `json:"by,omitempty"`
	TimeS   float64 `json:"time_s"`
	Pos     string  `json:"pos,omitempty"`
	Answers map[string]string `json:"answers,omitempty"`
}

// LoadProps reads /verif/props.json.
func LoadProps(verifDir string) (map[string]*PropConfig, error) {
	b, err := os.ReadFile(filepath.Join(verifDir, "props.json"))
	if err != nil {
		return nil, err
	}
	var list []*PropConfig
	if err := json.Unmarshal(b, &list); err != nil {
		return nil, fmt.Errorf("props.json: %v", err)
	}
	m := map[string]*PropConfig{}
	for _, p := range list {
		m[p.ID] = p
	}
	return m, nil
}

// LoadKnownFindings reads /verif/known_findings.json.
func LoadKnownFindings(verifDir string) ([]*KnownFinding, error) {
	b, err := os.ReadFile(filepath.Join(verifDir, "known_findings.json"))
	if err != nil {
		if os.IsNotExist(err) {
			return nil, nil
		}
		return nil, err
	}
	var list []*KnownFinding
	if err := json.Unmarshal(b, &list); err != nil {
		return nil, fmt.Errorf("known_findings.json: %v", err)
	}
	return list, nil
}

// CheckResult is what RunCheck returns to the CLI.
type CheckResult struct {
	ExitCode int
	Lines    []string // VIOLATION / KNOWN-FINDING / ENGINE-ERROR lines (already printed)
}

func globalTrustedBase() []string {
	return []string{
		"go/packages + go/types + go/ssa (x/tools v0.32.0): the SSA is taken to mean what the compiler compiles",
		"govc SSA->SMT translator (/verif/engine): semantics model of DESIGN.md section 4",
		"SMT solvers z3 4.8.12, z3 5.1.0, cvc5 1.0.3 (raced; sat-vs-unsat disagreement invalidates the run)",
		"hand-written sequence/bit prelude axioms (take/drop/cat/upd with triggers; audited against the standard model by the selftest)",
		"integers: mathematical Int with exact wrap for unsigned types; signed overflow is an obligation unless the contract says `nooverflow`; len(x) <= 2^56 assumed in overflow obligations",
		"slices are modelled by value (no aliasing between distinct slice variables; a nil slice and an empty slice are the same value; the one modelled aliasing is an in-place append through a slice of a local array, directive `appends`); a range over a map visits arbitrary entries in arbitrary order and len of a map is unspecified; callbacks do not write the verified object's state; GOARCH is 64-bit",
		"termination is proved only where a `decreases` clause is given",
		"package-level variables of type error (io.EOF, ErrXxx sentinels) are non-nil and never reassigned; package-level tables are read from their constant initializers",
	}
}

// RunCheck runs the check of one property.
func RunCheck(prop string, opt CheckOptions) *CheckResult {
	start := time.Now()
	res := &CheckResult{}
	say := func(f string, a ...any) {
		l := fmt.Sprintf(f, a...)
		fmt.Println(l)
		res.Lines = append(res.Lines, l)
	}
	engineError := func(f string, a ...any) *CheckResult {
		say("ENGINE-ERROR property=%s %s", prop, fmt.Sprintf(f, a...))
		res.ExitCode = 2
		return res
	}
	props, err := LoadProps(opt.VerifDir)
	if err != nil {
		return engineError("%v", err)
	}
	pc := props[prop]
	if pc == nil {
		return engineError("no such property in props.json")
	}
	kfs, err := LoadKnownFindings(opt.VerifDir)
	if err != nil {
		return engineError("%v", err)
	}
	if pc.Level == "" {
		pc.Level = "proof"
	}
	cfg := Config{RepoDir: opt.RepoDir, Pkgs: pc.Packages, MirrorDir: filepath.Join(opt.VerifDir, "contracts"), StdlibDir: filepath.Join(opt.VerifDir, "stdlib")}
	var family []RouteSet
	var famErr error
	familyDir := ""
	var e *Engine
	if pc.Family == "params" {
		scratch, terr := os.MkdirTemp("", "govc-family-")
		if terr != nil {
			return engineError("%v", terr)
		}
		defer os.RemoveAll(scratch)
		pfam := ParamFamily()
		if prop != "C15" {
			// members with a request body exist for the handler stage ordering of C15 only
			var nb []ParamSet
			for _, q := range pfam {
				if !q.Body {
					nb = append(nb, q)
				}
			}
			pfam = nb
		}
		if opt.Tier == "thorough" && !pc.FamilyNoSampled {
			pfam = append(pfam, ParamFamilySampled(16)...)
		}
		mod, gerr := GenerateParamFamily(opt.RepoDir, pfam, scratch)
		if gerr != nil {
			famErr = gerr
		} else {
			familyDir = mod
			cfg.ModDir = mod
			for _, q := range pfam {
				cfg.Extra = append(cfg.Extra, ExtraPkg{Dir: filepath.Join(mod, q.ID), Pattern: "./" + q.ID})
				b, _ := json.Marshal(q.Params)
				family = append(family, RouteSet{ID: q.ID, Templates: []RouteTemplate{{Path: "parameters (in: \"\" = path): " + string(b)}}})
			}
			cfg.Extra = append(cfg.Extra, ExtraPkg{Dir: filepath.Join(opt.RepoDir, "uri"), Pattern: "github.com/ogen-go/ogen/uri", Mirror: filepath.Join(opt.VerifDir, "contracts", "uri")})
		}
	}
	if pc.Family == "validator" {
		scratch, terr := os.MkdirTemp("", "govc-family-")
		if terr != nil {
			return engineError("%v", terr)
		}
		defer os.RemoveAll(scratch)
		vfam := ValidatorFamily()
		if opt.Tier == "thorough" {
			vfam = append(vfam, ValidatorFamilySampled(24)...)
		}
		mod, gerr := GenerateValidatorFamily(opt.RepoDir, vfam, scratch)
		if gerr != nil {
			famErr = gerr
		} else {
			familyDir = mod
			cfg.ModDir = mod
			for _, q := range vfam {
				cfg.Extra = append(cfg.Extra, ExtraPkg{Dir: filepath.Join(mod, q.ID), Pattern: "./" + q.ID})
				b, _ := json.Marshal(q.Fields)
				family = append(family, RouteSet{ID: q.ID, Templates: []RouteTemplate{{Path: "object schema T: " + string(b)}}})
			}
		}
	}
	if pc.Family == "security" {
		scratch, terr := os.MkdirTemp("", "govc-family-")
		if terr != nil {
			return engineError("%v", terr)
		}
		defer os.RemoveAll(scratch)
		sfam := SecurityFamily()
		if opt.Tier == "thorough" {
			sfam = append(sfam, SecurityFamilySampled(24)...)
		}
		mod, gerr := GenerateSecurityFamily(opt.RepoDir, sfam, scratch)
		if gerr != nil {
			// the generator of the current tree fails on a member of the family: that is reported, and
			// the repository packages of the property are still verified on their own
			famErr = gerr
		} else {
			familyDir = mod
			cfg.ModDir = mod
			for _, q := range sfam {
				cfg.Extra = append(cfg.Extra, ExtraPkg{Dir: filepath.Join(mod, q.ID), Pattern: "./" + q.ID})
				family = append(family, RouteSet{ID: q.ID, Templates: []RouteTemplate{{Path: fmt.Sprintf("security alternatives %v", q.Alts)}}})
			}
			// second sentence of the property: the per-scheme attach/extract functions
			cfam := CredFamily()
			if opt.Tier == "thorough" {
				cfam = append(cfam, CredFamilySampled(12)...)
			}
			if _, cerr := GenerateCredFamily(opt.RepoDir, cfam, scratch); cerr != nil {
				famErr = cerr
			} else {
				for _, q := range cfam {
					cfg.Extra = append(cfg.Extra, ExtraPkg{Dir: filepath.Join(mod, q.ID), Pattern: "./" + q.ID})
					b, _ := json.Marshal(q.Schemes)
					family = append(family, RouteSet{ID: q.ID, Templates: []RouteTemplate{{Path: "security schemes: " + string(b)}}})
				}
			}
		}
	}
	if pc.Family == "router" {
		// kind B: the generator of the current tree is built and run on every member of the family;
		// the generated packages live in a scratch module that is removed when the check ends
		scratch, terr := os.MkdirTemp("", "govc-family-")
		if terr != nil {
			return engineError("%v", terr)
		}
		defer os.RemoveAll(scratch)
		n := pc.FamilyQuick
		if opt.Tier == "thorough" {
			n = pc.FamilyThorough
		}
		family = RouterFamily(1, n)
		mod, gerr := GenerateRouterFamily(opt.RepoDir, family, scratch)
		if gerr != nil {
			err = gerr
		} else {
			familyDir = mod
			cfg.ModDir = mod
			for _, rs := range family {
				cfg.Extra = append(cfg.Extra, ExtraPkg{Dir: filepath.Join(mod, rs.ID), Pattern: "./" + rs.ID})
			}
			cfg.Extra = append(cfg.Extra, ExtraPkg{Dir: filepath.Join(opt.RepoDir, "uri"), Pattern: "github.com/ogen-go/ogen/uri", Mirror: filepath.Join(opt.VerifDir, "contracts", "uri")})
		}
	}
	if err == nil {
		e, err = Load(cfg)
	}
	if opt.OutDir == "" {
		opt.OutDir = opt.VerifDir
	}
	replayDir := filepath.Join(opt.OutDir, "replay", prop)
	os.MkdirAll(replayDir, 0o755)
	var reports []oblReport
	var failed []*Verdict
	var notReach []string
	var funcsUnder []map[string]any
	byBackend := map[string]int{}
	var solverTime float64
	var slowest []oblReport
	assumedExt := map[string]bool{}
	nObl, nDis := 0, 0
	type reachFail struct {
		name, why string
		fc        *FuncContract
	}
	var reachFails []reachFail
	if famErr != nil {
		reachFails = append(reachFails, reachFail{prop + "/family", "the generator of the current tree fails on a member of the enumerated family: " + famErr.Error(), nil})
	}
	samples := []any{}
	if err != nil {
		// the tree does not load (type errors in code or contracts): every claimed function is out of reach
		reachFails = append(reachFails, reachFail{prop + "/load", err.Error(), nil})
	} else {
		// select contract blocks
		want := map[string]bool{}
		all := false
		for _, c := range pc.Contracts {
			if c == "*" {
				all = true
			}
			want[c] = true
		}
		found := map[string]bool{}
		var fcs []*FuncContract
		for _, cs := range e.Sets {
			side := false
			if familyDir != "" && !strings.HasPrefix(cs.PkgDir, familyDir) {
				own := false
				for _, p := range pc.Packages {
					if cs.PkgDir == filepath.Join(opt.RepoDir, p) {
						own = true
					}
				}
				// repository packages loaded beside the family supply the contracts the generated code is
				// verified against; those the property names explicitly are verified here too (so that a
				// change inside such a callee is noticed by THIS check), the others are assumptions of this
				// check (verified by the check of the property they belong to)
				side = !own
			}
			inFamily := familyDir != "" && strings.HasPrefix(cs.PkgDir, familyDir)
			for _, fc := range cs.AllFuncs() {
				if inFamily && len(pc.FamilyOnly) > 0 && !fc.Extern && !fc.Lemma {
					keep := false
					for _, sub := range pc.FamilyOnly {
						if strings.Contains(e.fnKey(fc), sub) {
							keep = true
						}
					}
					if !keep {
						continue
					}
				}
				if side && !fc.Extern {
					k := e.fnKey(fc)
					if fc.Lemma {
						k = e.PkgOf[fc].Pkg.Name() + ".lemma." + fc.Name
					}
					if !want[k] {
						continue
					}
				}
				if fc.Extern {
					continue
				}
				key := e.fnKey(fc)
				if fc.Lemma {
					key = e.PkgOf[fc].Pkg.Name() + ".lemma." + fc.Name
				}
				pkgAll := false
				if i := strings.Index(key, "."); i > 0 && want[key[:i]+".*"] {
					pkgAll = true
				}
				if all || want[key] || pkgAll || (inFamily && len(pc.FamilyOnly) > 0) {
					fcs = append(fcs, fc)
					found[key] = true
				}
			}
		}
		for c := range want {
			if c != "*" && !strings.HasSuffix(c, ".*") && !found[c] {
				reachFails = append(reachFails, reachFail{c + "/reach", "no contract block / function of that name in the current tree", nil})
			}
		}
		// every lemma a selected block `uses` is part of the check: proved lemmas are verified here too,
		// trusted ones are listed as assumptions (a lemma used but neither proved nor listed would be an
		// unreported assumption)
		inSel := map[*FuncContract]bool{}
		for _, fc := range fcs {
			inSel[fc] = true
		}
		for i := 0; i < len(fcs); i++ {
			fc := fcs[i]
			sp := e.PkgOf[fc]
			if sp == nil {
				continue
			}
			for _, u := range fc.Uses {
				if l := e.Lemmas[sp.Pkg.Path()+":"+strings.TrimSpace(u)]; l != nil && !inSel[l] {
					inSel[l] = true
					fcs = append(fcs, l)
				}
			}
		}
		sort.Slice(fcs, func(i, j int) bool { return e.fnKey(fcs[i]) < e.fnKey(fcs[j]) })
		var obls []*Obligation
		vacuity := map[*Obligation]bool{}
		for _, fc := range fcs {
			r := e.VerifyFunc(fc)
			fu := map[string]any{"name": r.Key, "file": strings.TrimPrefix(strings.TrimPrefix(fc.File, opt.RepoDir+"/"), familyDir+"/"), "ssa_instructions": r.NInstr, "obligations": len(r.Obligations)}
			if fc.Trusted != "" {
				fu["trusted"] = fc.Trusted
			}
			if r.Err != nil {
				fu["error"] = r.Err.Error()
				notReach = append(notReach, r.Key+": "+r.Err.Error())
				reachFails = append(reachFails, reachFail{r.Key + "/reach", r.Err.Error(), fc})
			}
			funcsUnder = append(funcsUnder, fu)
			for _, a := range r.Assumed {
				assumedExt[a] = true
			}
			obls = append(obls, r.Obligations...)
			// vacuity guard: the hypotheses at the end of the function must not prove false
			if len(r.Obligations) > 0 {
				last := r.Obligations[len(r.Obligations)-1]
				v := &Obligation{Name: r.Key + "/vacuity", Class: "vacuity", Func: r.Key, NFacts: len(last.ctx.facts), Goal: TFalse, ctx: last.ctx}
				vacuity[v] = true
				obls = append(obls, v)
			}
		}
		// discharge
		solvers := AvailableSolvers()
		workers := opt.Workers
		if workers <= 0 {
			workers = 6
		}
		verdicts := make([]*Verdict, len(obls))
		var wg sync.WaitGroup
		sem := make(chan struct{}, workers)
		for i, o := range obls {
			wg.Add(1)
			go func(i int, o *Obligation) {
				defer wg.Done()
				sem <- struct{}{}
				defer func() { <-sem }()
				to := opt.Timeout
				if vacuity[o] {
					to = 2 * time.Second
					verdicts[i] = e.Solve(o, []string{"z3-new"}, to, "")
					return
				}
				verdicts[i] = e.Solve(o, solvers, to, opt.DumpDir)
			}(i, o)
		}
		wg.Wait()
		for i, v := range verdicts {
			o := obls[i]
			if vacuity[o] {
				if v.Status == "discharged" {
					return engineError("vacuity guard: the hypotheses of %s are contradictory (contract or prelude unsound)", o.Func)
				}
				continue
			}
			nObl++
			rep := oblReport{Name: o.Name, Class: o.Class, Status: v.Status, By: v.By, TimeS: v.Time, Pos: fmt.Sprintf("%s:%d", strings.TrimPrefix(strings.TrimPrefix(o.Pos.Filename, opt.RepoDir+"/"), familyDir+"/"), o.Pos.Line), Answers: map[string]string{}}
			for _, r := range v.Results {
				rep.Answers[r.Solver] = r.Answer
				solverTime += r.Time
			}
			switch v.Status {
			case "discharged":
				nDis++
				byBackend[v.By]++
			case "error":
				return engineError("obligation %s: %s", o.Name, v.Err)
			default:
				failed = append(failed, v)
			}
			reports = append(reports, rep)
			slowest = append(slowest, rep)
		}
		sort.Slice(slowest, func(i, j int) bool { return slowest[i].TimeS > slowest[j].TimeS })
		if len(slowest) > 5 {
			slowest = slowest[:5]
		}
		// expected labelled obligations (vacuity guard on the obligation set)
		have := map[string]string{}
		for _, r := range reports {
			have[r.Name] = r.Status
		}
		for _, ex := range pc.Expected {
			if _, ok := have[ex]; !ok {
				reachFails = append(reachFails, reachFail{ex + "/reach", "expected obligation is no longer generated from the current tree", nil})
			}
		}
		// a few obligations written out
		for i, o := range obls {
			if len(samples) >= 4 {
				break
			}
			if vacuity[o] || o.Goal.IsTrue() || (o.Class != "post" && o.Class != "lemma" && i%7 != 0) {
				continue
			}
			g := o.Goal.String()
			if len(g) > 600 {
				g = g[:600] + "…"
			}
			samples = append(samples, map[string]any{"obligation": o.Name, "goal_smt": g, "hypotheses": o.NFacts, "verdict": verdicts[i].Status, "by": verdicts[i].By})
		}
		if nObl == 0 && len(reachFails) == 0 {
			return engineError("zero obligations generated")
		}
	}

	// ---- verdict: known findings, violations ----
	kfByObl := map[string]*KnownFinding{}
	for _, k := range kfs {
		if k.Property == prop && k.Status == "known" {
			for _, o := range k.Obligations {
				kfByObl[o] = k
			}
		}
	}
	printedKF := map[string]bool{}
	var kfReport []map[string]any
	violations := 0
	writeReplay := func(name string, body map[string]any) string {
		fn := filepath.Join(replayDir, sanitizeFile(name)+".json")
		b, _ := json.MarshalIndent(body, "", " ")
		os.WriteFile(fn, b, 0o644)
		return fn
	}
	nKF := 0
	nFamilyReplays := 0
	for _, v := range failed {
		k := kfByObl[v.Obl.Name]
		if k == nil {
			if i := strings.LastIndex(v.Obl.Name, "#"); i > 0 {
				k = kfByObl[v.Obl.Name[:i]] // same clause checked at another return point
			}
		}
		if k != nil {
			nKF++
			if !printedKF[k.ID] {
				printedKF[k.ID] = true
				say("KNOWN-FINDING: property=%s %s [%s]", prop, k.What, k.ID)
				kfReport = append(kfReport, map[string]any{"id": k.ID, "what": k.What, "obligations": k.Obligations})
			}
			continue
		}
		violations++
		answers := map[string]string{}
		outs := map[string]string{}
		for _, r := range v.Results {
			answers[r.Solver] = r.Answer
			outs[r.Solver] = r.Output
		}
		body := map[string]any{"property": prop, "obligation": v.Obl.Name, "class": v.Obl.Class, "position": fmt.Sprintf("%s:%d", v.Obl.Pos.Filename, v.Obl.Pos.Line),
			"status": "no-input", "found_by": "none", "solver": answers, "solver_output": outs, "goal_smt": truncate(v.Obl.Goal.String(), 4000),
			"replay_cmd": fmt.Sprintf("./check --replay %s", filepath.Join(replayDir, sanitizeFile(v.Obl.Name)+".json"))}
		suffix := " no-failing-input-found"
		var ce map[string]any
		if os.Getenv("GOVC_NO_REPLAY") != "" {
			// must-fail corpus runs: only the verdict per obligation matters, the search for a failing input is skipped
			body["replay_note"] = "replay skipped (GOVC_NO_REPLAY)"
		} else if e != nil && familyDir != "" {
			if nFamilyReplays < 8 {
				nFamilyReplays++
				ce = e.familyReplay(familyDir, v.Obl.Name)
			} else {
				body["replay_note"] = "replay skipped: more than 8 failed obligations in this run (the first 8 were replayed)"
			}
		} else if e != nil {
			ce = e.FindCounterexample(v, opt)
		}
		if ce != nil {
			for k, x := range ce {
				body[k] = x
			}
			if ce["status"] == "confirmed" {
				suffix = ""
			}
		}
		fn := writeReplay(v.Obl.Name, body)
		say("VIOLATION property=%s replay=%s%s", prop, fn, suffix)
	}
	for _, rf := range reachFails {
		violations++
		body := map[string]any{"property": prop, "obligation": rf.name, "status": "no-input", "found_by": "none",
			"solver_output": rf.why, "note": "the claimed function/obligation cannot be brought under the verifier on the current tree, so the claim cannot be upheld"}
		suffix := " no-failing-input-found"
		if rf.fc != nil && e != nil && !rf.fc.Lemma && os.Getenv("GOVC_NO_REPLAY") == "" {
			// the contract is still executable: search for an input that violates it on the real code
			if e.ceCache == nil {
				e.ceCache = map[string]map[string]any{}
			}
			ce, ok := e.ceCache[rf.fc.Key]
			if !ok {
				ce = e.findCounterexample(rf.fc, opt)
				e.ceCache[rf.fc.Key] = ce
			}
			for k, x := range ce {
				body[k] = x
			}
			if ce != nil && ce["status"] == "confirmed" {
				suffix = ""
			}
		}
		fn := writeReplay(rf.name, body)
		say("VIOLATION property=%s replay=%s%s", prop, fn, suffix)
	}

	// ---- evidence ----
	var ext []string
	for k := range assumedExt {
		ext = append(ext, k)
	}
	sort.Strings(ext)
	tb := globalTrustedBase()
	if len(ext) > 0 {
		tb = append(tb, "assumed contracts of external/trusted functions used: "+strings.Join(ext, ", "))
	}
	var srcs []string
	fromRepo := map[string]bool{}
	if e != nil {
		for path, cs := range e.Sets {
			srcs = append(srcs, cs.Sources...)
			fromRepo[path] = cs.FromRepo
		}
	}
	sort.Strings(srcs)
	cov := map[string]any{
		"obligations":              nObl + len(reachFails) - nKF, // obligations explained by a listed known finding are reported under known_findings, not counted here
		"known_finding_obligations": nKF,
		"discharged":               nDis,
		"checker_cmd":              fmt.Sprintf("/verif/bin/govc check %s %s  (VC generation over go/ssa of %s; solvers: %s; %v per query)", prop, opt.Tier, strings.Join(pc.Packages, ","), strings.Join(AvailableSolvers(), ","), opt.Timeout),
		"trusted_base":             tb,
		"samples":                  samples,
		"functions_under_contract": funcsUnder,
		"by_backend":               byBackend,
		"solver_time_s":            map[string]any{"sum": round2(solverTime), "slowest": slowest},
		"not_within_reach":         notReach,
		"undecided_clauses":        pc.Undecided,
		"known_findings":           kfReport,
		"contract_sources":         srcs,
		"contracts_from_repo":      fromRepo,
		"failed_obligations":       failedNames(failed),
		"explanation":              "every obligation generated from the current working tree was sent to the solvers; discharged = answered unsat by at least one and sat by none",
	}
	if pc.Family != "" {
		var fam []map[string]any
		for _, rs := range family {
			var ts []string
			for _, t := range rs.Templates {
				var ms []string
				for _, o := range t.Ops {
					ms = append(ms, o.Method)
				}
				ts = append(ts, strings.Join(ms, ",")+" "+t.Path)
			}
			fam = append(fam, map[string]any{"id": rs.ID, "routes": ts})
		}
		note := map[string]string{
			"router":    "bounded over programs: the generator of the current tree was run on each route set; each generated ServeHTTP (and FindPath) was verified for all requests against a contract derived from the route set alone",
			"security":  "bounded over programs: the generator of the current tree was run on each requirement set / credential set; verified for all inputs against contracts derived from the spec alone: the requirement-check closure of the generated handler (extracted mechanically), the generated per-scheme attach and extract functions, and the attach section of the generated client (extracted mechanically)",
			"validator": "bounded over programs: the generator of the current tree was run on each object schema; each generated (*T).Validate() was verified for all values against a contract derived from the schema keywords alone",
			"params":    "bounded over programs: the generator of the current tree was run on each parameter set; verified for all inputs against contracts derived from the declared parameters alone: the generated decodeOp1Params (server), and the URL-building and header/cookie sections of the generated client method (extracted mechanically); which of these functions belong to this property is props.json family_only",
		}[pc.Family]
		cov["program_family"] = map[string]any{"kind": pc.Family, "programs": fam, "note": note, "functions_of_this_property": pc.FamilyOnly}
	}
	if e != nil && len(e.Warnings) > 0 {
		w := e.Warnings
		if len(w) > 20 {
			w = w[:20]
		}
		cov["engine_warnings"] = w
	}
	standinsReport, sviol := runStandins(pc, opt, say, prop, replayDir)
	violations += sviol
	if len(standinsReport) > 0 {
		cov["bounded_standins"] = standinsReport
	}
	ev := &Evidence{PropertyID: prop, Tier: opt.Tier, Seed: opt.Seed, Level: pc.Level, Coverage: cov, Assumptions: append(append([]string{}, pc.Assume...), tb...),
		WallS: round2(time.Since(start).Seconds()), Violations: violations}
	os.MkdirAll(filepath.Join(opt.OutDir, "evidence"), 0o755)
	b, _ := json.MarshalIndent(ev, "", " ")
	if err := os.WriteFile(filepath.Join(opt.OutDir, "evidence", prop+".json"), b, 0o644); err != nil {
		return engineError("cannot write evidence: %v", err)
	}
	if rp := os.Getenv("GOVC_REPORT"); rp != "" {
		rb, _ := json.MarshalIndent(reports, "", " ")
		os.WriteFile(rp, rb, 0o644)
	}
	if opt.Verbose {
		for _, r := range reports {
			if r.Status != "discharged" {
				fmt.Printf("  %-12s %s %v\n", r.Status, r.Name, r.Answers)
			}
		}
	}
	fmt.Printf("property %s (%s): %d obligations, %d discharged, %d known-finding, %d violations, %.1fs\n", prop, opt.Tier, nObl+len(reachFails)-nKF, nDis, nKF, violations, time.Since(start).Seconds())
	if violations > 0 {
		res.ExitCode = 1
	}
	return res
}

func failedNames(vs []*Verdict) []string {
	out := []string{}
	for _, v := range vs {
		out = append(out, v.Obl.Name)
	}
	return out
}

func round2(x float64) float64 { return float64(int(x*100+0.5)) / 100 }

package eng

// sorts.go: mapping of Go types to sorts, and the SMT prelude (declarations and
// trigger-based axioms) for the sorts and symbols a query uses.

import (
	"fmt"
	"go/types"
	"sort"
	"strings"
)

// SortCtx interns sorts.
type SortCtx struct {
	byName map[string]*Sort
	order  []*Sort // creation order (datatypes must be declared after their field sorts)
	Str    *Sort
	// struct sorts by canonical Go type string
	structs map[string]*Sort
	goTypes map[string]types.Type // datatype sort name -> Go struct type (named or not)
	ifaceTags map[string]int
	ifaceTagTypes []types.Type
}

func NewSortCtx() *SortCtx {
	c := &SortCtx{byName: map[string]*Sort{}, structs: map[string]*Sort{}, goTypes: map[string]types.Type{}, ifaceTags: map[string]int{}}
	for _, s := range []*Sort{SBool, SInt, SRef, SIface, SFn} {
		c.byName[s.Name] = s
	}
	c.Str = &Sort{Kind: KSeq, Name: "Str", Elem: SInt}
	c.byName["Str"] = c.Str
	c.order = append(c.order, c.Str)
	return c
}

func (c *SortCtx) SeqOf(elem *Sort) *Sort {
	name := "Seq_" + elem.Name
	if s, ok := c.byName[name]; ok {
		return s
	}
	s := &Sort{Kind: KSeq, Name: name, Elem: elem}
	c.byName[name] = s
	c.order = append(c.order, s)
	return s
}

func (c *SortCtx) ArrOf(idx, elem *Sort) *Sort {
	name := fmt.Sprintf("(Array %s %s)", idx.Name, elem.Name)
	if s, ok := c.byName[name]; ok {
		return s
	}
	s := &Sort{Kind: KArr, Name: name, Idx: idx, Elem: elem}
	c.byName[name] = s
	return s
}

func sanitize(s string) string {
	var sb strings.Builder
	for _, r := range s {
		switch {
		case r >= 'a' && r <= 'z', r >= 'A' && r <= 'Z', r >= '0' && r <= '9', r == '_':
			sb.WriteRune(r)
		case r == '.' || r == '/':
			sb.WriteByte('.')
		case r == '*':
			sb.WriteString("ptr.")
		case r == '[' || r == ']':
			sb.WriteByte('$')
		default:
			sb.WriteByte('_')
		}
	}
	return sb.String()
}

func shortTypeName(t types.Type) string {
	return types.TypeString(t, func(p *types.Package) string { return p.Name() })
}

// IsByteSeq reports whether t is string or []byte (both are sort Str).
func isByteSeqType(t types.Type) bool {
	switch u := t.Underlying().(type) {
	case *types.Basic:
		return u.Info()&types.IsString != 0
	case *types.Slice:
		if b, ok := u.Elem().Underlying().(*types.Basic); ok {
			return b.Kind() == types.Uint8
		}
	}
	return false
}

// SortOf maps a Go type to a sort. It returns an error for unsupported types.
func (c *SortCtx) SortOf(t types.Type) (*Sort, error) {
	t = types.Unalias(t) // `type refKey = jsonpointer.RefKey` is the same type, hence the same sort
	switch u := t.Underlying().(type) {
	case *types.Basic:
		switch {
		case u.Info()&types.IsBoolean != 0:
			return SBool, nil
		case u.Info()&types.IsInteger != 0:
			return SInt, nil
		case u.Info()&types.IsString != 0:
			return c.Str, nil
		case u.Kind() == types.UnsafePointer:
			return nil, fmt.Errorf("unsafe.Pointer")
		case u.Kind() == types.UntypedNil:
			return SRef, nil
		case u.Info()&types.IsFloat != 0:
			return c.floatSort(), nil
		}
		return nil, fmt.Errorf("unsupported basic type %s", t)
	case *types.Pointer:
		return SRef, nil
	case *types.Slice:
		if isByteSeqType(t) {
			return c.Str, nil
		}
		es, err := c.SortOf(u.Elem())
		if err != nil {
			return nil, err
		}
		return c.SeqOf(es), nil
	case *types.Array:
		if b, ok := u.Elem().Underlying().(*types.Basic); ok && b.Kind() == types.Uint8 {
			return c.Str, nil
		}
		es, err := c.SortOf(u.Elem())
		if err != nil {
			return nil, err
		}
		return c.SeqOf(es), nil
	case *types.Struct:
		return c.structSort(t, u)
	case *types.Interface:
		return SIface, nil
	case *types.Signature:
		return SFn, nil
	case *types.Map:
		return SRef, nil
	case *types.Chan:
		return nil, fmt.Errorf("channel type %s", t)
	case *types.Tuple:
		return nil, fmt.Errorf("tuple type %s", t)
	case *types.TypeParam:
		return nil, fmt.Errorf("type parameter %s (verify an instance)", t)
	}
	return nil, fmt.Errorf("unsupported type %s", t)
}

func (c *SortCtx) floatSort() *Sort {
	if s, ok := c.byName["F64"]; ok {
		return s
	}
	s := &Sort{Kind: KUnint, Name: "F64"}
	c.byName["F64"] = s
	return s
}

func (c *SortCtx) structSort(t types.Type, u *types.Struct) (*Sort, error) {
	key := types.TypeString(t, nil)
	if s, ok := c.structs[key]; ok {
		if s == nil {
			return nil, fmt.Errorf("recursive struct value type %s", key)
		}
		return s, nil
	}
	c.structs[key] = nil
	name := "D_" + sanitize(shortTypeName(t))
	if _, dup := c.byName[name]; dup {
		name = fmt.Sprintf("%s_%d", name, len(c.structs))
	}
	s := &Sort{Kind: KData, Name: name, GoName: key}
	for i := 0; i < u.NumFields(); i++ {
		f := u.Field(i)
		fs, err := c.SortOf(f.Type())
		if err != nil {
			delete(c.structs, key)
			return nil, fmt.Errorf("field %s of %s: %v", f.Name(), key, err)
		}
		s.Fields = append(s.Fields, Field{Name: f.Name(), Sort: fs})
	}
	c.structs[key] = s
	c.byName[name] = s
	c.goTypes[name] = t
	c.order = append(c.order, s)
	return s, nil
}

// MkData builds a struct value.
func MkData(s *Sort, fields ...*Term) *Term {
	if len(fields) != len(s.Fields) {
		panic("MkData arity")
	}
	// mk(sel0(x), sel1(x), ...) == x
	if len(fields) > 0 {
		var base *Term
		ok := true
		for i, f := range fields {
			if f.Op != s.selName(i) || len(f.Args) != 1 {
				ok = false
				break
			}
			if base == nil {
				base = f.Args[0]
			} else if base.String() != f.Args[0].String() {
				ok = false
				break
			}
		}
		if ok && base != nil {
			return base
		}
	}
	return App("mk."+s.Name, s, fields...)
}

func (s *Sort) selName(i int) string { return fmt.Sprintf("%s.%s", s.Name, s.Fields[i].Name) }

// SelField projects field i of a struct value.
func SelField(x *Term, i int) *Term {
	s := x.Sort
	if x.Op == "mk."+s.Name {
		return x.Args[i]
	}
	if x.Op == "ite" {
		return Ite(x.Args[0], SelField(x.Args[1], i), SelField(x.Args[2], i))
	}
	return App(s.selName(i), s.Fields[i].Sort, x)
}

// UpdField returns x with field i replaced.
func UpdField(x *Term, i int, v *Term) *Term {
	s := x.Sort
	fs := make([]*Term, len(s.Fields))
	for k := range s.Fields {
		if k == i {
			fs[k] = v
		} else {
			fs[k] = SelField(x, k)
		}
	}
	return MkData(s, fs...)
}

// ---- sequence operations --------------------------------------------------

func SeqLen(s *Term) *Term {
	switch s.Op {
	case "empty." + s.Sort.Name:
		return IntLit(0)
	case "unit." + s.Sort.Name:
		return IntLit(1)
	case "lit." + s.Sort.Name:
		return IntLit(int64(len(s.Args)))
	case "cat." + s.Sort.Name:
		if es, ok := litElems(s); ok {
			return IntLit(int64(len(es)))
		}
	}
	return App("len."+s.Sort.Name, SInt, s)
}

func SeqAt(s, i *Term) *Term {
	if s.Op == "lit."+s.Sort.Name && i.Int != nil && i.Int.IsInt64() {
		k := i.Int.Int64()
		if k >= 0 && k < int64(len(s.Args)) {
			return s.Args[k]
		}
	}
	if s.Op == "unit."+s.Sort.Name && i.Int != nil && i.Int.Sign() == 0 && s.Sort.Name != "Str" {
		return s.Args[0]
	}
	if s.Op == "cat."+s.Sort.Name && i.Int != nil && i.Int.IsInt64() {
		if es, ok := litElems(s); ok {
			if k := i.Int.Int64(); k >= 0 && k < int64(len(es)) && es[k].Int != nil {
				return es[k]
			}
		}
	}
	return App("at."+s.Sort.Name, s.Sort.Elem, s, i)
}

func SeqEmpty(s *Sort) *Term { return App("empty."+s.Name, s) }
func SeqUnit(s *Sort, e *Term) *Term {
	return App("unit."+s.Name, s, e)
}

// litElems returns the elements of a literal sequence term (unit, right-nested cat of units, lit).
func litElems(t *Term) ([]*Term, bool) {
	n := t.Sort.Name
	switch t.Op {
	case "empty." + n:
		return nil, true
	case "unit." + n:
		return []*Term{t.Args[0]}, true
	case "lit." + n:
		return t.Args, true
	case "cat." + n:
		if t.Args[0].Op != "unit."+n {
			return nil, false
		}
		rest, ok := litElems(t.Args[1])
		if !ok {
			return nil, false
		}
		return append([]*Term{t.Args[0].Args[0]}, rest...), true
	}
	return nil, false
}

func SeqCat(a, b *Term) *Term {
	if a.Op == "empty."+a.Sort.Name {
		return b
	}
	if b.Op == "empty."+b.Sort.Name {
		return a
	}
	if ea, ok := litElems(a); ok && len(ea) > 0 {
		if eb, ok := litElems(b); ok && len(eb) > 0 {
			// concatenation of two literals is a literal (keeps the normal form)
			return SeqLit(a.Sort, append(append([]*Term{}, ea...), eb...)...)
		}
	}
	return App("cat."+a.Sort.Name, a.Sort, a, b)
}

// SeqDrop is s[n:].
func SeqDrop(s, n *Term) *Term {
	if n.Int != nil && n.Int.Sign() == 0 {
		return s
	}
	if n.String() == SeqLen(s).String() {
		return SeqEmpty(s.Sort)
	}
	if s.Op == "drop."+s.Sort.Name {
		return App("drop."+s.Sort.Name, s.Sort, s.Args[0], Add(s.Args[1], n))
	}
	if n.Int != nil && n.Int.IsInt64() {
		// a constant suffix of a literal is a literal
		if es, ok := litElems(s); ok {
			if k := n.Int.Int64(); k >= 0 && k <= int64(len(es)) {
				return SeqLit(s.Sort, es[k:]...)
			}
		}
	}
	return App("drop."+s.Sort.Name, s.Sort, s, n)
}

// SeqTake is s[:n].
func SeqTake(s, n *Term) *Term {
	if n.Int != nil && n.Int.Sign() == 0 {
		return SeqEmpty(s.Sort)
	}
	if n.String() == SeqLen(s).String() {
		return s
	}
	if n.Int != nil && n.Int.IsInt64() {
		if es, ok := litElems(s); ok {
			if k := n.Int.Int64(); k >= 0 && k <= int64(len(es)) {
				return SeqLit(s.Sort, es[:k]...)
			}
		}
	}
	return App("take."+s.Sort.Name, s.Sort, s, n)
}

// SeqSub is s[lo:hi], expressed with take and drop (hi == nil means len(s)).
func SeqSub(s, lo, hi *Term) *Term {
	if hi == nil || hi.String() == SeqLen(s).String() {
		return SeqDrop(s, lo)
	}
	if lo.Int != nil && lo.Int.Sign() == 0 {
		return SeqTake(s, hi)
	}
	return SeqTake(SeqDrop(s, lo), Sub(hi, lo))
}

func SeqUpd(s, i, v *Term) *Term {
	// an update of a literal at a literal index is a literal (composite literals are built this way)
	if es, ok := litElems(s); ok && i.Int != nil && i.Int.IsInt64() {
		if k := i.Int.Int64(); k >= 0 && int(k) < len(es) {
			ne := append([]*Term{}, es...)
			ne[k] = v
			return SeqLit(s.Sort, ne...)
		}
	}
	return App("upd."+s.Sort.Name, s.Sort, s, i, v)
}

// SeqLit is a literal sequence (string constants, composite literals).
func SeqLit(s *Sort, elems ...*Term) *Term {
	if len(elems) == 0 {
		return SeqEmpty(s)
	}
	if len(elems) <= 8 {
		// short literals are right-nested concatenations of units (the normal form of the cat axioms)
		t := SeqUnit(s, elems[len(elems)-1])
		for i := len(elems) - 2; i >= 0; i-- {
			t = App("cat."+s.Name, s, SeqUnit(s, elems[i]), t)
		}
		return t
	}
	return App("lit."+s.Name, s, elems...)
}

// StrLit builds a Str literal from Go bytes.
func (c *SortCtx) StrLit(b string) *Term {
	es := make([]*Term, len(b))
	for i := 0; i < len(b); i++ {
		es[i] = IntLit(int64(b[i]))
	}
	return SeqLit(c.Str, es...)
}

// ---- prelude ----------------------------------------------------------------

// seqPrelude returns declarations and axioms for one sequence sort.
func seqPrelude(s *Sort, litArities []int) string {
	n := s.Name
	e := s.Elem.Name
	var sb strings.Builder
	p := func(f string, a ...any) { fmt.Fprintf(&sb, f+"\n", a...) }
	p("(declare-sort %s 0)", n)
	p("(declare-fun len.%s (%s) Int)", n, n)
	p("(declare-fun at.%s (%s Int) %s)", n, n, e)
	p("(declare-fun empty.%s () %s)", n, n)
	p("(declare-fun unit.%s (%s) %s)", n, e, n)
	p("(declare-fun cat.%s (%s %s) %s)", n, n, n, n)
	p("(declare-fun take.%s (%s Int) %s)", n, n, n)
	p("(declare-fun drop.%s (%s Int) %s)", n, n, n)
	p("(declare-fun upd.%s (%s Int %s) %s)", n, n, e, n)
	p("(declare-fun eqm.%s (%s %s) Bool)", n, n, n)
	p("(declare-fun diff.%s (%s %s) Int)", n, n, n)
	// length
	p("(assert (forall ((s %s)) (! (>= (len.%s s) 0) :pattern ((len.%s s)))))", n, n, n)
	p("(assert (= (len.%s empty.%s) 0))", n, n)
	p("(assert (forall ((s %s)) (! (=> (= (len.%s s) 0) (= s empty.%s)) :pattern ((len.%s s)))))", n, n, n, n)
	// unit
	if n == "Str" {
		p("(assert (forall ((c Int)) (! (and (= (len.%s (unit.%s c)) 1) (=> (and (<= 0 c) (<= c 255)) (= (at.%s (unit.%s c) 0) c))) :pattern ((unit.%s c)))))", n, n, n, n, n)
		p("(assert (forall ((s %s) (i Int)) (! (and (<= 0 (at.%s s i)) (<= (at.%s s i) 255)) :pattern ((at.%s s i)))))", n, n, n, n)
	} else {
		p("(assert (forall ((c %s)) (! (and (= (len.%s (unit.%s c)) 1) (= (at.%s (unit.%s c) 0) c)) :pattern ((unit.%s c)))))", e, n, n, n, n, n)
	}
	// cat
	p("(assert (forall ((a %s) (b %s)) (! (= (len.%s (cat.%s a b)) (+ (len.%s a) (len.%s b))) :pattern ((cat.%s a b)))))", n, n, n, n, n, n, n)
	p("(assert (forall ((a %s) (b %s) (i Int)) (! (= (at.%s (cat.%s a b) i) (ite (< i (len.%s a)) (at.%s a i) (at.%s b (- i (len.%s a))))) :pattern ((at.%s (cat.%s a b) i)))))", n, n, n, n, n, n, n, n, n, n)
	p("(assert (forall ((a %s) (b %s) (c %s)) (! (= (cat.%s (cat.%s a b) c) (cat.%s a (cat.%s b c))) :pattern ((cat.%s (cat.%s a b) c)))))", n, n, n, n, n, n, n, n, n)
	p("(assert (forall ((a %s)) (! (= (cat.%s empty.%s a) a) :pattern ((cat.%s empty.%s a)))))", n, n, n, n, n)
	p("(assert (forall ((a %s)) (! (= (cat.%s a empty.%s) a) :pattern ((cat.%s a empty.%s)))))", n, n, n, n, n)
	// take / drop (Dafny-style)
	ax := func(vars, pat, body string) {
		r := strings.NewReplacer("len(", "(len."+n+" ", "at(", "(at."+n+" ", "take(", "(take."+n+" ", "drop(", "(drop."+n+" ", "cat(", "(cat."+n+" ",
			"unit(", "(unit."+n+" ", "EMPTY", "empty."+n, "SEQ", n)
		p("(assert (forall (%s) (! %s :pattern (%s))))", r.Replace(vars), r.Replace(body), r.Replace(pat))
	}
	ax("(s SEQ) (n Int)", "take( s n)",
		"(and (=> (and (<= 0 n) (<= n len( s))) (= len( take( s n)) n)) (=> (= n 0) (= take( s n) EMPTY)) (=> (= n len( s)) (= take( s n) s)) (=> (and (= n 1) (>= len( s) 1)) (= take( s n) unit( at( s 0)))))")
	ax("(s SEQ) (n Int) (j Int)", "at( take( s n) j)", "(=> (and (<= 0 j) (< j n) (<= n len( s))) (= at( take( s n) j) at( s j)))")
	ax("(s SEQ) (n Int)", "drop( s n)",
		"(and (=> (and (<= 0 n) (<= n len( s))) (= len( drop( s n)) (- len( s) n))) (=> (= n 0) (= drop( s n) s)) (=> (= n len( s)) (= drop( s n) EMPTY)))")
	ax("(s SEQ) (n Int) (j Int)", "at( drop( s n) j)", "(=> (and (<= 0 n) (<= 0 j) (< j (- len( s) n))) (= at( drop( s n) j) at( s (+ j n))))")
	ax("(s SEQ) (m Int) (n Int)", "drop( drop( s m) n)", "(=> (and (<= 0 m) (<= 0 n) (<= (+ m n) len( s))) (= drop( drop( s m) n) drop( s (+ m n))))")
	ax("(s SEQ) (m Int) (n Int)", "take( take( s m) n)", "(=> (and (<= 0 n) (<= n m) (<= m len( s))) (= take( take( s m) n) take( s n)))")
	ax("(s SEQ) (m Int) (n Int)", "drop( take( s m) n)", "(=> (and (<= 0 n) (<= n m) (<= m len( s))) (= drop( take( s m) n) take( drop( s n) (- m n))))")
	ax("(a SEQ) (b SEQ) (n Int)", "take( cat( a b) n)",
		"(and (=> (and (<= 0 n) (<= n len( a))) (= take( cat( a b) n) take( a n))) (=> (and (<= len( a) n) (<= n (+ len( a) len( b)))) (= take( cat( a b) n) cat( a take( b (- n len( a)))))))")
	ax("(a SEQ) (b SEQ) (n Int)", "drop( cat( a b) n)",
		"(and (=> (and (<= 0 n) (<= n len( a))) (= drop( cat( a b) n) cat( drop( a n) b))) (=> (and (<= len( a) n) (<= n (+ len( a) len( b)))) (= drop( cat( a b) n) drop( b (- n len( a))))))")
	ax("(s SEQ) (m Int) (n Int)", "cat( take( s m) take( drop( s m) n))", "(=> (and (<= 0 m) (<= 0 n) (<= (+ m n) len( s))) (= cat( take( s m) take( drop( s m) n)) take( s (+ m n))))")
	ax("(s SEQ) (m Int) (n Int) (r SEQ)", "cat( take( s m) cat( take( drop( s m) n) r))", "(=> (and (<= 0 m) (<= 0 n) (<= (+ m n) len( s))) (= cat( take( s m) cat( take( drop( s m) n) r)) cat( take( s (+ m n)) r)))")
	ax("(s SEQ) (n Int)", "cat( take( s n) drop( s n))", "(=> (and (<= 0 n) (<= n len( s))) (= cat( take( s n) drop( s n)) s))")
	// upd
	p("(assert (forall ((a %s) (i Int) (v %s)) (! (= (len.%s (upd.%s a i v)) (len.%s a)) :pattern ((upd.%s a i v)))))", n, e, n, n, n, n)
	p("(assert (forall ((a %s) (i Int) (v %s) (j Int)) (! (= (at.%s (upd.%s a i v) j) (ite (and (= i j) (<= 0 i) (< i (len.%s a))) v (at.%s a j))) :pattern ((at.%s (upd.%s a i v) j)))))", n, e, n, n, n, n, n, n)
	// extensionality behind the marker eqm
	p("(assert (forall ((a %s) (b %s)) (! (or (= a b) (not (= (len.%s a) (len.%s b))) (and (<= 0 (diff.%s a b)) (< (diff.%s a b) (len.%s a)) (not (= (at.%s a (diff.%s a b)) (at.%s b (diff.%s a b)))))) :pattern ((eqm.%s a b)))))", n, n, n, n, n, n, n, n, n, n, n, n)
	// literals
	sort.Ints(litArities)
	for _, k := range litArities {
		if k == 0 {
			continue
		}
		var ps, as []string
		for i := 0; i < k; i++ {
			ps = append(ps, fmt.Sprintf("(x%d %s)", i, e))
			as = append(as, fmt.Sprintf("x%d", i))
		}
		app := fmt.Sprintf("(lit%d.%s %s)", k, n, strings.Join(as, " "))
		p("(declare-fun lit%d.%s (%s) %s)", k, n, strings.TrimSpace(strings.Repeat(e+" ", k)), n)
		var conj []string
		conj = append(conj, fmt.Sprintf("(= (len.%s %s) %d)", n, app, k))
		for i := 0; i < k; i++ {
			if n == "Str" {
				conj = append(conj, fmt.Sprintf("(=> (and (<= 0 x%d) (<= x%d 255)) (= (at.%s %s %d) x%d))", i, i, n, app, i, i))
			} else {
				conj = append(conj, fmt.Sprintf("(= (at.%s %s %d) x%d)", n, app, i, i))
			}
		}
		p("(assert (forall (%s) (! (and %s) :pattern (%s))))", strings.Join(ps, " "), strings.Join(conj, " "), app)
	}
	return sb.String()
}

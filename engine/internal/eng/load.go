package eng

// load.go: loading /repo packages (build tag verif, contract overlay) and
// building SSA; resolving contract blocks to SSA functions.

import (
	"sync"
	"time"
	"fmt"
	"go/token"
	"go/types"
	"os"
	"path/filepath"
	"regexp"
	"sort"
	"strconv"
	"strings"

	"golang.org/x/tools/go/packages"
	"golang.org/x/tools/go/ssa"
	"golang.org/x/tools/go/ssa/ssautil"
)

// Config of an engine run.
type Config struct {
	RepoDir   string   // module root (e.g. /repo)
	Pkgs      []string // package directories relative to RepoDir ("uri", "internal/bitset") to load with contracts
	MirrorDir string   // /verif/contracts
	StdlibDir string   // /verif/stdlib
	Tags      string
	Verbose   bool
	ModDir    string     // directory packages.Load runs in (default RepoDir); a scratch module for generated code
	Extra     []ExtraPkg // further packages (absolute directories) loaded with contracts
}

// ExtraPkg is a package outside RepoDir/<rel> addressing: generated packages of a scratch module, or
// a repository package addressed by import path from the scratch module.
type ExtraPkg struct {
	Dir     string // absolute directory of the package
	Pattern string // load pattern relative to ModDir ("./c00") or an import path
	Mirror  string // contract mirror directory ("" = contract file lives in Dir)
}

// Engine holds the loaded program and everything derived from it.
type Engine struct {
	Cfg       Config
	Fset      *token.FileSet
	Prog      *ssa.Program
	Pkgs      map[string]*packages.Package // by import path
	SSAPkgs   map[string]*ssa.Package
	Sets      map[string]*ContractSet // by import path
	Sorts     *SortCtx
	Contracts map[*ssa.Package]map[*ssa.Function]*FuncContract
	ByKey     map[string]*FuncContract // "<pkgpath>:<Key>"
	Lemmas    map[string]*FuncContract // "<pkgpath>:<name>"
	FuncOf    map[*FuncContract]*ssa.Function
	PkgOf     map[*FuncContract]*ssa.Package
	Defs      *Defs
	nfresh    int
	Warnings  []string
	Fuel      int
	sentinels map[string]*Term // error-typed package-level variables (assumed non-nil)
	qmu       sync.Mutex
	Grace     time.Duration // extra time for cvc5 once all z3 instances answered unknown
	ceCache   map[string]map[string]any
	HypFuelFull bool
	NoPrune   bool
	globalsInit map[*ssa.Global]*Term
	globalMaps  map[*ssa.Global][][2]*Term
	keySort map[string]*Sort
	nonNilGlobals map[string]bool // "global!<pkg>.<name>": declared `//@ nonnil` in a contract file
	allFns map[*ssa.Function]bool
}

func (e *Engine) warn(f string, a ...any) {
	e.Warnings = append(e.Warnings, fmt.Sprintf(f, a...))
}

func (e *Engine) fresh(prefix string, s *Sort) *Term {
	e.nfresh++
	return Const(fmt.Sprintf("%s!%d", prefix, e.nfresh), s)
}

// Load loads the configured packages.
func Load(cfg Config) (*Engine, error) {
	e := &Engine{Cfg: cfg, Pkgs: map[string]*packages.Package{}, SSAPkgs: map[string]*ssa.Package{}, Sets: map[string]*ContractSet{},
		Sorts: NewSortCtx(), Contracts: map[*ssa.Package]map[*ssa.Function]*FuncContract{}, ByKey: map[string]*FuncContract{},
		Lemmas: map[string]*FuncContract{}, FuncOf: map[*FuncContract]*ssa.Function{}, PkgOf: map[*FuncContract]*ssa.Package{},
		globalsInit: map[*ssa.Global]*Term{}, Grace: 5 * time.Second}
	e.Defs = newDefs(e)
	overlay := map[string][]byte{}
	var patterns []string
	setsByDir := map[string]*ContractSet{}
	for _, p := range cfg.Pkgs {
		dir := filepath.Join(cfg.RepoDir, p)
		mirror := ""
		if cfg.MirrorDir != "" {
			mirror = filepath.Join(cfg.MirrorDir, p)
		}
		cs, err := BuildContractSet(dir, mirror, cfg.StdlibDir)
		if err != nil {
			return nil, err
		}
		for k, v := range cs.Overlay {
			overlay[k] = v
		}
		setsByDir[dir] = cs
		if cfg.ModDir != "" && cfg.ModDir != cfg.RepoDir {
			// loaded from a scratch module that depends on the repository: address by import path
			patterns = append(patterns, modulePath(cfg.RepoDir)+"/"+p)
		} else {
			patterns = append(patterns, "./"+p)
		}
	}
	for _, x := range cfg.Extra {
		cs, err := BuildContractSet(x.Dir, x.Mirror, cfg.StdlibDir)
		if err != nil {
			return nil, err
		}
		for k, v := range cs.Overlay {
			overlay[k] = v
		}
		setsByDir[x.Dir] = cs
		patterns = append(patterns, x.Pattern)
	}
	modDir := cfg.ModDir
	if modDir == "" {
		modDir = cfg.RepoDir
	}
	// contract files of packages that are NOT under verification in this run (hook files committed in
	// the repository) are neutralised: they are compiled with the tag as dependencies, but their spec
	// helpers (stdlib overlay, generated clause functions) are only supplied for the packages of this
	// run. An empty file of the same package takes their place.
	keep := map[string]bool{}
	for d := range setsByDir {
		keep[d] = true
	}
	for k, v := range NeutralHookOverlay(cfg.RepoDir, keep) {
		overlay[k] = v
	}
	tags := cfg.Tags
	if tags == "" {
		tags = "verif"
	}
	pcfg := &packages.Config{
		Mode:       packages.LoadAllSyntax | packages.NeedModule,
		Dir:        modDir,
		BuildFlags: []string{"-tags=" + tags},
		Overlay:    overlay,
		Env:        append(os.Environ(), "GOFLAGS=-mod=mod", "GOPROXY=off", "GOSUMDB=off", "GOTOOLCHAIN=local"),
	}
	pkgs, err := packages.Load(pcfg, patterns...)
	if err != nil {
		return nil, err
	}
	var errs []string
	packages.Visit(pkgs, nil, func(p *packages.Package) {
		for _, er := range p.Errors {
			errs = append(errs, er.Error())
		}
	})
	if len(errs) > 0 {
		if len(errs) > 12 {
			errs = errs[:12]
		}
		return nil, fmt.Errorf("package errors (contract files or code do not type-check):\n  %s", strings.Join(errs, "\n  "))
	}
	e.Fset = pkgs[0].Fset
	prog, spkgs := ssautil.AllPackages(pkgs, ssa.InstantiateGenerics)
	prog.Build()
	e.Prog = prog
	for i, p := range pkgs {
		e.Pkgs[p.PkgPath] = p
		e.SSAPkgs[p.PkgPath] = spkgs[i]
		var dir string
		if len(p.GoFiles) > 0 {
			dir = filepath.Dir(p.GoFiles[0])
		}
		if cs := setsByDir[dir]; cs != nil {
			e.Sets[p.PkgPath] = cs
		}
	}
	e.nonNilGlobals = map[string]bool{}
	for path, cs := range e.Sets {
		for _, cf := range cs.Files {
			for _, n := range cf.NonNil {
				if sp := e.SSAPkgs[path]; sp != nil {
					e.nonNilGlobals["global!"+sp.Pkg.Name()+"."+n] = true
					e.warn("assumed: package-level variable %s.%s is non-nil (declared //@ nonnil)", sp.Pkg.Name(), n)
				}
			}
		}
	}
	// resolve contract blocks
	for path, cs := range e.Sets {
		sp := e.SSAPkgs[path]
		e.Contracts[sp] = map[*ssa.Function]*FuncContract{}
		for _, fc := range cs.AllFuncs() {
			e.PkgOf[fc] = sp
			if fc.Lemma {
				e.Lemmas[path+":"+fc.Name] = fc
				continue
			}
			fn, err := e.resolve(e.Pkgs[path], sp, fc)
			if err != nil {
				return nil, fmt.Errorf("%s:%d: %v", fc.File, fc.Line, err)
			}
			e.FuncOf[fc] = fn
			e.Contracts[sp][fn] = fc
			e.ByKey[path+":"+fc.Key] = fc
		}
	}
	return e, nil
}

// modulePath reads the module path of dir/go.mod.
func modulePath(dir string) string {
	b, err := os.ReadFile(filepath.Join(dir, "go.mod"))
	if err != nil {
		return ""
	}
	if m := regexp.MustCompile(`(?m)^module\s+(\S+)`).FindSubmatch(b); m != nil {
		return string(m[1])
	}
	return ""
}

// NeutralHookOverlay maps every verif_*.go file under repoDir whose directory is not in keep to an
// empty file of the same package (see Load).
func NeutralHookOverlay(repoDir string, keep map[string]bool) map[string][]byte {
	out := map[string][]byte{}
	re := regexp.MustCompile(`(?m)^package\s+(\w+)`)
	filepath.WalkDir(repoDir, func(path string, d os.DirEntry, err error) error {
		if err != nil {
			return nil
		}
		if d.IsDir() {
			if n := d.Name(); n == ".git" || n == "node_modules" || n == "_testdata" {
				return filepath.SkipDir
			}
			return nil
		}
		base := filepath.Base(path)
		if !strings.HasPrefix(base, "verif_") || !strings.HasSuffix(base, ".go") || keep[filepath.Dir(path)] {
			return nil
		}
		b, rerr := os.ReadFile(path)
		if rerr != nil {
			return nil
		}
		if m := re.FindSubmatch(b); m != nil {
			out[path] = []byte("//go:build verif\n\npackage " + string(m[1]) + "\n")
		}
		return nil
	})
	return out
}

// resolve finds the SSA function a contract block talks about and checks the signature.
func (e *Engine) resolve(pp *packages.Package, sp *ssa.Package, fc *FuncContract) (*ssa.Function, error) {
	tp := pp.Types
	if fc.PkgAlias != "" {
		// extern function: find the imported package by the alias used in the contract file
		var path string
		for _, im := range fc.Imports {
			p, _ := strconv.Unquote(im.Path.Value)
			name := ""
			if im.Name != nil {
				name = im.Name.Name
			} else if ip := pp.Imports[p]; ip != nil {
				name = ip.Name
			}
			if name == fc.PkgAlias {
				path = p
			}
		}
		ip := pp.Imports[path]
		if ip == nil {
			return nil, fmt.Errorf("extern %s: package %q not imported by the contract file", fc.Key, fc.PkgAlias)
		}
		tp = ip.Types
	}
	var obj types.Object
	if fc.Recv != nil {
		// evaluate the receiver type in the scope of the contract file's package
		tv, err := types.Eval(e.Fset, pp.Types, e.fileScopePos(pp, fc.File), fc.RecvType)
		if err != nil {
			return nil, fmt.Errorf("receiver type %s: %v", fc.RecvType, err)
		}
		ms := types.NewMethodSet(tv.Type)
		for i := 0; i < ms.Len(); i++ {
			if ms.At(i).Obj().Name() == fc.Name {
				obj = ms.At(i).Obj()
			}
		}
		if obj == nil {
			return nil, fmt.Errorf("no method %s on %s", fc.Name, fc.RecvType)
		}
		fn := e.Prog.MethodValue(ms.Lookup(obj.Pkg(), fc.Name))
		if fn == nil {
			return nil, fmt.Errorf("no SSA for method %s", fc.Key)
		}
		return fn, e.checkSig(fn, fc)
	}
	obj = tp.Scope().Lookup(fc.Name)
	tf, ok := obj.(*types.Func)
	if !ok {
		return nil, fmt.Errorf("no function %s in package %s", fc.Name, tp.Path())
	}
	fn := e.Prog.FuncValue(tf)
	if fn == nil {
		return nil, fmt.Errorf("no SSA for %s", fc.Key)
	}
	if fn.TypeParams().Len() > 0 {
		// generic: verify the instance named by the `instance` clause; for extern contracts the
		// contract applies to every instance (resolved at call sites through Origin()).
		return fn, nil
	}
	return fn, e.checkSig(fn, fc)
}

func (e *Engine) fileScopePos(pp *packages.Package, file string) token.Pos {
	for _, f := range pp.Syntax {
		if e.Fset.Position(f.Pos()).Filename == file {
			// position just after the imports, inside the file scope
			if len(f.Decls) > 0 {
				return f.Decls[len(f.Decls)-1].End()
			}
			return f.End()
		}
	}
	return token.NoPos
}

func (e *Engine) checkSig(fn *ssa.Function, fc *FuncContract) error {
	sig := fn.Signature
	n := sig.Params().Len()
	if len(fc.Params) != n {
		return fmt.Errorf("contract %s declares %d parameters, function has %d", fc.Key, len(fc.Params), n)
	}
	if len(fc.Results) != sig.Results().Len() {
		return fmt.Errorf("contract %s declares %d results, function has %d", fc.Key, len(fc.Results), sig.Results().Len())
	}
	return nil
}

// clauseFunc returns the SSA function generated for a clause.
func (e *Engine) clauseFunc(fc *FuncContract, c *Clause) (*ssa.Function, error) {
	sp := e.PkgOf[fc]
	fn := sp.Func(c.GoFunc)
	if fn == nil {
		return nil, fmt.Errorf("generated clause function %s not found", c.GoFunc)
	}
	return fn, nil
}

// contractFor finds the contract applying to callee when called from package from.
func (e *Engine) contractFor(from *ssa.Package, callee *ssa.Function) *FuncContract {
	if callee == nil {
		return nil
	}
	cands := []*ssa.Function{callee}
	if o := callee.Origin(); o != nil {
		cands = append(cands, o)
	}
	for _, c := range cands {
		if m := e.Contracts[from]; m != nil {
			if fc := m[c]; fc != nil {
				return fc
			}
		}
		if c.Pkg != nil {
			if m := e.Contracts[c.Pkg]; m != nil {
				if fc := m[c]; fc != nil && !fc.Extern {
					return fc
				}
			}
		}
	}
	return nil
}

// isSpecFile: functions defined in contract / stdlib-spec / generated files are spec functions.
func (e *Engine) isSpecFunc(fn *ssa.Function) bool {
	if fn == nil {
		return false
	}
	pos := fn.Pos()
	if o := fn.Origin(); o != nil {
		pos = o.Pos()
	}
	if !pos.IsValid() && fn.Parent() != nil {
		return e.isSpecFunc(fn.Parent())
	}
	base := filepath.Base(e.Fset.Position(pos).Filename)
	if strings.HasPrefix(base, "zz_verif_extract_") || base == "verif_extract.go" || base == "verif_extract_serve.go" {
		return false // a section of repository code extracted verbatim (//@ extract): code, not specification
	}
	return strings.HasPrefix(base, "verif_") || strings.HasPrefix(base, "zz_verif_")
}

// loopHeaders returns natural-loop headers of fn in block order together with their bodies.
type loopInfo struct {
	Header *ssa.BasicBlock
	Blocks map[*ssa.BasicBlock]bool
	Ord    int
}

func findLoops(fn *ssa.Function) ([]*loopInfo, error) {
	byHeader := map[*ssa.BasicBlock]*loopInfo{}
	for _, b := range fn.Blocks {
		for _, s := range b.Succs {
			if s.Dominates(b) { // back edge b -> s
				li := byHeader[s]
				if li == nil {
					li = &loopInfo{Header: s, Blocks: map[*ssa.BasicBlock]bool{s: true}}
					byHeader[s] = li
				}
				// natural loop: all blocks that reach b without passing s
				stack := []*ssa.BasicBlock{b}
				for len(stack) > 0 {
					x := stack[len(stack)-1]
					stack = stack[:len(stack)-1]
					if li.Blocks[x] {
						continue
					}
					li.Blocks[x] = true
					stack = append(stack, x.Preds...)
				}
			}
		}
	}
	var out []*loopInfo
	for _, li := range byHeader {
		out = append(out, li)
	}
	sort.Slice(out, func(i, j int) bool { return out[i].Header.Index < out[j].Header.Index })
	for i, li := range out {
		li.Ord = i
	}
	// irreducibility check: every edge into a loop body from outside must target the header
	for _, li := range out {
		for b := range li.Blocks {
			if b == li.Header {
				continue
			}
			for _, p := range b.Preds {
				if !li.Blocks[p] {
					return nil, fmt.Errorf("irreducible control flow at block %d", b.Index)
				}
			}
		}
	}
	return out, nil
}

package eng

// query.go: assembling the SMT-LIB text of one obligation.

import (
	"fmt"
	"sort"
	"strings"
)

type queryBuilder struct {
	e       *Engine
	terms   []*Term
	ops     map[string]bool
	sorts   map[string]*Sort
	consts  map[string]*Term
	syms    map[*SpecSym]bool
	exts    map[string]*ExtSym
	lits    map[string]*Term // literal sequence terms by string
	litAr   map[string]map[int]bool
	seqEqs  [][2]*Term
	byteLits map[int64]bool // integer literals 1..255 of the query (ground bit facts are stated for them when bit operations occur)
}

func (q *queryBuilder) noteSort(s *Sort) {
	if s == nil {
		return
	}
	if _, ok := q.sorts[s.Name]; ok {
		return
	}
	q.sorts[s.Name] = s
	q.noteSort(s.Elem)
	q.noteSort(s.Idx)
	for _, f := range s.Fields {
		q.noteSort(f.Sort)
	}
}

func (q *queryBuilder) scan(t *Term) {
	q.noteSort(t.Sort)
	if t.IsLit() {
		if t.Int != nil && t.Int.Sign() > 0 && t.Int.IsInt64() && t.Int.Int64() < 256 {
			if q.byteLits == nil {
				q.byteLits = map[int64]bool{}
			}
			q.byteLits[t.Int.Int64()] = true
		}
		return
	}
	if t.Op == "" && len(t.Args) == 0 {
		return
	}
	if t.Op != "" {
		q.ops[t.Op] = true
		if strings.HasPrefix(t.Op, "lit.") {
			q.lits[t.String()] = t
			sn := t.Op[4:]
			if q.litAr[sn] == nil {
				q.litAr[sn] = map[int]bool{}
			}
			q.litAr[sn][len(t.Args)] = true
		}
	}
	for _, v := range t.Vars {
		q.noteSort(v.Sort)
	}
	for _, a := range t.Args {
		q.scan(a)
	}
	for _, p := range t.Pats {
		for _, pt := range p {
			q.scan(pt)
		}
	}
}

// collectSeqEqs finds equalities between sequence terms in positive positions of the goal
// (they need the extensionality marker).
func collectSeqEqs(t *Term, pos bool, out *[][2]*Term) {
	switch t.Op {
	case "not":
		collectSeqEqs(t.Args[0], !pos, out)
	case "and", "or":
		for _, a := range t.Args {
			collectSeqEqs(a, pos, out)
		}
	case "=>":
		collectSeqEqs(t.Args[0], !pos, out)
		collectSeqEqs(t.Args[1], pos, out)
	case "ite":
		if t.Sort == SBool {
			collectSeqEqs(t.Args[1], pos, out)
			collectSeqEqs(t.Args[2], pos, out)
		}
	case "=":
		if t.Args[0].Sort.Kind == KSeq && pos {
			*out = append(*out, [2]*Term{t.Args[0], t.Args[1]})
		}
		if t.Args[0].Sort == SBool {
			collectSeqEqs(t.Args[0], true, out)
			collectSeqEqs(t.Args[0], false, out)
			collectSeqEqs(t.Args[1], true, out)
			collectSeqEqs(t.Args[1], false, out)
		}
	case "forall":
		// ground markers only
	}
}

var SFuel = &Sort{Kind: KUnint, Name: "Fuel"}

// addFuel rewrites applications of recursive spec symbols to carry a fuel argument.
func addFuel(t *Term, fuel *Term, rec map[string]bool) *Term {
	if t.IsLit() || (t.Op == "" && len(t.Args) == 0) {
		return t
	}
	changed := false
	args := make([]*Term, len(t.Args))
	for i, a := range t.Args {
		args[i] = addFuel(a, fuel, rec)
		if args[i] != a {
			changed = true
		}
	}
	var pats [][]*Term
	for _, p := range t.Pats {
		np := make([]*Term, len(p))
		for j, pt := range p {
			np[j] = addFuel(pt, fuel, rec)
			if np[j] != pt {
				changed = true
			}
		}
		pats = append(pats, np)
	}
	if rec[t.Op] {
		return &Term{Op: t.Op, Args: append([]*Term{fuel}, args...), Sort: t.Sort}
	}
	if !changed {
		return t
	}
	return &Term{Op: t.Op, Args: args, Sort: t.Sort, Vars: t.Vars, Pats: pats, Name: t.Name}
}

// BuildQuery renders facts ∧ ¬goal.
func (e *Engine) BuildQuery(facts []*Term, goal *Term, solver string, lenBound bool, fuel int, home string) (string, error) {
	// home: "<package>" or "<package>|<revealed symbol>|..." (see solve.go)
	homePkg := home
	revealed := map[string]bool{}
	if i := strings.Index(home, "|"); i >= 0 {
		homePkg = home[:i]
		for _, r := range strings.Split(home[i+1:], "|") {
			revealed[strings.TrimSpace(r)] = true
		}
	}
	q := &queryBuilder{e: e, ops: map[string]bool{}, sorts: map[string]*Sort{}, consts: map[string]*Term{}, syms: map[*SpecSym]bool{},
		exts: map[string]*ExtSym{}, lits: map[string]*Term{}, litAr: map[string]map[int]bool{}}
	neg := Not(goal)
	// ground terms that occur only inside a quantifier of the goal are invisible to E-matching until
	// the quantifier is instantiated - but they may be exactly the instance that is needed (e.g. the
	// witness of an existential). They are seeded into the E-graph through a harmless uninterpreted
	// predicate.
	seeds := map[string]*Term{}
	groundSeeds(goal, map[string]bool{}, false, nil, seeds)
	var seedFacts []*Term
	for _, k := range sortedKeys(seeds) {
		t := seeds[k]
		name := "gnd." + t.Sort.Name
		e.Defs.noteFunc(name, []*Sort{t.Sort}, SBool)
		seedFacts = append(seedFacts, App(name, SBool, t))
	}
	facts = append(append([]*Term{}, facts...), seedFacts...)
	all := append(append([]*Term{}, facts...), neg)
	for _, t := range all {
		q.scan(t)
	}
	var eqs [][2]*Term
	collectSeqEqs(goal, true, &eqs)
	for _, f := range facts {
		// equalities under negation in hypotheses are also goals
		collectSeqEqs(f, false, &eqs)
	}
	// a goal equality between sequences OF SEQUENCES (logs of strings) that are built from the same number
	// of pieces: the element equalities behind it need their own extensionality markers
	for _, p := range append([][2]*Term{}, eqs...) {
		if p[0].Sort == nil || p[0].Sort.Kind != KSeq || p[0].Sort.Elem == nil || p[0].Sort.Elem.Kind != KSeq {
			continue
		}
		a, b := flattenCat(p[0]), flattenCat(p[1])
		if len(a) != len(b) {
			continue
		}
		for i := range a {
			if strings.HasPrefix(a[i].Op, "unit.") && strings.HasPrefix(b[i].Op, "unit.") && len(a[i].Args) == 1 && len(b[i].Args) == 1 &&
				a[i].Args[0].String() != b[i].Args[0].String() {
				eqs = append(eqs, [2]*Term{a[i].Args[0], b[i].Args[0]})
			}
		}
	}
	for _, p := range eqs {
		has := func(t *Term) bool {
			fc := map[string]*Term{}
			FreeConsts(t, fc)
			for n := range fc {
				if strings.HasPrefix(n, "bv!") {
					return true
				}
			}
			return false
		}
		if has(p[0]) || has(p[1]) {
			continue
		}
		q.seqEqs = append(q.seqEqs, p)
	}
	// closure over definitions
	byName := map[string]*SpecSym{}
	for _, s := range e.Defs.syms {
		for _, n := range s.names {
			byName[n] = s
		}
	}
	extByName := map[string]*ExtSym{}
	for _, x := range e.Defs.exts {
		for _, n := range x.names {
			extByName[n] = x
		}
	}
	for changed := true; changed; {
		changed = false
		for _, op := range sortedKeys(q.ops) {
			if s := byName[op]; s != nil && !q.syms[s] {
				q.syms[s] = true
				changed = true
				for _, b := range s.Bodies {
					q.scan(b)
				}
				if s.Guard != nil {
					q.scan(s.Guard)
				}
				for _, p := range s.Params {
					q.noteSort(p.Sort)
				}
			}
			if x := extByName[op]; x != nil && q.exts[x.names[0]] == nil {
				q.exts[x.names[0]] = x
				changed = true
				if err := e.Defs.extAxioms(x); err != nil {
					return "", err
				}
				// axioms may have created new symbols
				for _, s := range e.Defs.syms {
					for _, n := range s.names {
						byName[n] = s
					}
				}
				for _, x2 := range e.Defs.exts {
					for _, n := range x2.names {
						extByName[n] = x2
					}
				}
				for _, a := range x.Axioms {
					q.scan(a)
				}
				for _, s := range x.args {
					q.noteSort(s)
				}
				for _, s := range x.sorts {
					q.noteSort(s)
				}
			}
		}
	}
	for _, t := range all {
		FreeConsts(t, q.consts)
	}
	for s := range q.syms {
		for _, b := range s.Bodies {
			fc := map[string]*Term{}
			FreeConsts(b, fc)
			for n, c := range fc {
				isParam := false
				for _, p := range s.Params {
					if p.Name == n {
						isParam = true
					}
				}
				if !isParam {
					q.consts[n] = c
				}
			}
		}
	}
	for _, x := range q.exts {
		for _, a := range x.Axioms {
			FreeConsts(a, q.consts)
		}
	}

	var sb strings.Builder
	p := func(f string, a ...any) { fmt.Fprintf(&sb, f+"\n", a...) }
	if solver == "cvc5" {
		p("(set-logic ALL)")
	} else {
		p("(set-option :smt.mbqi false)")
		p("(set-option :auto_config false)")
	}
	p("(declare-sort Ref 0)")
	p("(declare-sort Iface 0)")
	p("(declare-sort Fn 0)")
	p("(declare-fun nil.Ref () Ref)")
	p("(declare-fun nil.Iface () Iface)")
	p("(declare-fun nil.Fn () Fn)")
	p("(declare-fun typeof (Iface) Int)")
	p("(assert (= (typeof nil.Iface) 0))")
	if _, ok := q.sorts["F64"]; ok {
		p("(declare-sort F64 0)")
		p("(declare-fun f64.lit (Int) F64)")
		p("(declare-fun f64.zero () F64)")
		p("(declare-fun f64.lt (F64 F64) Bool)")
		p("(declare-fun f64.le (F64 F64) Bool)")
		p("(declare-fun f64.eq (F64 F64) Bool)")
		p("(declare-fun f64.ofint (Int) F64)")
	}
	// sorts in creation order; the Str prelude is always needed when strings occur
	for _, s := range e.Sorts.order {
		if _, used := q.sorts[s.Name]; !used {
			continue
		}
		switch s.Kind {
		case KSeq:
			var ar []int
			for k := range q.litAr[s.Name] {
				ar = append(ar, k)
			}
			sb.WriteString(seqPreludeNoLits(s))
			if lenBound {
				p("(assert (forall ((s %s)) (! (<= (len.%s s) 72057594037927936) :pattern ((len.%s s)))))", s.Name, s.Name, s.Name)
			}
			sort.Ints(ar)
			for _, k := range ar {
				p("(declare-fun lit%d.%s (%s) %s)", k, s.Name, strings.TrimSpace(strings.Repeat(s.Elem.Name+" ", k)), s.Name)
			}
			if q.ops["zeros."+s.Name] {
				p("(declare-fun zeros.%s (Int) %s)", s.Name, s.Name)
			}
		case KData:
			var fs []string
			for i, f := range s.Fields {
				fs = append(fs, fmt.Sprintf("(%s %s)", smtName(s.selName(i)), f.Sort.Name))
			}
			p("(declare-datatypes ((%s 0)) (((%s %s))))", s.Name, smtName("mk."+s.Name), strings.Join(fs, " "))
		}
	}
	// bit operations
	needBits := false
	for op := range q.ops {
		if strings.HasPrefix(op, "band") || strings.HasPrefix(op, "bor") || strings.HasPrefix(op, "bxor") || op == "pow2" || op == "bitval" {
			needBits = true
		}
	}
	if needBits {
		sb.WriteString(bitPrelude())
		// ground bit values of the byte literals of the query (masks): (x div 2^k) mod 2 with a symbolic
		// pow2 term is beyond the solvers' linear arithmetic
		var bl []int64
		for v := range q.byteLits {
			bl = append(bl, v)
		}
		sort.Slice(bl, func(i, j int) bool { return bl[i] < bl[j] })
		for _, v := range bl {
			for k := 0; k < 8; k++ {
				fmt.Fprintf(&sb, "(assert (= (bitval %d %d) %d))\n", v, k, (v>>uint(k))&1)
			}
		}
	}
	if q.ops["runestr"] {
		p("(declare-fun runestr (Int) Str)")
		p("(assert (forall ((c Int)) (! (=> (and (<= 0 c) (< c 128)) (= (runestr c) (unit.Str c))) :pattern ((runestr c)))))")
	}
	if q.ops["runes"] {
		p("(declare-fun runes (Str) Seq_Int)")
	}
	if q.ops["runes2str"] {
		p("(declare-fun runes2str (Seq_Int) Str)")
	}
	// boxes
	for _, name := range sortedKeys(e.Defs.boxes) {
		if !q.ops[name] && !q.ops["un"+name] {
			continue
		}
		b := e.Defs.boxes[name]
		p("(declare-fun %s (%s) Iface)", smtName(name), b.sort.Name)
		p("(declare-fun %s (Iface) %s)", smtName("un"+name), b.sort.Name)
		p("(assert (forall ((x %s)) (! (and (= (typeof (%s x)) %d) (= (%s (%s x)) x) (not (= (%s x) nil.Iface))) :pattern ((%s x)))))",
			b.sort.Name, smtName(name), b.tag, smtName("un"+name), smtName(name), smtName(name), smtName(name))
	}
	// other declared functions
	extDeclared := map[string]bool{}
	for _, x := range q.exts {
		for _, nm := range x.names {
			extDeclared[nm] = true
		}
	}
	for _, name := range sortedKeys(e.Defs.funcs) {
		if !q.ops[name] || extDeclared[name] {
			continue
		}
		fs := e.Defs.funcs[name]
		var as []string
		for _, a := range fs.Args {
			as = append(as, a.Name)
		}
		p("(declare-fun %s (%s) %s)", smtName(name), strings.Join(as, " "), fs.Res.Name)
	}
	// constants
	for _, n := range sortedKeys(q.consts) {
		c := q.consts[n]
		if strings.HasPrefix(n, "bv!") {
			continue
		}
		p("(declare-fun %s () %s)", smtName(n), c.Sort.Name)
	}
	// external pure symbols
	var extNames []string
	for n := range q.exts {
		extNames = append(extNames, n)
	}
	sort.Strings(extNames)
	declaredExt := map[string]bool{}
	for _, n := range extNames {
		x := q.exts[n]
		var as []string
		for _, a := range x.args {
			as = append(as, a.Name)
		}
		for i, nm := range x.names {
			if declaredExt[nm] {
				continue
			}
			declaredExt[nm] = true
			p("(declare-fun %s (%s) %s)", smtName(nm), strings.Join(as, " "), x.sorts[i].Name)
		}
	}
	// spec symbols: recursive ones declared first, then non-recursive definitions in dependency order
	var syms []*SpecSym
	for _, s := range e.Defs.order {
		if q.syms[s] {
			syms = append(syms, s)
		}
	}
	argList := func(s *SpecSym) string {
		var as []string
		for _, a := range s.ArgSorts {
			as = append(as, a.Name)
		}
		return strings.Join(as, " ")
	}
	for s := range q.syms {
		if s.Uninterpreted {
			continue
		}
		if s.inProg || s.Bodies == nil {
			return "", fmt.Errorf("spec function %s used before its definition is complete", s.Fn.Name())
		}
	}
	for _, s := range syms {
		if s.Uninterpreted {
			for i, n := range s.names {
				p("(declare-fun %s (%s) %s)", smtName(n), argList(s), s.ResSorts[i].Name)
			}
		}
	}
	// symbols used inside triggers cannot be macros: they are declared and given a definitional axiom
	opaque := map[string]bool{}
	var patOps func(t *Term)
	patOps = func(t *Term) {
		for _, ps := range t.Pats {
			for _, pt := range ps {
				Ops(pt, opaque)
			}
		}
		for _, a := range t.Args {
			patOps(a)
		}
	}
	for _, t := range all {
		patOps(t)
	}
	for _, x := range q.exts {
		for _, a := range x.Axioms {
			patOps(a)
		}
	}
	isOpaque := func(s *SpecSym) bool {
		for _, n := range s.names {
			if opaque[n] {
				return true
			}
		}
		return false
	}
	rec := map[string]bool{}
	for _, s := range syms {
		if s.Recursive {
			for _, n := range s.names {
				rec[n] = true
			}
		}
	}
	fuelN := e.Fuel
	if fuel > 0 {
		fuelN = fuel
	}
	if fuelN <= 0 {
		fuelN = 2
	}
	topFuel := App("fuel0", SFuel)
	for i := 0; i < fuelN; i++ {
		topFuel = App("SF", SFuel, topFuel)
	}
	fu := Const("fu", SFuel)
	if len(rec) > 0 {
		p("(declare-sort Fuel 0)")
		p("(declare-fun fuel0 () Fuel)")
		p("(declare-fun SF (Fuel) Fuel)")
	}
	for _, s := range syms {
		if s.Recursive {
			for i, n := range s.names {
				p("(declare-fun %s (Fuel %s) %s)", smtName(n), argList(s), s.ResSorts[i].Name)
			}
		}
	}
	for _, s := range syms {
		if !s.Recursive && isOpaque(s) && !s.Uninterpreted {
			for i, n := range s.names {
				p("(declare-fun %s (%s) %s)", smtName(n), argList(s), s.ResSorts[i].Name)
			}
		}
	}
	for _, s := range syms { // e.Defs.order is a post-order: dependencies first
		if s.Recursive || s.Uninterpreted {
			continue
		}
		if isOpaque(s) {
			for i, n := range s.names {
				app := App(n, s.ResSorts[i], s.Params...)
				body := Implies(s.Guard, Eq(app, addFuel(s.Bodies[i], topFuel, rec)))
				if len(s.Params) == 0 {
					p("(assert %s)", body)
				} else {
					pats := [][]*Term{{app}}
					// a wrapper (body is one application over exactly the parameters, e.g. the projection of a
					// result of an external function) is also instantiated from the wrapped term
					if w := addFuel(s.Bodies[i], topFuel, rec); w.Op != "" && len(w.Args) == len(s.Params) && w.Op != "ite" && w.Op != "=" && w.Op != "and" && w.Op != "or" && w.Op != "not" {
						same := true
						for k, a := range w.Args {
							if a.String() != s.Params[k].String() {
								same = false
							}
						}
						if same {
							pats = append(pats, []*Term{w})
						}
					}
					p("(assert %s)", Forall(s.Params, body, pats...))
				}
			}
			continue
		}
		var ps []string
		for _, v := range s.Params {
			ps = append(ps, fmt.Sprintf("(%s %s)", smtName(v.Name), v.Sort.Name))
		}
		for i, n := range s.names {
			p("(define-fun %s (%s) %s %s)", smtName(n), strings.Join(ps, " "), s.ResSorts[i].Name, addFuel(s.Bodies[i], topFuel, rec))
		}
	}
	for _, s := range syms {
		if !s.Recursive {
			continue
		}
		if home != "" && len(s.names) > 0 && !strings.HasPrefix(s.names[0], homePkg+".") && !strings.HasPrefix(s.names[0], "std.") && !revealed[s.names[0]] {
			// a recursive spec function of another package (reachable only through the contract of a
			// pure function of that package) stays opaque here: no unfolding axiom (fewer hypotheses);
			// only "fuel does not matter", so that hypotheses and goal speak about the same value
			for i, n := range s.names {
				appS := App(n, s.ResSorts[i], append([]*Term{App("SF", SFuel, fu)}, s.Params...)...)
				app0 := App(n, s.ResSorts[i], append([]*Term{fu}, s.Params...)...)
				p("(assert %s)", Forall(append([]*Term{fu}, s.Params...), Eq(appS, app0), []*Term{appS}))
			}
			continue
		}
		for i, n := range s.names {
			appS := App(n, s.ResSorts[i], append([]*Term{App("SF", SFuel, fu)}, s.Params...)...)
			app0 := App(n, s.ResSorts[i], append([]*Term{fu}, s.Params...)...)
			body := And(Eq(appS, app0), Implies(s.Guard, Eq(appS, addFuel(s.Bodies[i], fu, rec))))
			p("(assert %s)", Forall(append([]*Term{fu}, s.Params...), body, []*Term{appS}))
		}
	}
	for _, n := range extNames {
		for _, a := range q.exts[n].Axioms {
			p("(assert %s)", addFuel(a, topFuel, rec))
		}
	}
	// literal facts
	for _, k := range sortedKeys(q.lits) {
		l := q.lits[k]
		fc := map[string]*Term{}
		FreeConsts(l, fc)
		bound := false
		for n := range fc {
			if strings.HasPrefix(n, "bv!") || strings.HasPrefix(n, "x") && strings.Contains(n, "!") && isParamName(n) {
				bound = true
			}
		}
		if bound {
			continue
		}
		sn := l.Sort.Name
		p("(assert (= (len.%s %s) %d))", sn, l, len(l.Args))
		for i, a := range l.Args {
			p("(assert (= (at.%s %s %d) %s))", sn, l, i, a)
		}
	}
	for i, pair := range q.seqEqs {
		_ = i
		p("(assert (eqm.%s %s %s))", pair[0].Sort.Name, addFuel(pair[0], topFuel, rec), addFuel(pair[1], topFuel, rec))
	}
	hypFuel := topFuel.Args[0] // one unfolding less for hypotheses than for the goal (as Dafny does)
	if e.HypFuelFull {
		hypFuel = topFuel
	}
	for _, n := range sortedKeys(q.consts) {
		if strings.HasPrefix(n, "global!") && e.sentinels[n] != nil {
			p("(assert (not (= %s nil.Iface)))", smtName(n))
		}
		if strings.HasPrefix(n, "global!") && e.nonNilGlobals[n] {
			p("(assert (not (= %s nil.Ref)))", smtName(n))
		}
	}
	for _, f := range facts {
		p("(assert %s)", addFuel(f, hypFuel, rec))
	}
	p("(assert %s)", addFuel(neg, topFuel, rec))
	p("(check-sat)")
	return sb.String(), nil
}

// groundSeeds collects, inside quantifiers of t, the ground applications whose head symbol is the head
// of a pattern of an enclosing quantifier.
func groundSeeds(t *Term, bound map[string]bool, inQ bool, heads map[string]bool, out map[string]*Term) {
	if t == nil || t.IsLit() {
		return
	}
	if t.Op == "forall" || t.Op == "exists" {
		nb := map[string]bool{}
		for k := range bound {
			nb[k] = true
		}
		for _, v := range t.Vars {
			nb[v.Name] = true
		}
		nh := map[string]bool{}
		for k := range heads {
			nh[k] = true
		}
		for _, ps := range t.Pats {
			for _, p := range ps {
				if p.Op != "" {
					nh[p.Op] = true
				}
			}
		}
		groundSeeds(t.Args[0], nb, true, nh, out)
		return
	}
	if inQ && t.Op != "" && heads[t.Op] && len(out) < 24 {
		fc := map[string]*Term{}
		FreeConsts(t, fc)
		ground := true
		for n := range fc {
			if bound[n] {
				ground = false
			}
		}
		if ground {
			out[t.String()] = t
		}
	}
	for _, a := range t.Args {
		groundSeeds(a, bound, inQ, heads, out)
	}
}

func isParamName(n string) bool {
	// spec-function bound parameters are named x<i>!<name>
	if len(n) < 3 || n[0] != 'x' {
		return false
	}
	i := 1
	for i < len(n) && n[i] >= '0' && n[i] <= '9' {
		i++
	}
	return i > 1 && i < len(n) && n[i] == '!'
}

func seqPreludeNoLits(s *Sort) string { return seqPrelude(s, nil) }

func bitPrelude() string {
	// Bit operations on bytes are uninterpreted symbols with bit-wise axioms over bitval(x, k) in {0,1}
	// (k-th bit of x, 0 <= k < 8). The axioms are facts of 8-bit arithmetic; the selftest checks them by
	// exhaustive enumeration.
	var sb strings.Builder
	sb.WriteString("(declare-fun bitval (Int Int) Int)\n")
	sb.WriteString("(declare-fun pow2 (Int) Int)\n")
	for k := 0; k < 64; k++ {
		fmt.Fprintf(&sb, "(assert (= (pow2 %d) %s))\n", k, pow2(uint(k)).String())
	}
	sb.WriteString("(assert (forall ((k Int)) (! (=> (and (<= 0 k) (< k 64)) (and (<= 1 (pow2 k)) (<= (pow2 k) 9223372036854775808))) :pattern ((pow2 k)))))\n")
	sb.WriteString("(assert (forall ((k Int)) (! (=> (and (<= 0 k) (< k 8)) (<= (pow2 k) 128)) :pattern ((pow2 k)))))\n")
	sb.WriteString("(assert (forall ((x Int) (k Int)) (! (and (<= 0 (bitval x k)) (<= (bitval x k) 1)) :pattern ((bitval x k)))))\n")
	sb.WriteString("(assert (forall ((k Int)) (! (= (bitval 0 k) 0) :pattern ((bitval 0 k)))))\n")
	sb.WriteString("(assert (forall ((k Int) (m Int)) (! (=> (and (<= 0 k) (< k 8) (<= 0 m) (< m 8)) (= (bitval (pow2 k) m) (ite (= k m) 1 0))) :pattern ((bitval (pow2 k) m)))))\n")
	// definition of bitval on bytes (for ground reasoning): bitval(x,k) = (x div 2^k) mod 2
	sb.WriteString("(assert (forall ((x Int) (k Int)) (! (=> (and (<= 0 x) (< x 256) (<= 0 k) (< k 8)) (= (bitval x k) (mod (div x (pow2 k)) 2))) :pattern ((bitval x k)))))\n")
	// the same with literal divisors (division by the symbolic term pow2(k) is outside linear arithmetic)
	for k := 0; k < 8; k++ {
		fmt.Fprintf(&sb, "(assert (forall ((x Int)) (! (=> (and (<= 0 x) (< x 256)) (= (bitval x %d) (mod (div x %d) 2))) :pattern ((bitval x %d)))))\n", k, 1<<uint(k), k)
	}
	ops := map[string]string{
		"band8":    "(ite (and (= (bitval x k) 1) (= (bitval y k) 1)) 1 0)",
		"bor8":     "(ite (or (= (bitval x k) 1) (= (bitval y k) 1)) 1 0)",
		"bxor8":    "(ite (distinct (bitval x k) (bitval y k)) 1 0)",
		"bandnot8": "(ite (and (= (bitval x k) 1) (= (bitval y k) 0)) 1 0)",
	}
	for _, name := range sortedKeys(ops) {
		fmt.Fprintf(&sb, "(declare-fun %s (Int Int) Int)\n", name)
		fmt.Fprintf(&sb, "(assert (forall ((x Int) (y Int)) (! (and (<= 0 (%s x y)) (< (%s x y) 256)) :pattern ((%s x y)))))\n", name, name, name)
		fmt.Fprintf(&sb, "(assert (forall ((x Int) (y Int) (k Int)) (! (=> (and (<= 0 x) (< x 256) (<= 0 y) (< y 256) (<= 0 k) (< k 8)) (= (bitval (%s x y) k) %s)) :pattern ((bitval (%s x y) k)))))\n", name, ops[name], name)
	}
	sb.WriteString("(assert (forall ((x Int)) (! (=> (and (<= 0 x) (< x 256)) (and (= (bor8 x 0) x) (= (bor8 0 x) x) (= (band8 x 0) 0) (= (bxor8 x 0) x) (= (bandnot8 x 0) x))) :pattern ((bor8 x 0)) :pattern ((bor8 0 x)) :pattern ((band8 x 0)) :pattern ((bxor8 x 0)) :pattern ((bandnot8 x 0)))))\n")
	// mask containment: x&y == y exactly when every bit of y is set in x (the form requirement masks are tested in)
	{
		var conj []string
		for k := 0; k < 8; k++ {
			conj = append(conj, fmt.Sprintf("(=> (= (bitval y %d) 1) (= (bitval x %d) 1))", k, k))
		}
		sb.WriteString("(assert (forall ((x Int) (y Int)) (! (=> (and (<= 0 x) (< x 256) (<= 0 y) (< y 256)) (= (= (band8 x y) y) (and " + strings.Join(conj, " ") + "))) :pattern ((band8 x y)))))\n")
	}
	// byte extensionality: two bytes with the same bits are equal (behind the marker beq8)
	sb.WriteString("(declare-fun beq8 (Int Int) Bool)\n")
	sb.WriteString("(assert (forall ((x Int) (y Int)) (! (=> (and (<= 0 x) (< x 256) (<= 0 y) (< y 256) (= (bitval x 0) (bitval y 0)) (= (bitval x 1) (bitval y 1)) (= (bitval x 2) (bitval y 2)) (= (bitval x 3) (bitval y 3)) (= (bitval x 4) (bitval y 4)) (= (bitval x 5) (bitval y 5)) (= (bitval x 6) (bitval y 6)) (= (bitval x 7) (bitval y 7))) (= x y)) :pattern ((beq8 x y)))))\n")
	for _, name := range []string{"band64", "bor64", "bxor64", "bandnot64"} {
		fmt.Fprintf(&sb, "(declare-fun %s (Int Int) Int)\n", name)
	}
	return sb.String()
}

// relevantFacts prunes the hypotheses of an obligation to those connected with the goal through
// local constants (SSA values, call results, havocked state). Parameters, initial heap arrays and
// reachability flags do not count as connections; definitions of reachability flags and facts
// without local constants are always kept. Dropping hypotheses is sound.
func relevantFacts(facts []*Term, goal *Term) []*Term {
	local := func(n string) bool {
		return !(strings.HasPrefix(n, "param!") || strings.HasPrefix(n, "init!") || strings.Contains(n, "reach!") || strings.HasPrefix(n, "bv!") ||
			strings.HasPrefix(n, "global!"))
	}
	syms := make([][]string, len(facts))
	isReachDef := make([]bool, len(facts))
	for i, f := range facts {
		if f.Op == "=" && f.Args[0].Op == "" && strings.Contains(f.Args[0].Name, "reach!") {
			isReachDef[i] = true
			continue
		}
		fc := map[string]*Term{}
		FreeConsts(f, fc)
		for n := range fc {
			if local(n) {
				syms[i] = append(syms[i], n)
			}
		}
	}
	rel := map[string]bool{}
	gc := map[string]*Term{}
	FreeConsts(goal, gc)
	reachDef := map[string]int{}
	for i, f := range facts {
		if isReachDef[i] {
			reachDef[f.Args[0].Name] = i
		}
	}
	// the goal's own path: follow reach definitions back to the nearest loop-header cut
	var work []string
	seenReach := map[string]bool{}
	for n := range gc {
		if local(n) {
			rel[n] = true
		} else if strings.Contains(n, "reach!") {
			work = append(work, n)
		}
	}
	direct := map[string]bool{}
	for _, n := range work {
		direct[n] = true
	}
	// beyond a loop-header cut the path conditions are still followed, but only the DEFINITIONS of the
	// named conditions are kept (condOnly), not every fact that mentions them: enough to know that a
	// block inside the loop is unreachable under the function's preconditions, without dragging the
	// pre-loop heap facts into every loop-body query
	beyond := map[string]bool{}
	condOnly := map[string]bool{}
	for len(work) > 0 {
		n := work[len(work)-1]
		work = work[:len(work)-1]
		if seenReach[n] {
			continue
		}
		seenReach[n] = true
		i, ok := reachDef[n]
		if !ok {
			continue
		}
		// a loop-header cut that is not the goal's own block: the path BEFORE the loop is not followed
		// further (the invariant carries what the loop needs), but the named condition under which the
		// loop was entered stays relevant (e.g. the switch case the loop sits in)
		// (only loops of the function under verification: a loop of an inlined callee has no invariant
		// and is tolerated only when unreachable, so there is nothing that would carry the facts)
		cut := strings.HasPrefix(n, "reach!hdr!") && !direct[n]
		if cut {
			beyond[n] = true
		}
		dc := map[string]*Term{}
		FreeConsts(facts[i].Args[1], dc)
		for m := range dc {
			if local(m) {
				if beyond[n] {
					condOnly[m] = true
				} else {
					rel[m] = true
				}
			} else if strings.Contains(m, "reach!") {
				if cut || beyond[n] {
					beyond[m] = true
				}
				work = append(work, m)
			}
		}
	}
	keep := make([]bool, len(facts))
	for i := range facts {
		if isReachDef[i] || len(syms[i]) == 0 {
			keep[i] = true
		}
	}
	// definitions of condition constants beyond a cut (transitively through definitions only)
	defOf := map[string]int{}
	for i, f := range facts {
		if f.Op == "=" && f.Args[0].Op == "" && f.Args[0].Name != "" && !isReachDef[i] {
			if _, dup := defOf[f.Args[0].Name]; !dup {
				defOf[f.Args[0].Name] = i
			}
		}
	}
	var cw []string
	for n := range condOnly {
		cw = append(cw, n)
	}
	seenCond := map[string]bool{}
	for len(cw) > 0 && len(seenCond) < 400 {
		n := cw[len(cw)-1]
		cw = cw[:len(cw)-1]
		if seenCond[n] {
			continue
		}
		seenCond[n] = true
		if i, ok := defOf[n]; ok {
			keep[i] = true
			dc := map[string]*Term{}
			FreeConsts(facts[i].Args[1], dc)
			for m := range dc {
				if local(m) {
					cw = append(cw, m)
				}
			}
		}
	}
	for changed := true; changed; {
		changed = false
		for i := range facts {
			if keep[i] {
				continue
			}
			hit := false
			for _, n := range syms[i] {
				if rel[n] {
					hit = true
					break
				}
			}
			if hit {
				keep[i] = true
				changed = true
				for _, n := range syms[i] {
					rel[n] = true
				}
			}
		}
	}
	var out []*Term
	for i, f := range facts {
		if keep[i] {
			out = append(out, f)
		}
	}
	return out
}

// flattenCat lists the pieces of a (nested) concatenation, left to right.
func flattenCat(t *Term) []*Term {
	if t != nil && strings.HasPrefix(t.Op, "cat.") && len(t.Args) == 2 {
		return append(flattenCat(t.Args[0]), flattenCat(t.Args[1])...)
	}
	return []*Term{t}
}

package eng

// solve.go: running the SMT solvers on a query.

import (
	"bytes"
	"context"
	"os"
	"os/exec"
	"path/filepath"
	"strings"
	"sync"
	"time"
)

// SolverResult is the answer of one back end.
type SolverResult struct {
	Solver string
	Answer string // unsat, sat, unknown, timeout, error
	Time   float64
	Output string
}

// Verdict of an obligation.
type Verdict struct {
	Obl       *Obligation
	Status    string // discharged, failed, error
	By        string // solver that discharged
	Results   []SolverResult
	Time      float64
	QueryFile string
	Err       string
}

var solverCmds = map[string][]string{
	"z3":     {"z3", "-in", "-smt2"},
	"z3-new": {"z3-new", "-in", "-smt2"},
	"cvc5":   {"cvc5", "--lang=smt2", "--tlimit-per=%TIMEOUT_MS%", "-"},
}

// AvailableSolvers lists back ends found on PATH.
func AvailableSolvers() []string {
	var out []string
	for _, s := range []string{"z3-new", "z3", "cvc5"} {
		if _, err := exec.LookPath(solverCmds[s][0]); err == nil {
			out = append(out, s)
		}
	}
	return out
}

func runSolver(ctx context.Context, solver, query string, timeout time.Duration) SolverResult {
	args := append([]string{}, solverCmds[solver]...)
	for i := range args {
		args[i] = strings.ReplaceAll(args[i], "%TIMEOUT_MS%", itoa(int(timeout.Milliseconds())))
	}
	if strings.HasPrefix(solver, "z3") {
		args = append(args, "-T:"+itoa(int(timeout.Seconds())+1))
	}
	cctx, cancel := context.WithTimeout(ctx, timeout+2*time.Second)
	defer cancel()
	cmd := exec.CommandContext(cctx, args[0], args[1:]...)
	cmd.Stdin = strings.NewReader(query)
	var out bytes.Buffer
	cmd.Stdout = &out
	cmd.Stderr = &out
	start := time.Now()
	err := cmd.Run()
	el := time.Since(start).Seconds()
	first := ""
	for _, ln := range strings.Split(out.String(), "\n") {
		ln = strings.TrimSpace(ln)
		if ln == "" || strings.HasPrefix(ln, "WARNING") {
			continue
		}
		first = ln
		break
	}
	res := SolverResult{Solver: solver, Time: el, Output: truncate(out.String(), 2000)}
	switch {
	case first == "unsat" || first == "sat" || first == "unknown":
		res.Answer = first
	case first == "timeout" || cctx.Err() != nil || strings.Contains(out.String(), "timeout") || strings.Contains(out.String(), "interrupted"):
		res.Answer = "timeout"
	default:
		res.Answer = "error"
		if err != nil && res.Output == "" {
			res.Output = err.Error()
		}
	}
	return res
}

func itoa(n int) string {
	if n == 0 {
		return "0"
	}
	neg := n < 0
	if neg {
		n = -n
	}
	var b []byte
	for n > 0 {
		b = append([]byte{byte('0' + n%10)}, b...)
		n /= 10
	}
	if neg {
		b = append([]byte{'-'}, b...)
	}
	return string(b)
}

func truncate(s string, n int) string {
	if len(s) > n {
		return s[:n] + "…"
	}
	return s
}

// Solve races the solvers on one obligation. The first `unsat` wins and stops the others; if a
// solver answers `sat` the obligation fails (quantified queries normally end in unknown/timeout).
func (e *Engine) Solve(o *Obligation, solvers []string, timeout time.Duration, dumpDir string) *Verdict {
	v := &Verdict{Obl: o}
	start := time.Now()
	if o.Goal.IsTrue() {
		v.Status = "discharged"
		v.By = "simplifier"
		return v
	}
	queries, err := func() (map[string]string, error) {
		e.qmu.Lock() // query construction may extend the (shared) definition tables
		defer e.qmu.Unlock()
		facts := o.ctx.facts[:o.NFacts]
		if !e.NoPrune {
			facts = relevantFacts(facts, o.Goal)
		}
		qs := map[string]string{}
		for _, s := range solvers {
			kind := "z3"
			if s == "cvc5" {
				kind = "cvc5"
			}
			if _, ok := qs[kind]; !ok {
				home := ""
				if i := strings.Index(o.ctx.fnKey, "."); i > 0 {
					home = o.ctx.fnKey[:i]
				}
				if len(o.ctx.reveal) > 0 {
					home += "|" + strings.Join(o.ctx.reveal, "|")
				}
				q, err := e.BuildQuery(facts, o.Goal, kind, o.LenBound, o.Fuel, home)
				if err != nil {
					return nil, err
				}
				qs[kind] = q
			}
		}
		return qs, nil
	}()
	if err != nil {
		v.Status = "error"
		v.Err = err.Error()
		return v
	}
	if dumpDir != "" {
		fn := filepath.Join(dumpDir, sanitizeFile(o.Name)+".smt2")
		os.MkdirAll(dumpDir, 0o755)
		os.WriteFile(fn, []byte(queries["z3"]), 0o644)
		v.QueryFile = fn
	}
	ctx, cancel := context.WithCancel(context.Background())
	defer cancel()
	var mu sync.Mutex
	var wg sync.WaitGroup
	nz, nzTotal := 0, 0
	for _, s := range solvers {
		if strings.HasPrefix(s, "z3") {
			nzTotal++
		}
	}
	for _, s := range solvers {
		wg.Add(1)
		go func(s string) {
			defer wg.Done()
			kind := "z3"
			if s == "cvc5" {
				kind = "cvc5"
			}
			r := runSolver(ctx, s, queries[kind], timeout)
			mu.Lock()
			defer mu.Unlock()
			if strings.HasPrefix(s, "z3") && (r.Answer == "unknown" || r.Answer == "sat") {
				// when every z3 has given up quickly (E-matching saturated), cvc5 gets a short grace period only
				nz++
				if nz == nzTotal && e.Grace > 0 {
					go func() {
						time.Sleep(e.Grace)
						cancel()
					}()
				}
			}
			if ctx.Err() != nil && r.Answer != "unsat" && r.Answer != "sat" {
				r.Answer = "cancelled"
			}
			v.Results = append(v.Results, r)
			if r.Answer == "unsat" && v.By == "" {
				v.By = s
				cancel()
			}
		}(s)
	}
	wg.Wait()
	v.Time = time.Since(start).Seconds()
	sat := false
	for _, r := range v.Results {
		if r.Answer == "sat" {
			sat = true
		}
	}
	switch {
	case v.By != "" && sat:
		v.Status = "error"
		v.Err = "solver disagreement (sat vs unsat)"
	case v.By != "":
		v.Status = "discharged"
	default:
		v.Status = "failed"
	}
	return v
}

func sanitizeFile(s string) string {
	r := strings.NewReplacer("/", "_", ":", "_", "(", "", ")", "", "*", "", " ", "_")
	return r.Replace(s)
}

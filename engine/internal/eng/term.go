// Package eng is the verification-condition generator and driver of govc.
//
// term.go: sorts and terms of the logic the obligations are stated in, plus a
// small constructor-level simplifier. Terms are printed as SMT-LIB 2.
package eng

import (
	"fmt"
	"math/big"
	"sort"
	"strings"
)

// SortKind enumerates the kinds of sorts.
type SortKind int

const (
	KBool SortKind = iota
	KInt
	KRef   // pointers (uninterpreted)
	KSeq   // finite sequence over Elem
	KData  // struct datatype
	KIface // interface values
	KArr   // SMT array Idx -> Elem (heap fields, maps)
	KFn    // opaque function value
	KReal  // exact reals (used for float comparisons over rationals is not attempted; placeholder)
	KUnint // other uninterpreted sort (named)
)

// Sort is an SMT sort. Sorts are interned by name.
type Sort struct {
	Kind   SortKind
	Name   string  // SMT name
	Elem   *Sort   // KSeq, KArr: element sort
	Idx    *Sort   // KArr: index sort
	Fields []Field // KData
	GoName string  // KData: go type string, for messages
}

// Field of a struct datatype.
type Field struct {
	Name string
	Sort *Sort
}

func (s *Sort) String() string { return s.Name }

var (
	SBool  = &Sort{Kind: KBool, Name: "Bool"}
	SInt   = &Sort{Kind: KInt, Name: "Int"}
	SRef   = &Sort{Kind: KRef, Name: "Ref"}
	SIface = &Sort{Kind: KIface, Name: "Iface"}
	SFn    = &Sort{Kind: KFn, Name: "Fn"}
)

// Term is a logical term.
type Term struct {
	Op   string // operator / function symbol; "" for literals and bound/free constants
	Args []*Term
	Sort *Sort
	// literals
	Int  *big.Int // integer literal if non-nil
	Bool *bool    // boolean literal if non-nil
	Name string   // constant / variable name (Op=="" and no literal)
	// quantifiers: Op == "forall"/"exists"; Vars bound; Args[0] body; Pats patterns
	Vars []*Term
	Pats [][]*Term
	str  string
}

func mkBool(b bool) *Term { return &Term{Sort: SBool, Bool: &b} }

var (
	TTrue  = mkBool(true)
	TFalse = mkBool(false)
)

// IntLit makes an integer literal.
func IntLit(v int64) *Term { return &Term{Sort: SInt, Int: big.NewInt(v)} }

// BigLit makes an integer literal from a big.Int.
func BigLit(v *big.Int) *Term { return &Term{Sort: SInt, Int: new(big.Int).Set(v)} }

// Const makes a named constant of the given sort.
func Const(name string, s *Sort) *Term { return &Term{Name: name, Sort: s} }

// App makes an application without simplification.
func App(op string, s *Sort, args ...*Term) *Term { return &Term{Op: op, Args: args, Sort: s} }

func (t *Term) IsTrue() bool  { return t.Bool != nil && *t.Bool }
func (t *Term) IsFalse() bool { return t.Bool != nil && !*t.Bool }
func (t *Term) IsLit() bool   { return t.Int != nil || t.Bool != nil }

// String prints the SMT-LIB form (cached).
func (t *Term) String() string {
	if t.str != "" {
		return t.str
	}
	var sb strings.Builder
	t.write(&sb)
	t.str = sb.String()
	return t.str
}

func (t *Term) write(sb *strings.Builder) {
	switch {
	case t.Int != nil:
		if t.Int.Sign() < 0 {
			sb.WriteString("(- ")
			sb.WriteString(new(big.Int).Neg(t.Int).String())
			sb.WriteString(")")
		} else {
			sb.WriteString(t.Int.String())
		}
	case t.Bool != nil:
		if *t.Bool {
			sb.WriteString("true")
		} else {
			sb.WriteString("false")
		}
	case t.Op == "" && len(t.Args) == 0:
		sb.WriteString(smtName(t.Name))
	case t.Op == "forall" || t.Op == "exists":
		sb.WriteString("(")
		sb.WriteString(t.Op)
		sb.WriteString(" (")
		for _, v := range t.Vars {
			fmt.Fprintf(sb, "(%s %s)", smtName(v.Name), v.Sort.Name)
		}
		sb.WriteString(") ")
		if len(t.Pats) > 0 {
			sb.WriteString("(! ")
		}
		t.Args[0].write(sb)
		for _, p := range t.Pats {
			sb.WriteString(" :pattern (")
			for i, pt := range p {
				if i > 0 {
					sb.WriteString(" ")
				}
				pt.write(sb)
			}
			sb.WriteString(")")
		}
		if len(t.Pats) > 0 {
			sb.WriteString(")")
		}
		sb.WriteString(")")
	case t.Op == "constarr":
		fmt.Fprintf(sb, "((as const %s) ", t.Sort.Name)
		t.Args[0].write(sb)
		sb.WriteString(")")
	default:
		if len(t.Args) == 0 {
			sb.WriteString(smtName(t.Op))
			return
		}
		sb.WriteString("(")
		if strings.HasPrefix(t.Op, "lit.") {
			fmt.Fprintf(sb, "lit%d.%s", len(t.Args), t.Op[4:])
		} else {
			sb.WriteString(smtOp(t.Op))
		}
		for _, a := range t.Args {
			sb.WriteString(" ")
			a.write(sb)
		}
		sb.WriteString(")")
	}
}

func smtOp(op string) string {
	switch op {
	case "and", "or", "not", "=>", "=", "ite", "+", "-", "*", "div", "mod", "<", "<=", ">", ">=", "select", "store", "distinct":
		return op
	}
	return smtName(op)
}

// smtName quotes a symbol when needed.
func smtName(n string) string {
	ok := n != ""
	for i := 0; i < len(n) && ok; i++ {
		c := n[i]
		switch {
		case c >= 'a' && c <= 'z', c >= 'A' && c <= 'Z', c >= '0' && c <= '9' && i > 0:
		case strings.IndexByte("_.$!@%^&*+-/<>=?~", c) >= 0:
		default:
			ok = false
		}
	}
	if ok {
		return n
	}
	return "|" + strings.NewReplacer("|", "!", "\\", "!").Replace(n) + "|"
}

// ---- smart constructors ---------------------------------------------------

func Not(a *Term) *Term {
	switch {
	case a.IsTrue():
		return TFalse
	case a.IsFalse():
		return TTrue
	case a.Op == "not":
		return a.Args[0]
	}
	return App("not", SBool, a)
}

func And(as ...*Term) *Term {
	var out []*Term
	for _, a := range as {
		if a == nil || a.IsTrue() {
			continue
		}
		if a.IsFalse() {
			return TFalse
		}
		if a.Op == "and" {
			out = append(out, a.Args...)
			continue
		}
		out = append(out, a)
	}
	switch len(out) {
	case 0:
		return TTrue
	case 1:
		return out[0]
	}
	return App("and", SBool, out...)
}

func Or(as ...*Term) *Term {
	var out []*Term
	for _, a := range as {
		if a == nil || a.IsFalse() {
			continue
		}
		if a.IsTrue() {
			return TTrue
		}
		if a.Op == "or" {
			out = append(out, a.Args...)
			continue
		}
		out = append(out, a)
	}
	switch len(out) {
	case 0:
		return TFalse
	case 1:
		return out[0]
	}
	return App("or", SBool, out...)
}

func Implies(a, b *Term) *Term {
	switch {
	case a.IsTrue():
		return b
	case a.IsFalse() || b.IsTrue():
		return TTrue
	case b.IsFalse():
		return Not(a)
	}
	return App("=>", SBool, a, b)
}

func Eq(a, b *Term) *Term {
	if a.Sort != b.Sort {
		panic(fmt.Sprintf("Eq: sort mismatch %s vs %s in (= %s %s)", a.Sort, b.Sort, a, b))
	}
	if a == b || a.String() == b.String() {
		return TTrue
	}
	if a.Int != nil && b.Int != nil {
		return mkBool(a.Int.Cmp(b.Int) == 0)
	}
	if a.Bool != nil && b.Bool != nil {
		return mkBool(*a.Bool == *b.Bool)
	}
	if a.Sort == SBool {
		if a.IsTrue() {
			return b
		}
		if b.IsTrue() {
			return a
		}
		if a.IsFalse() {
			return Not(b)
		}
		if b.IsFalse() {
			return Not(a)
		}
	}
	// comparison with a short string literal: state length and elements as well (extensionality instance)
	if a.Sort.Kind == KSeq && a.Sort.Elem == SInt {
		if la, oka := seqLiteral(a); oka {
			if _, okb := seqLiteral(b); !okb && len(la) <= 12 {
				return eqLit(b, a, la)
			}
		} else if lb, okb := seqLiteral(b); okb && len(lb) <= 12 {
			return eqLit(a, b, lb)
		}
	}
	return App("=", SBool, a, b)
}

// seqLiteral returns the elements of a ground literal sequence term.
func seqLiteral(t *Term) ([]*Term, bool) {
	n := t.Sort.Name
	switch t.Op {
	case "empty." + n:
		return nil, true
	case "unit." + n:
		if t.Args[0].Int != nil {
			return []*Term{t.Args[0]}, true
		}
	case "cat." + n:
		a, ok := seqLiteral(t.Args[0])
		if !ok {
			return nil, false
		}
		b, ok := seqLiteral(t.Args[1])
		if !ok {
			return nil, false
		}
		return append(append([]*Term{}, a...), b...), true
	case "lit." + n:
		for _, a := range t.Args {
			if a.Int == nil {
				return nil, false
			}
		}
		return t.Args, true
	}
	return nil, false
}

func eqLit(x, lit *Term, elems []*Term) *Term {
	n := x.Sort.Name
	cs := []*Term{App("=", SBool, x, lit), App("=", SBool, App("len."+n, SInt, x), IntLit(int64(len(elems))))}
	for i, e := range elems {
		cs = append(cs, App("=", SBool, App("at."+n, SInt, x, IntLit(int64(i))), e))
	}
	return App("and", SBool, cs...)
}

func Ite(c, a, b *Term) *Term {
	if a.Sort != b.Sort {
		panic(fmt.Sprintf("Ite: sort mismatch %s vs %s", a.Sort, b.Sort))
	}
	switch {
	case c.IsTrue():
		return a
	case c.IsFalse():
		return b
	case a == b || a.String() == b.String():
		return a
	}
	if a.Sort == SBool {
		switch {
		case a.IsTrue() && b.IsFalse():
			return c
		case a.IsFalse() && b.IsTrue():
			return Not(c)
		case a.IsTrue():
			return Or(c, b)
		case b.IsFalse():
			return And(c, a)
		case a.IsFalse():
			return And(Not(c), b)
		case b.IsTrue():
			return Or(Not(c), a)
		}
	}
	// ite(c, ite(d, x, y), y) = ite(c && d, x, y);  ite(c, x, ite(d, x, y)) = ite(c || d, x, y)
	if a.Op == "ite" && a.Args[2].String() == b.String() {
		return Ite(And(c, a.Args[0]), a.Args[1], b)
	}
	if b.Op == "ite" && b.Args[1].String() == a.String() {
		return Ite(Or(c, b.Args[0]), a, b.Args[2])
	}
	return App("ite", a.Sort, c, a, b)
}

func arith(op string, a, b *Term) *Term {
	if a.Int != nil && b.Int != nil {
		r := new(big.Int)
		switch op {
		case "+":
			return BigLit(r.Add(a.Int, b.Int))
		case "-":
			return BigLit(r.Sub(a.Int, b.Int))
		case "*":
			return BigLit(r.Mul(a.Int, b.Int))
		}
	}
	switch op {
	case "+":
		if a.Int != nil && a.Int.Sign() == 0 {
			return b
		}
		if b.Int != nil && b.Int.Sign() == 0 {
			return a
		}
		// (x + c1) + c2  ->  x + (c1+c2)
		if b.Int != nil && a.Op == "+" && len(a.Args) == 2 && a.Args[1].Int != nil {
			return arith("+", a.Args[0], BigLit(new(big.Int).Add(a.Args[1].Int, b.Int)))
		}
		if b.Int != nil && a.Op == "-" && len(a.Args) == 2 && a.Args[1].Int != nil {
			return arith("+", a.Args[0], BigLit(new(big.Int).Sub(b.Int, a.Args[1].Int)))
		}
		if b.Int != nil && b.Int.Sign() < 0 {
			return App("-", SInt, a, BigLit(new(big.Int).Neg(b.Int)))
		}
	case "-":
		if b.Int != nil && b.Int.Sign() == 0 {
			return a
		}
		if a.String() == b.String() {
			return IntLit(0)
		}
		if b.Int != nil && a.Op == "+" && len(a.Args) == 2 && a.Args[1].Int != nil {
			return arith("+", a.Args[0], BigLit(new(big.Int).Sub(a.Args[1].Int, b.Int)))
		}
		if b.Int != nil && a.Op == "-" && len(a.Args) == 2 && a.Args[1].Int != nil {
			return arith("-", a.Args[0], BigLit(new(big.Int).Add(a.Args[1].Int, b.Int)))
		}
		if b.Int != nil && b.Int.Sign() < 0 {
			return arith("+", a, BigLit(new(big.Int).Neg(b.Int)))
		}
	case "*":
		if a.Int != nil && a.Int.Cmp(big.NewInt(1)) == 0 {
			return b
		}
		if b.Int != nil && b.Int.Cmp(big.NewInt(1)) == 0 {
			return a
		}
		if (a.Int != nil && a.Int.Sign() == 0) || (b.Int != nil && b.Int.Sign() == 0) {
			return IntLit(0)
		}
		// ite(c, 1, 0) * x = ite(c, x, 0)
		if a.Op == "ite" && a.Args[1].Int != nil && a.Args[2].Int != nil && a.Args[2].Int.Sign() == 0 && a.Args[1].Int.Cmp(big.NewInt(1)) == 0 {
			return Ite(a.Args[0], b, IntLit(0))
		}
		if b.Op == "ite" && b.Args[1].Int != nil && b.Args[2].Int != nil && b.Args[2].Int.Sign() == 0 && b.Args[1].Int.Cmp(big.NewInt(1)) == 0 {
			return Ite(b.Args[0], a, IntLit(0))
		}
	}
	return App(op, SInt, a, b)
}

func Add(a, b *Term) *Term { return arith("+", a, b) }
func Sub(a, b *Term) *Term { return arith("-", a, b) }
func Mul(a, b *Term) *Term { return arith("*", a, b) }

// Div and Mod are SMT-LIB div/mod (floor for positive divisor); callers are
// responsible for using them only where they coincide with Go semantics or for
// wrapping them (see goDiv/goRem in exec).
func Div(a, b *Term) *Term {
	if a.Int != nil && b.Int != nil && b.Int.Sign() > 0 {
		q, m := new(big.Int).DivMod(a.Int, b.Int, new(big.Int))
		_ = m
		return BigLit(q)
	}
	return App("div", SInt, a, b)
}

func Mod(a, b *Term) *Term {
	if a.Int != nil && b.Int != nil && b.Int.Sign() > 0 {
		_, m := new(big.Int).DivMod(a.Int, b.Int, new(big.Int))
		return BigLit(m)
	}
	// (x div 2^k) mod 2  is the k-th bit of x
	if b.Int != nil && b.Int.Cmp(big.NewInt(2)) == 0 && a.Op == "div" {
		if a.Args[1].Op == "pow2" {
			return App("bitval", SInt, a.Args[0], a.Args[1].Args[0])
		}
		if d := a.Args[1].Int; d != nil && d.Sign() > 0 && new(big.Int).And(d, new(big.Int).Sub(d, big.NewInt(1))).Sign() == 0 && d.BitLen() <= 8 {
			return App("bitval", SInt, a.Args[0], IntLit(int64(d.BitLen()-1)))
		}
	}
	return App("mod", SInt, a, b)
}

func cmp(op string, a, b *Term) *Term {
	if a.Int != nil && b.Int != nil {
		c := a.Int.Cmp(b.Int)
		switch op {
		case "<":
			return mkBool(c < 0)
		case "<=":
			return mkBool(c <= 0)
		case ">":
			return mkBool(c > 0)
		case ">=":
			return mkBool(c >= 0)
		}
	}
	return App(op, SBool, a, b)
}

func Lt(a, b *Term) *Term { return cmp("<", a, b) }
func Le(a, b *Term) *Term { return cmp("<=", a, b) }
func Gt(a, b *Term) *Term { return cmp(">", a, b) }
func Ge(a, b *Term) *Term { return cmp(">=", a, b) }

// Select with select-over-store simplification.
func Select(arr, idx *Term) *Term {
	for arr.Op == "store" {
		i := arr.Args[1]
		if i == idx || i.String() == idx.String() {
			return arr.Args[2]
		}
		if knownDistinct(i, idx) {
			arr = arr.Args[0]
			continue
		}
		break
	}
	return App("select", arr.Sort.Elem, arr, idx)
}

func Store(arr, idx, v *Term) *Term {
	if v.Sort != arr.Sort.Elem {
		panic(fmt.Sprintf("Store: sort mismatch: array %s elem %s, value %s", arr.Sort, arr.Sort.Elem, v.Sort))
	}
	if arr.Op == "store" && (arr.Args[1] == idx || arr.Args[1].String() == idx.String()) {
		arr = arr.Args[0]
	}
	return App("store", arr.Sort, arr, idx, v)
}

// knownDistinct: two reference/literal terms that are certainly different.
func knownDistinct(a, b *Term) bool {
	if a.Int != nil && b.Int != nil {
		return a.Int.Cmp(b.Int) != 0
	}
	if a.Op == "" && b.Op == "" && a.Name != "" && b.Name != "" && a.Name != b.Name {
		return strings.HasPrefix(a.Name, "alloc!") && strings.HasPrefix(b.Name, "alloc!")
	}
	return false
}

// Forall builds a universally quantified formula.
func Forall(vars []*Term, body *Term, pats ...[]*Term) *Term {
	if body.IsTrue() {
		return TTrue
	}
	return &Term{Op: "forall", Vars: vars, Args: []*Term{body}, Sort: SBool, Pats: pats}
}

func Exists(vars []*Term, body *Term, pats ...[]*Term) *Term {
	if body.IsFalse() {
		return TFalse
	}
	return &Term{Op: "exists", Vars: vars, Args: []*Term{body}, Sort: SBool, Pats: pats}
}

// Subst replaces free constants by name.
func Subst(t *Term, m map[string]*Term) *Term {
	if len(m) == 0 {
		return t
	}
	if t.IsLit() {
		return t
	}
	if t.Op == "" && len(t.Args) == 0 {
		if r, ok := m[t.Name]; ok {
			return r
		}
		return t
	}
	changed := false
	args := make([]*Term, len(t.Args))
	for i, a := range t.Args {
		args[i] = Subst(a, m)
		if args[i] != a {
			changed = true
		}
	}
	var pats [][]*Term
	if len(t.Pats) > 0 {
		pats = make([][]*Term, len(t.Pats))
		for i, p := range t.Pats {
			pats[i] = make([]*Term, len(p))
			for j, pt := range p {
				pats[i][j] = Subst(pt, m)
				if pats[i][j] != pt {
					changed = true
				}
			}
		}
	}
	if !changed {
		return t
	}
	return &Term{Op: t.Op, Args: args, Sort: t.Sort, Vars: t.Vars, Pats: pats, Name: t.Name}
}

// FreeConsts collects the names of the free constants of t into set.
func FreeConsts(t *Term, set map[string]*Term) {
	if t.IsLit() {
		return
	}
	if t.Op == "" && len(t.Args) == 0 {
		set[t.Name] = t
		return
	}
	for _, a := range t.Args {
		FreeConsts(a, set)
	}
	for _, p := range t.Pats {
		for _, pt := range p {
			FreeConsts(pt, set)
		}
	}
	if len(t.Vars) > 0 {
		for _, v := range t.Vars {
			delete(set, v.Name)
		}
	}
}

// Ops collects the operator symbols used in t.
func Ops(t *Term, set map[string]bool) {
	if t.Op != "" {
		set[t.Op] = true
	}
	for _, a := range t.Args {
		Ops(a, set)
	}
	for _, p := range t.Pats {
		for _, pt := range p {
			Ops(pt, set)
		}
	}
}

func sortedKeys[V any](m map[string]V) []string {
	ks := make([]string, 0, len(m))
	for k := range m {
		ks = append(ks, k)
	}
	sort.Strings(ks)
	return ks
}

package eng

// replay.go: turning a failed obligation into a failing input on the real code.
//
// Contracts are executable Go (the generated clause functions), so the finder runs the real
// function on bounded-exhaustively enumerated inputs inside the real package (a test injected with
// `go test -overlay`, nothing is written into the repository), discards inputs that violate a
// `requires`, and reports the first input on which the function panics or an `ensures` clause is
// false. This is a search, never a proof step.

import (
	"bytes"
	"context"
	"encoding/json"
	"fmt"
	"go/constant"
	"go/types"
	"os"
	"os/exec"
	"path/filepath"
	"sort"
	"strings"
	"time"

	"golang.org/x/tools/go/ssa"
)

const replayTestTemplate = `//go:build verif

package PKG

import (
	"encoding/json"
	"fmt"
	"math/rand"
	"os"
	"reflect"
	"strings"
	"testing"
	"time"
	"unsafe"
)

type verifBind struct {
	Kind  string
	Index int
}

type verifClause struct {
	Label string
	Fn    reflect.Value
	Bind  []verifBind
}

type verifTarget struct {
	Fn       reflect.Value
	Requires []verifClause
	Ensures  []verifClause
}

func verifEnum(t reflect.Type, alpha []byte, maxLen int, depth int) []reflect.Value {
	var out []reflect.Value
	add := func(v any) { out = append(out, reflect.ValueOf(v).Convert(t)) }
	switch t.Kind() {
	case reflect.Bool:
		add(false)
		add(true)
	case reflect.Uint8:
		seen := map[byte]bool{}
		for _, b := range append(append([]byte{}, alpha...), 0, 1, 127, 128, 255) {
			if !seen[b] {
				seen[b] = true
				add(b)
			}
		}
	case reflect.Int, reflect.Int64, reflect.Int32, reflect.Int16, reflect.Int8:
		for _, v := range []int64{0, 1, -1, 2, 3, 7, 8, 9, 15, 16, 17, 63, 64} {
			add(v)
		}
		switch t.Kind() {
		case reflect.Int, reflect.Int64:
			add(int64(-1 << 63))
			add(int64(1<<63 - 1))
		case reflect.Int32:
			add(int64(-1 << 31))
			add(int64(1<<31 - 1))
		}
	case reflect.Uint, reflect.Uint64, reflect.Uint32, reflect.Uint16:
		for _, v := range []uint64{0, 1, 2, 3, 7, 8, 9, 15, 16, 17, 63, 64} {
			add(v)
		}
		if t.Kind() == reflect.Uint64 || t.Kind() == reflect.Uint {
			add(uint64(1<<64 - 1))
			add(uint64(1 << 63))
		}
	case reflect.String:
		var rec func(prefix []byte)
		strs := [][]byte{{}}
		for l := 1; l <= maxLen; l++ {
			var next [][]byte
			for _, s := range strs {
				if len(s) == l-1 {
					for _, c := range alpha {
						next = append(next, append(append([]byte{}, s...), c))
					}
				}
			}
			strs = append(strs, next...)
			if len(strs) > 200000 {
				break
			}
		}
		_ = rec
		for _, s := range strs {
			add(string(s))
		}
	case reflect.Slice:
		if t.Elem().Kind() == reflect.Uint8 {
			for _, s := range verifEnum(reflect.TypeOf(""), alpha, maxLen, depth+1) {
				out = append(out, reflect.ValueOf([]byte(s.String())).Convert(t))
			}
			break
		}
		sub := maxLen
		if sub > 2 {
			sub = 2
		}
		if t.Elem().Kind() == reflect.String && maxLen >= 3 {
			sub = 3
		}
		elems := verifEnum(t.Elem(), alpha, sub, depth+1)
		if len(elems) > 14 {
			if t.Elem().Kind() == reflect.String {
				// spread the picks over the lengths (the longest strings matter: "%aa")
				byLen := map[int][]reflect.Value{}
				maxL := 0
				for _, e := range elems {
					l := e.Len()
					byLen[l] = append(byLen[l], e)
					if l > maxL {
						maxL = l
					}
				}
				var pick []reflect.Value
				for l := 0; l <= maxL; l++ {
					xs := byLen[l]
					step := len(xs)/4 + 1
					for i := 0; i < len(xs) && len(pick) < 14; i += step {
						pick = append(pick, xs[i])
					}
				}
				elems = pick
			} else {
				elems = elems[:14]
			}
		}
		out = append(out, reflect.MakeSlice(t, 0, 0))
		for _, a := range elems {
			s := reflect.MakeSlice(t, 1, 1)
			s.Index(0).Set(a)
			out = append(out, s)
		}
		for _, a := range elems {
			for _, b := range elems {
				s := reflect.MakeSlice(t, 2, 2)
				s.Index(0).Set(a)
				s.Index(1).Set(b)
				out = append(out, s)
			}
		}
	case reflect.Struct:
		out = []reflect.Value{reflect.New(t).Elem()}
		for i := 0; i < t.NumField(); i++ {
			sub := maxLen
			if sub > 3 {
				sub = 3
			}
			if fl := os.Getenv("VERIF_FIELDS"); fl != "" && strings.Contains(fl, ","+t.Name()+".") && !strings.Contains(fl, ","+t.Name()+"."+t.Field(i).Name+",") {
				continue // the function under test never touches this field: zero value only
			}
			fv := verifEnum(t.Field(i).Type, alpha, sub, depth+1)
			if len(fv) == 0 {
				continue // unsupported field type: zero value only
			}
			if len(fv) > 40 {
				fv = fv[:40]
			}
			var next []reflect.Value
			for _, base := range out {
				for _, v := range fv {
					c := reflect.New(t).Elem()
					c.Set(base)
					f := c.Field(i)
					reflect.NewAt(f.Type(), unsafe.Pointer(f.UnsafeAddr())).Elem().Set(v)
					next = append(next, c)
					if len(next) > 3000 {
						break
					}
				}
			}
			out = next
		}
	case reflect.Ptr:
		for _, v := range verifEnum(t.Elem(), alpha, maxLen, depth+1) {
			p := reflect.New(t.Elem())
			p.Elem().Set(v)
			out = append(out, p)
		}
	}
	return out
}

func verifDeepCopy(v reflect.Value) reflect.Value {
	switch v.Kind() {
	case reflect.Ptr:
		if v.IsNil() {
			return v
		}
		p := reflect.New(v.Type().Elem())
		p.Elem().Set(verifDeepCopy(v.Elem()))
		return p
	case reflect.Slice:
		if v.IsNil() {
			return v
		}
		s := reflect.MakeSlice(v.Type(), v.Len(), v.Len())
		for i := 0; i < v.Len(); i++ {
			s.Index(i).Set(verifDeepCopy(v.Index(i)))
		}
		return s
	case reflect.Map:
		if v.IsNil() {
			return v
		}
		m := reflect.MakeMapWithSize(v.Type(), v.Len())
		it := v.MapRange()
		for it.Next() {
			m.SetMapIndex(it.Key(), it.Value())
		}
		return m
	case reflect.Struct:
		c := reflect.New(v.Type()).Elem()
		c.Set(v)
		for i := 0; i < v.NumField(); i++ {
			f := c.Field(i)
			switch f.Kind() {
			case reflect.Ptr, reflect.Slice, reflect.Struct:
				w := reflect.NewAt(f.Type(), unsafe.Pointer(f.UnsafeAddr())).Elem()
				w.Set(verifDeepCopy(w))
			}
		}
		return c
	}
	return v
}

func verifShow(v reflect.Value) string {
	if v.Kind() == reflect.Ptr && !v.IsNil() {
		return "&" + verifShow(v.Elem())
	}
	if v.Kind() == reflect.Struct {
		var parts []string
		for i := 0; i < v.NumField(); i++ {
			f := v.Field(i)
			parts = append(parts, fmt.Sprintf("%s:%s", v.Type().Field(i).Name, verifShow(reflect.NewAt(f.Type(), unsafe.Pointer(f.UnsafeAddr())).Elem())))
		}
		return v.Type().String() + "{" + strings.Join(parts, ", ") + "}"
	}
	if v.CanInterface() {
		return fmt.Sprintf("%#v", v.Interface())
	}
	return fmt.Sprintf("%v", v)
}

func verifEval(c verifClause, params, olds, results []reflect.Value) (ok bool, err string) {
	defer func() {
		if r := recover(); r != nil {
			ok, err = true, fmt.Sprintf("clause not executable: %v", r)
		}
	}()
	var args []reflect.Value
	for _, b := range c.Bind {
		switch b.Kind {
		case "param":
			args = append(args, params[b.Index])
		case "old":
			args = append(args, olds[b.Index])
		case "result":
			args = append(args, results[b.Index])
		}
	}
	return c.Fn.Call(args)[0].Bool(), ""
}

// verifTry runs the target on one input; it returns a description of the failure or "".
func verifTry(tg verifTarget, in []reflect.Value) (failed, observed string) {
	for _, r := range tg.Requires {
		ok, _ := verifEval(r, in, nil, nil)
		if !ok {
			return "", ""
		}
	}
	olds := make([]reflect.Value, len(in))
	for i, v := range in {
		olds[i] = verifDeepCopy(v)
	}
	var results []reflect.Value
	func() {
		defer func() {
			if r := recover(); r != nil {
				failed, observed = "panic", fmt.Sprintf("panic: %v", r)
			}
		}()
		if tg.Fn.Type().IsVariadic() {
			results = tg.Fn.CallSlice(in)
		} else {
			results = tg.Fn.Call(in)
		}
	}()
	if strings.HasPrefix(observed, "panic: reflect:") {
		return "", "" // a limitation of the replay harness, not a behaviour of the function
	}
	if failed != "" {
		return
	}
	for _, e := range tg.Ensures {
		ok, _ := verifEval(e, in, olds, results)
		if !ok {
			var rs []string
			for _, r := range results {
				rs = append(rs, verifShow(r))
			}
			return "ensures:" + e.Label, "returned (" + strings.Join(rs, ", ") + "); clause " + e.Label + " is false"
		}
	}
	return "", ""
}

func TestVerifReplay(t *testing.T) {
	key := os.Getenv("VERIF_TARGET")
	tg, ok := verifTargets[key]
	if !ok {
		fmt.Printf("VERIF-REPLAY: {\"status\":\"no-target\"}\n")
		return
	}
	alpha := []byte(os.Getenv("VERIF_ALPHABET"))
	if len(alpha) == 0 {
		alpha = []byte("a")
	}
	maxLen := 4
	fmt.Sscanf(os.Getenv("VERIF_MAXLEN"), "%d", &maxLen)
	ft := tg.Fn.Type()
	doms := make([][]reflect.Value, ft.NumIn())
	total := 1
	for i := 0; i < ft.NumIn(); i++ {
		doms[i] = verifEnum(ft.In(i), alpha, maxLen, 0)
		if len(doms[i]) == 0 {
			fmt.Printf("VERIF-REPLAY: {\"status\":\"unsupported-signature\",\"param\":%d}\n", i)
			return
		}
		if total < 1<<40 {
			total *= len(doms[i])
		}
	}
	idx := make([]int, len(doms))
	tried := 0
	deadline := time.Now().Add(25 * time.Second)
	for {
		if tried%1024 == 0 && time.Now().After(deadline) {
			break
		}
		in := make([]reflect.Value, len(doms))
		for i := range doms {
			in[i] = verifDeepCopy(doms[i][idx[i]])
		}
		var shown []string
		for _, v := range in {
			shown = append(shown, verifShow(v))
		}
		failed, observed := verifTry(tg, in)
		tried++
		if failed != "" {
			b, _ := json.Marshal(map[string]any{"status": "confirmed", "found_by": "small-scope-search", "inputs": shown, "failed": failed, "observed": observed, "tried": tried})
			fmt.Printf("VERIF-REPLAY: %s\n", b)
			return
		}
		if tried >= 1500000 {
			break
		}
		k := 0
		for k < len(idx) {
			idx[k]++
			if idx[k] < len(doms[k]) {
				break
			}
			idx[k] = 0
			k++
		}
		if k == len(idx) {
			break
		}
	}
	// phase 2: seeded random search over a richer alphabet (all hex digits, both cases) with longer
	// strings, biased towards the harvested special characters
	seed := int64(1)
	fmt.Sscanf(os.Getenv("VERIF_SEED"), "%d", &seed)
	rng := rand.New(rand.NewSource(seed + 12345))
	rich := append(append([]byte{}, alpha...), []byte("0123456789abcdefABCDEF")...)
	var special []byte
	for _, c := range alpha {
		if !(c >= '0' && c <= '9' || c >= 'a' && c <= 'z' || c >= 'A' && c <= 'Z') {
			special = append(special, c)
		}
	}
	randStr := func() string {
		n := rng.Intn(10)
		b := make([]byte, n)
		for i := range b {
			if len(special) > 0 && rng.Intn(10) < 3 {
				b[i] = special[rng.Intn(len(special))]
			} else {
				b[i] = rich[rng.Intn(len(rich))]
			}
		}
		return string(b)
	}
	hasString := false
	for i := 0; i < ft.NumIn(); i++ {
		if ft.In(i).Kind() == reflect.String {
			hasString = true
		}
	}
	deadline = time.Now().Add(15 * time.Second)
	for hasString && time.Now().Before(deadline) {
		for rep := 0; rep < 2048; rep++ {
			in := make([]reflect.Value, len(doms))
			for i := range doms {
				if ft.In(i).Kind() == reflect.String {
					in[i] = reflect.ValueOf(randStr()).Convert(ft.In(i))
				} else {
					in[i] = verifDeepCopy(doms[i][rng.Intn(len(doms[i]))])
				}
			}
			var shown []string
			for _, v := range in {
				shown = append(shown, verifShow(v))
			}
			failed, observed := verifTry(tg, in)
			tried++
			if failed != "" {
				b, _ := json.Marshal(map[string]any{"status": "confirmed", "found_by": "seeded-random-search", "inputs": shown, "failed": failed, "observed": observed, "tried": tried})
				fmt.Printf("VERIF-REPLAY: %s\n", b)
				return
			}
		}
	}
	fmt.Printf("VERIF-REPLAY: {\"status\":\"not-found\",\"tried\":%d}\n", tried)
}
`

// replayRegistry generates the table of targets of one package.
func (e *Engine) replayRegistry(cs *ContractSet) string {
	var sb strings.Builder
	sb.WriteString("var verifTargets = map[string]verifTarget{\n")
	for _, fc := range cs.AllFuncs() {
		if fc.Extern || fc.Lemma || fc.TParams != "" {
			continue
		}
		fn := e.FuncOf[fc]
		if fn == nil {
			continue
		}
		expr := fc.Name
		if fc.Recv != nil {
			expr = "(" + fc.RecvType + ")." + fc.Name
		}
		clause := func(c *Clause) string {
			var bs []string
			for _, b := range c.Bind {
				bs = append(bs, fmt.Sprintf("{%q, %d}", b.Kind, b.Index))
			}
			return fmt.Sprintf("{Label: %q, Fn: reflect.ValueOf(%s), Bind: []verifBind{%s}}", c.Label, c.GoFunc, strings.Join(bs, ", "))
		}
		var rq, en []string
		for _, c := range fc.Requires {
			rq = append(rq, clause(c))
		}
		for _, c := range fc.Ensures {
			en = append(en, clause(c))
		}
		fmt.Fprintf(&sb, "\t%q: {Fn: reflect.ValueOf(%s), Requires: []verifClause{%s}, Ensures: []verifClause{%s}},\n", fc.Key, expr, strings.Join(rq, ", "), strings.Join(en, ", "))
	}
	sb.WriteString("}\n")
	return sb.String()
}

// alphabetFor harvests byte and string constants from a function and its callees.
// fieldsTouched lists ",Type.Field," for every struct field the function (and the module functions it
// calls, depth 3) addresses or reads: the replay varies only these fields of struct-typed inputs.
func (e *Engine) fieldsTouched(fn *ssa.Function) string {
	seen := map[string]bool{}
	visited := map[*ssa.Function]bool{}
	var visit func(f *ssa.Function, depth int)
	note := func(t types.Type, idx int) {
		if p, ok := t.Underlying().(*types.Pointer); ok {
			t = p.Elem()
		}
		n, ok := t.(*types.Named)
		if !ok {
			return
		}
		st, ok := n.Underlying().(*types.Struct)
		if !ok || idx >= st.NumFields() {
			return
		}
		seen[n.Obj().Name()+"."+st.Field(idx).Name()] = true
	}
	visit = func(f *ssa.Function, depth int) {
		if f == nil || visited[f] || depth > 3 {
			return
		}
		visited[f] = true
		for _, b := range f.Blocks {
			for _, ins := range b.Instrs {
				switch x := ins.(type) {
				case *ssa.FieldAddr:
					note(x.X.Type(), x.Field)
				case *ssa.Field:
					note(x.X.Type(), x.Field)
				}
				for _, op := range ins.Operands(nil) {
					if c, ok := (*op).(*ssa.Function); ok && e.inModule(c) {
						visit(c, depth+1)
					}
				}
			}
		}
		for _, an := range f.AnonFuncs {
			visit(an, depth+1)
		}
	}
	visit(fn, 0)
	var ks []string
	for k := range seen {
		ks = append(ks, k)
	}
	sort.Strings(ks)
	if len(ks) == 0 {
		return ""
	}
	return "," + strings.Join(ks, ",") + ","
}

func (e *Engine) alphabetFor(fn *ssa.Function) string {
	seen := map[byte]bool{}
	visited := map[*ssa.Function]bool{}
	var visit func(f *ssa.Function, depth int)
	visit = func(f *ssa.Function, depth int) {
		if f == nil || visited[f] || depth > 3 {
			return
		}
		visited[f] = true
		for _, b := range f.Blocks {
			for _, ins := range b.Instrs {
				for _, op := range ins.Operands(nil) {
					switch c := (*op).(type) {
					case *ssa.Const:
						if c.Value == nil {
							continue
						}
						switch c.Value.Kind() {
						case constant.Int:
							if v, ok := constant.Int64Val(c.Value); ok && v >= 32 && v < 127 {
								seen[byte(v)] = true
							}
						case constant.String:
							s := constant.StringVal(c.Value)
							if len(s) <= 3 {
								for i := 0; i < len(s); i++ {
									seen[s[i]] = true
								}
							}
						}
					case *ssa.Function:
						if e.inModule(c) {
							visit(c, depth+1)
						}
					}
				}
			}
		}
	}
	visit(fn, 0)
	var bs []byte
	for b := range seen {
		bs = append(bs, b)
	}
	sort.Slice(bs, func(i, j int) bool { return bs[i] < bs[j] })
	// thin out runs of letters/digits: keep boundaries
	var out []byte
	for i, b := range bs {
		if i > 0 && i+1 < len(bs) && bs[i-1] == b-1 && bs[i+1] == b+1 {
			continue
		}
		out = append(out, b)
	}
	has := func(c byte) bool { return bytes.IndexByte(out, c) >= 0 }
	for _, c := range []byte{'a', 'g'} {
		if !has(c) {
			out = append(out, c)
		}
	}
	// specials first, then letters and digits; at most 11 symbols
	isAlnum := func(c byte) bool { return c >= '0' && c <= '9' || c >= 'a' && c <= 'z' || c >= 'A' && c <= 'Z' }
	var sp, al []byte
	for _, c := range out {
		if isAlnum(c) {
			al = append(al, c)
		} else if c != ' ' {
			sp = append(sp, c)
		}
	}
	if len(sp) > 5 {
		sp = sp[:5]
	}
	// spread the alphanumerics: lower-case first (they are the usual edge of hex/case handling)
	sort.Slice(al, func(i, j int) bool {
		ri := al[i] >= 'a'
		rj := al[j] >= 'a'
		if ri != rj {
			return ri
		}
		return al[i] < al[j]
	})
	res := append(sp, al...)
	if len(res) > 11 {
		res = res[:11]
	}
	return string(res)
}

// runOverlayTest runs `go test` in a repo package with extra files injected through an overlay.
func runOverlayTest(repoDir, pkgDir string, overlay map[string][]byte, run string, env []string, timeout time.Duration) (string, error) {
	tmp, err := os.MkdirTemp("", "govc-replay-")
	if err != nil {
		return "", err
	}
	defer os.RemoveAll(tmp)
	repl := map[string]string{}
	i := 0
	for dst, content := range overlay {
		src := filepath.Join(tmp, fmt.Sprintf("f%d_%s", i, filepath.Base(dst)))
		i++
		if err := os.WriteFile(src, content, 0o644); err != nil {
			return "", err
		}
		repl[dst] = src
	}
	ov, _ := json.Marshal(map[string]any{"Replace": repl})
	ovf := filepath.Join(tmp, "overlay.json")
	os.WriteFile(ovf, ov, 0o644)
	ctx, cancel := context.WithTimeout(context.Background(), timeout+30*time.Second)
	defer cancel()
	cmd := exec.CommandContext(ctx, "go", "test", "-tags", "verif", "-overlay", ovf, "-vet=off", "-count=1", "-v", "-timeout", fmt.Sprintf("%ds", int(timeout.Seconds())), "-run", run, "./"+pkgDir+"/")
	cmd.Dir = repoDir
	cmd.Env = append(append(os.Environ(), "GOFLAGS=-mod=mod", "GOPROXY=off", "GOSUMDB=off", "GOTOOLCHAIN=local"), env...)
	var out bytes.Buffer
	cmd.Stdout = &out
	cmd.Stderr = &out
	err = cmd.Run()
	return out.String(), err
}

// FindCounterexample searches for a failing input of the function a failed obligation belongs to.
func (e *Engine) FindCounterexample(v *Verdict, opt CheckOptions) map[string]any {
	// locate the contract block
	var fc *FuncContract
	for c := range e.FuncOf {
		if e.fnKey(c) == v.Obl.Func {
			fc = c
		}
	}
	if fc == nil || fc.Lemma {
		return nil
	}
	if e.ceCache == nil {
		e.ceCache = map[string]map[string]any{}
	}
	if r, ok := e.ceCache[fc.Key]; ok {
		return r
	}
	r := e.findCounterexample(fc, opt)
	e.ceCache[fc.Key] = r
	return r
}

func (e *Engine) findCounterexample(fc *FuncContract, opt CheckOptions) map[string]any {
	return e.findCounterexampleIn(opt.RepoDir, fc, opt)
}

// findCounterexampleIn runs the reflective search in the module rooted at moduleDir (the repository,
// or the scratch module of a program family).
func (e *Engine) findCounterexampleIn(moduleDir string, fc *FuncContract, opt CheckOptions) map[string]any {
	sp := e.PkgOf[fc]
	var cs *ContractSet
	var pkgDir string
	for path, s := range e.Sets {
		if e.SSAPkgs[path] == sp {
			cs = s
		}
	}
	if cs == nil {
		return nil
	}
	pkgDir, _ = filepath.Rel(moduleDir, cs.PkgDir)
	overlay := map[string][]byte{}
	for k, b := range NeutralHookOverlay(opt.RepoDir, map[string]bool{cs.PkgDir: true}) {
		overlay[k] = b
	}
	for k, b := range cs.Overlay {
		overlay[k] = b
	}
	if cs.FromRepo {
		// the contract file is read from the tree; the shared spec files and clause functions come from the overlay
	}
	test := strings.Replace(replayTestTemplate, "package PKG", "package "+cs.PkgName, 1) + "\n" + e.replayRegistry(cs)
	overlay[filepath.Join(cs.PkgDir, "zz_verif_replay_test.go")] = []byte(test)
	alpha := e.alphabetFor(e.FuncOf[fc])
	fields := e.fieldsTouched(e.FuncOf[fc])
	maxLen := "5"
	if opt.Tier == "thorough" {
		maxLen = "6"
	}
	out, err := runOverlayTest(moduleDir, pkgDir, overlay, "TestVerifReplay$", []string{"VERIF_TARGET=" + fc.Key, "VERIF_ALPHABET=" + alpha, "VERIF_MAXLEN=" + maxLen, fmt.Sprintf("VERIF_SEED=%d", opt.Seed), "VERIF_FIELDS=" + fields}, 60*time.Second)
	res := map[string]any{"search": map[string]any{"alphabet": alpha, "max_len": maxLen, "target": fc.Key}}
	for _, ln := range strings.Split(out, "\n") {
		if strings.HasPrefix(ln, "VERIF-REPLAY: ") {
			var m map[string]any
			if json.Unmarshal([]byte(strings.TrimPrefix(ln, "VERIF-REPLAY: ")), &m) == nil {
				for k, x := range m {
					res[k] = x
				}
				return res
			}
		}
	}
	res["status"] = "no-input"
	res["search_error"] = truncate(out, 1500)
	_ = err
	return res
}

// familyReplay replays a failed derived clause of a generated router on the real generated code:
// the in-package test of the scratch module serves every short path and evaluates the clause.
func (e *Engine) familyReplay(familyDir, oblName string) map[string]any {
	i := strings.Index(oblName, ".")
	j := strings.Index(oblName, "/post:")
	if i < 0 || j < 0 {
		return nil
	}
	pkgID := oblName[:i]
	label := oblName[j+len("/post:"):]
	if k := strings.LastIndex(label, "#"); k > 0 {
		label = label[:k]
	}
	key := "family:" + pkgID + ":" + label
	if e.ceCache == nil {
		e.ceCache = map[string]map[string]any{}
	}
	if r, ok := e.ceCache[key]; ok {
		return r
	}
	dir := filepath.Join(familyDir, pkgID)
	var cs *ContractSet
	for _, s := range e.Sets {
		if s.PkgDir == dir {
			cs = s
		}
	}
	if cs == nil {
		return nil
	}
	if _, serr := os.Stat(filepath.Join(dir, "verif_replay_test.go")); serr != nil {
		// no family-specific oracle: the derived contract is executable, use the reflective search
		fnKey := oblName[:j]
		for c := range e.FuncOf {
			if e.fnKey(c) == fnKey {
				res := e.findCounterexampleIn(familyDir, c, CheckOptions{RepoDir: e.Cfg.RepoDir, Tier: "quick", Seed: 1})
				e.ceCache[key] = res
				return res
			}
		}
		return nil
	}
	overlay := map[string][]byte{}
	for k, b := range NeutralHookOverlay(e.Cfg.RepoDir, nil) {
		overlay[k] = b // the generated package only needs its own contract file; every hook file of the repository is neutralised
	}
	for k, b := range cs.Overlay {
		overlay[k] = b
	}
	out, _ := runOverlayTest(familyDir, pkgID, overlay, "TestVerifFamilyReplay$", []string{"VERIF_CLAUSE=" + label}, 150*time.Second)
	res := map[string]any{"search": map[string]any{"program": pkgID, "clause": label, "method": "generated server run on every short path over the route set's alphabet (in-package test of the scratch module)"}}
	res["status"] = "no-input"
	ownMethod := false
	for _, ln := range strings.Split(out, "\n") {
		if strings.HasPrefix(ln, "VERIF-REPLAY-FAIL ") {
			res["status"] = "confirmed"
			res["found_by"] = "exhaustive short-path replay on the generated server"
			res["witness"] = strings.TrimPrefix(ln, "VERIF-REPLAY-FAIL ")
		}
		if strings.HasPrefix(ln, "VERIF-REPLAY-NONE ") {
			res["search_result"] = strings.TrimPrefix(ln, "VERIF-REPLAY-NONE ")
		}
		if strings.HasPrefix(ln, "VERIF-REPLAY-METHOD ") {
			res["search"].(map[string]any)["method"] = strings.TrimPrefix(ln, "VERIF-REPLAY-METHOD ")
			ownMethod = true
		}
	}
	if ownMethod && res["found_by"] != nil {
		res["found_by"] = "replay oracle of the program family (see search.method)"
	}
	if res["status"] == "no-input" && res["search_result"] == nil {
		res["search_error"] = truncate(out, 1500)
	}
	e.ceCache[key] = res
	return res
}

// runStandins executes the bounded stand-ins of a property (labelled bounded, never counted as proved).
func runStandins(pc *PropConfig, opt CheckOptions, say func(string, ...any), prop, replayDir string) ([]map[string]any, int) {
	var out []map[string]any
	viol := 0
	for _, s := range pc.Standins {
		dir := filepath.Join(opt.VerifDir, "standins", s.Pkg)
		files, _ := filepath.Glob(filepath.Join(dir, "*_test.go"))
		overlay := map[string][]byte{}
		for k, b := range NeutralHookOverlay(opt.RepoDir, nil) {
			overlay[k] = b // stand-ins are self-contained tests: every hook file is neutralised
		}
		for _, f := range files {
			b, err := os.ReadFile(f)
			if err != nil {
				continue
			}
			overlay[filepath.Join(opt.RepoDir, s.Pkg, "zz_verif_"+filepath.Base(f))] = b
		}
		env := []string{"VERIF_TIER=" + opt.Tier, fmt.Sprintf("VERIF_SEED=%d", opt.Seed)}
		t0 := time.Now()
		to := 5 * time.Minute
		if opt.Tier == "thorough" {
			to = 40 * time.Minute
		}
		o, err := runOverlayTest(opt.RepoDir, s.Pkg, overlay, s.Test+"$", env, to)
		rep := map[string]any{"name": s.Name, "label": "bounded", "bound": s.Bound, "test": s.Test, "wall_s": round2(time.Since(t0).Seconds())}
		nv := 0
		for _, ln := range strings.Split(o, "\n") {
			if strings.HasPrefix(ln, "VERIF-STANDIN: ") {
				var m map[string]any
				if json.Unmarshal([]byte(strings.TrimPrefix(ln, "VERIF-STANDIN: ")), &m) == nil {
					for k, x := range m {
						rep[k] = x
					}
				}
			}
			if strings.HasPrefix(ln, "VERIF-STANDIN-KNOWN: ") {
				say("KNOWN-FINDING: property=%s %s", prop, strings.TrimPrefix(ln, "VERIF-STANDIN-KNOWN: "))
			}
			if strings.HasPrefix(ln, "VERIF-STANDIN-VIOLATION: ") {
				nv++
				fn := filepath.Join(replayDir, sanitizeFile("standin_"+s.Name)+fmt.Sprintf("_%d.json", nv))
				os.WriteFile(fn, []byte(strings.TrimPrefix(ln, "VERIF-STANDIN-VIOLATION: ")), 0o644)
				say("VIOLATION property=%s replay=%s", prop, fn)
			}
		}
		if err != nil && nv == 0 && !strings.Contains(o, "VERIF-STANDIN: ") {
			rep["error"] = truncate(o, 1500)
			fn := filepath.Join(replayDir, sanitizeFile("standin_"+s.Name)+"_error.json")
			b, _ := json.Marshal(rep)
			os.WriteFile(fn, b, 0o644)
			say("VIOLATION property=%s replay=%s no-failing-input-found", prop, fn)
			nv++
		}
		rep["violations"] = nv
		viol += nv
		out = append(out, rep)
	}
	return out, viol
}

package eng

// defs.go: logical definitions derived from Go spec functions (symbols with
// unfolding axioms), symbols of pure external functions with their assumed
// axioms, boxing of interface values, ghost observer fields.

import (
	"path/filepath"
	"fmt"
	"go/types"
	"sort"
	"strings"

	"golang.org/x/tools/go/ssa"
)

// SpecSym is the logical symbol of a spec function.
type SpecSym struct {
	Fn        *ssa.Function
	names     []string // one symbol per result
	Params    []*Term  // bound variables
	Bodies    []*Term  // per result; nil while in progress
	ResSorts  []*Sort
	ArgSorts  []*Sort
	Recursive bool
	inProg    bool
	deps      map[*SpecSym]bool
	extDeps   map[string]bool
	Guard     *Term // type invariant of the parameters (byte ranges)
	ResIv     []*ival // interval of each integer result, derived from the body
	Uninterpreted bool // no definition: body is panic("uninterpreted ...")
	Reads     map[string]bool // heap keys the body reads (through pointer parameters): the function denotes a value over the ENTRY heap
}

type funcSig struct {
	Name string
	Args []*Sort
	Res  *Sort
}

// ExtSym is the symbol of a pure external function together with its assumed axioms.
type ExtSym struct {
	FC     *FuncContract
	Fn     *ssa.Function
	names  []string
	sorts  []*Sort
	args   []*Sort
	Axioms []*Term
	inProg bool
	done   bool
}

type Defs struct {
	e      *Engine
	syms   map[*ssa.Function]*SpecSym
	order  []*SpecSym
	exts   map[string]*ExtSym
	funcs  map[string]*funcSig
	boxes  map[string]boxInfo
	stack  []*SpecSym
	stdCanon map[string]*ssa.Function // stdlib spec functions: one representative for all package copies
}

type boxInfo struct {
	typ  types.Type
	sort *Sort
	tag  int
}

func newDefs(e *Engine) *Defs {
	return &Defs{e: e, syms: map[*ssa.Function]*SpecSym{}, exts: map[string]*ExtSym{}, funcs: map[string]*funcSig{}, boxes: map[string]boxInfo{}}
}

func (d *Defs) noteFunc(name string, args []*Sort, res *Sort) {
	if _, ok := d.funcs[name]; !ok {
		d.funcs[name] = &funcSig{Name: name, Args: args, Res: res}
	}
}

func (d *Defs) noteBox(t types.Type, s *Sort) {
	name := boxName(t)
	if _, ok := d.boxes[name]; ok {
		return
	}
	tag := d.e.ifaceTag(t)
	d.boxes[name] = boxInfo{typ: t, sort: s, tag: int(tag.Int.Int64())}
}

// isStdSpec: the function comes from a copy of a /verif/stdlib file (the same source is copied into
// every package that `use`s it).
func isStdSpec(fn *ssa.Function) bool {
	if fn == nil || fn.Prog == nil || !fn.Pos().IsValid() {
		return false
	}
	return strings.HasPrefix(filepath.Base(fn.Prog.Fset.Position(fn.Pos()).Filename), "zz_verif_std_")
}

func symName(fn *ssa.Function) string {
	if isStdSpec(fn) {
		// one symbol for all copies: lemmas and contracts of different packages about the same stdlib
		// spec function (indexB, verifUnescVal, ...) speak about the same thing
		return "std." + sanitize(fn.Name())
	}
	pkg := ""
	if fn.Pkg != nil {
		pkg = fn.Pkg.Pkg.Name()
	} else if o := fn.Origin(); o != nil && o.Pkg != nil {
		pkg = o.Pkg.Pkg.Name()
	}
	return pkg + "." + sanitize(fn.Name())
}

// sym returns (creating on demand) the symbol of a spec function.
func (d *Defs) sym(fn *ssa.Function) (*SpecSym, error) {
	if isStdSpec(fn) {
		// canonical representative: the first copy seen
		if d.stdCanon == nil {
			d.stdCanon = map[string]*ssa.Function{}
		}
		k := fn.Name() + "|" + fn.Signature.String()
		if c, ok := d.stdCanon[k]; ok {
			fn = c
		} else {
			d.stdCanon[k] = fn
		}
	}
	if s, ok := d.syms[fn]; ok {
		if s.inProg {
			// recursion: everything on the stack from s upwards is recursive
			mark := false
			for _, x := range d.stack {
				if x == s {
					mark = true
				}
				if mark {
					x.Recursive = true
				}
			}
		}
		if len(d.stack) > 0 {
			d.stack[len(d.stack)-1].deps[s] = true
		}
		return s, nil
	}
	if len(fn.Blocks) == 0 {
		return nil, unsupported("spec function %s has no body", fn.Name())
	}
	s := &SpecSym{Fn: fn, inProg: true, deps: map[*SpecSym]bool{}, extDeps: map[string]bool{}}
	sig := fn.Signature
	base := symName(fn)
	for i := 0; i < sig.Results().Len(); i++ {
		rs, err := d.e.Sorts.SortOf(sig.Results().At(i).Type())
		if err != nil {
			return nil, unsupported("spec function %s: result: %v", fn.Name(), err)
		}
		s.ResSorts = append(s.ResSorts, rs)
		n := base
		if sig.Results().Len() > 1 {
			n = fmt.Sprintf("%s!%d", base, i)
		}
		s.names = append(s.names, n)
	}
	if len(s.ResSorts) == 0 {
		return nil, unsupported("spec function %s has no result", fn.Name())
	}
	var guards []*Term
	for i, p := range fn.Params {
		ps, err := d.e.Sorts.SortOf(p.Type())
		if err != nil {
			return nil, unsupported("spec function %s: parameter %s: %v", fn.Name(), p.Name(), err)
		}
		v := Const(fmt.Sprintf("x%d!%s", i, sanitizeIdent(p.Name())), ps)
		s.Params = append(s.Params, v)
		s.ArgSorts = append(s.ArgSorts, ps)
		guards = append(guards, d.e.rangeFact(v, p.Type()))
	}
	s.Guard = And(guards...)
	d.syms[fn] = s
	if len(d.stack) > 0 {
		d.stack[len(d.stack)-1].deps[s] = true
	}
	// a spec function whose body is just panic("uninterpreted ...") is an uninterpreted symbol
	if len(fn.Blocks) == 1 {
		onlyPanic := false
		for _, ins := range fn.Blocks[0].Instrs {
			switch ins.(type) {
			case *ssa.Panic:
				onlyPanic = true
			case *ssa.MakeInterface, *ssa.DebugRef:
			default:
				onlyPanic = false
			}
		}
		if onlyPanic {
			s.inProg = false
			s.Uninterpreted = true
			d.order = append(d.order, s)
			return s, nil
		}
	}
	d.stack = append(d.stack, s)
	defer func() { d.stack = d.stack[:len(d.stack)-1] }()
	fr := &frame{e: d.e, fn: fn, pkg: fn.Pkg, vals: map[ssa.Value]*Val{}, pure: true, bound: true, st: newState(), reach: TTrue,
		prefix: "def!" + base + "!"}
	if fr.pkg == nil && fn.Origin() != nil {
		fr.pkg = fn.Origin().Pkg
	}
	for i, p := range fn.Params {
		fr.vals[p] = &Val{T: s.Params[i], Typ: p.Type()}
		fr.noteRange(s.Params[i], p.Type())
	}
	if err := fr.run(); err != nil {
		delete(d.syms, fn)
		return nil, fmt.Errorf("spec function %s: %w", fn.Name(), err)
	}
	r, err := fr.mergedResult()
	if err != nil {
		delete(d.syms, fn)
		return nil, fmt.Errorf("spec function %s: %w", fn.Name(), err)
	}
	if r.Tuple != nil {
		for _, x := range r.Tuple {
			if x.T == nil {
				return nil, unsupported("spec function %s returns a non-term", fn.Name())
			}
			s.Bodies = append(s.Bodies, x.T)
			s.ResIv = append(s.ResIv, x.Iv)
		}
	} else {
		if r.T == nil {
			return nil, unsupported("spec function %s returns a non-term", fn.Name())
		}
		s.Bodies = []*Term{r.T}
		s.ResIv = []*ival{r.Iv}
	}
	// heap reads: the body was run on a fresh state, so everything it read through its pointer
	// parameters is an init!<key> constant, i.e. the heap at entry of the function under proof. Calls
	// are only allowed where the current heap still is the entry heap for these keys (specCall).
	s.Reads = map[string]bool{}
	for _, b := range s.Bodies {
		fc := map[string]*Term{}
		FreeConsts(b, fc)
		for n := range fc {
			if strings.HasPrefix(n, "init!") {
				s.Reads[strings.TrimPrefix(n, "init!")] = true
			}
		}
	}
	for dep := range s.deps {
		for k := range dep.Reads {
			s.Reads[k] = true
		}
	}
	s.inProg = false
	d.order = append(d.order, s)
	return s, nil
}

// extSym returns the symbol(s) of a pure external function.
func (d *Defs) extSym(fc *FuncContract, fn *ssa.Function) ([]string, []*Sort, error) {
	key := d.e.PkgOf[fc].Pkg.Name() + ":" + fc.Key
	if x, ok := d.exts[key]; ok {
		if len(d.stack) > 0 {
			d.stack[len(d.stack)-1].extDeps[key] = true
		}
		return x.names, x.sorts, nil
	}
	x := &ExtSym{FC: fc, Fn: fn}
	sig := fn.Signature
	// one SMT symbol per external function, whichever package's contract file describes it: the assumed
	// contracts of several packages about the same function then speak about the same symbol (a
	// contract of package uri stated with http.Header.Values is usable by a caller in another package)
	base := "ext." + sanitize(strings.NewReplacer("(", "", ")", "", "*", "").Replace(fn.String()))
	for i := 0; i < sig.Results().Len(); i++ {
		rs, err := d.e.Sorts.SortOf(sig.Results().At(i).Type())
		if err != nil {
			return nil, nil, err
		}
		n := base
		if sig.Results().Len() > 1 {
			n = fmt.Sprintf("%s!%d", base, i)
		}
		x.names = append(x.names, n)
		x.sorts = append(x.sorts, rs)
	}
	for _, p := range fn.Params {
		ps, err := d.e.Sorts.SortOf(p.Type())
		if err != nil {
			return nil, nil, err
		}
		x.args = append(x.args, ps)
	}
	d.exts[key] = x
	if len(d.stack) > 0 {
		d.stack[len(d.stack)-1].extDeps[key] = true
	}
	return x.names, x.sorts, nil
}

// extAxioms computes (once) the quantified axioms of a pure external symbol from its ensures clauses.
func (d *Defs) extAxioms(x *ExtSym) error {
	if x.done || x.inProg {
		return nil
	}
	x.inProg = true
	defer func() { x.inProg = false; x.done = true }()
	fn := x.Fn
	var vars []*Term
	var params []*Val
	var guards []*Term
	for i, p := range fn.Params {
		v := Const(fmt.Sprintf("bv!%d", d.e.nextBV()), x.args[i])
		vars = append(vars, v)
		params = append(params, &Val{T: v, Typ: p.Type()})
		guards = append(guards, d.e.rangeFact(v, p.Type()))
	}
	var results []*Val
	var apps []*Term
	for i := range x.names {
		a := App(x.names[i], x.sorts[i], vars...)
		apps = append(apps, a)
		results = append(results, &Val{T: a, Typ: fn.Signature.Results().At(i).Type()})
	}
	fr := &frame{e: d.e, fn: fn, pkg: d.e.PkgOf[x.FC], vals: map[ssa.Value]*Val{}, pure: true, bound: true, st: newState(), reach: TTrue, prefix: "ext!"}
	var req []*Term
	for _, c := range x.FC.Requires {
		t, err := fr.evalClause(x.FC, c, params, nil, nil, fr.st, nil)
		if err != nil {
			return err
		}
		req = append(req, t)
	}
	var ens []*Term
	for i, a := range apps {
		ens = append(ens, d.e.rangeFact(a, fn.Signature.Results().At(i).Type()))
		// a pointer returned by a pure (deterministic, non-allocating) function is not an object that the
		// function under verification allocates: it is distinct from every allocation of the current run
		if x.sorts[i] == SRef && len(x.FC.Fresh) == 0 {
			d.e.Defs.noteFunc("preexisting", []*Sort{SRef}, SBool)
			ens = append(ens, App("preexisting", SBool, a))
		}
	}
	for _, c := range x.FC.Ensures {
		t, err := fr.evalClause(x.FC, c, params, results, nil, fr.st, fr.st)
		if err != nil {
			return err
		}
		ens = append(ens, t)
	}
	body := Implies(And(append(guards, req...)...), And(ens...))
	if len(vars) == 0 {
		x.Axioms = []*Term{body}
		return nil
	}
	x.Axioms = []*Term{Forall(vars, body, []*Term{apps[0]})}
	return nil
}

// observersOf lists the ghost-field keys declared (through `observer` contracts) for type t.
func (e *Engine) observersOf(t types.Type) []string {
	var out []string
	seen := map[string]bool{}
	for fc, fn := range e.FuncOf {
		if fc.Observer == "" || len(fn.Params) == 0 {
			continue
		}
		pt, ok := fn.Params[0].Type().Underlying().(*types.Pointer)
		if !ok || !types.Identical(pt.Elem(), t) {
			continue
		}
		rs, err := e.Sorts.SortOf(fn.Signature.Results().At(0).Type())
		if err != nil {
			continue
		}
		k := e.regKey(ghostKey(t, fc.Observer), e.Sorts.ArrOf(SRef, rs))
		if !seen[k] {
			seen[k] = true
			out = append(out, k)
		}
	}
	sort.Strings(out)
	return out
}

// observerInit sets the ghost observer fields of a freshly allocated (zero) object of external type t
// to the zero value of the observer's result type (e.g. a new strings.Builder has String() == "").
func (e *Engine) observerInit(f *frame, ref *Term, t types.Type) {
	for fc, fn := range e.FuncOf {
		if fc.Observer == "" || len(fn.Params) == 0 {
			continue
		}
		pt, ok := fn.Params[0].Type().Underlying().(*types.Pointer)
		if !ok || !types.Identical(pt.Elem(), t) {
			continue
		}
		rt := fn.Signature.Results().At(0).Type()
		rs, err := e.Sorts.SortOf(rt)
		if err != nil {
			continue
		}
		z, err := e.zero(rt)
		if err != nil {
			continue
		}
		k := e.regKey(ghostKey(t, fc.Observer), e.Sorts.ArrOf(SRef, rs))
		arr := f.get(f.st, k, e.Sorts.ArrOf(SRef, rs))
		f.st.m[k] = Store(arr, ref, z)
	}
}

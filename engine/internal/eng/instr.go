package eng

// instr.go: semantics of the individual SSA instructions.

import (
	"fmt"
	"go/constant"
	"go/token"
	"go/types"
	"math/big"
	"strings"

	"golang.org/x/tools/go/ssa"
)

func pow2(n uint) *big.Int { return new(big.Int).Lsh(big.NewInt(1), n) }

// wrap reduces a mathematical integer to the range of Go type t (two's complement).
func wrap(x *Term, t types.Type) *Term {
	lo, hi, ok := intRange(t)
	if !ok {
		return x
	}
	if x.Int != nil && x.Int.Cmp(lo) >= 0 && x.Int.Cmp(hi) <= 0 {
		return x
	}
	w := bitSize(t)
	m := BigLit(pow2(w))
	if isUnsigned(t) {
		return Mod(x, m)
	}
	// signed: ((x + 2^(w-1)) mod 2^w) - 2^(w-1)
	h := BigLit(pow2(w - 1))
	return Sub(Mod(Add(x, h), m), h)
}

// goDiv / goRem: truncated division.
func goDiv(a, b *Term) *Term {
	if b.Int != nil && b.Int.Sign() > 0 {
		return Ite(Ge(a, IntLit(0)), Div(a, b), Sub(IntLit(0), Div(Sub(IntLit(0), a), b)))
	}
	absa := Ite(Ge(a, IntLit(0)), a, Sub(IntLit(0), a))
	absb := Ite(Ge(b, IntLit(0)), b, Sub(IntLit(0), b))
	q := Div(absa, absb)
	return Ite(Eq(Ge(a, IntLit(0)), Ge(b, IntLit(0))), q, Sub(IntLit(0), q))
}

func goRem(a, b *Term) *Term {
	if b.Int != nil && b.Int.Sign() > 0 {
		return Ite(Ge(a, IntLit(0)), Mod(a, b), Sub(IntLit(0), Mod(Sub(IntLit(0), a), b)))
	}
	absa := Ite(Ge(a, IntLit(0)), a, Sub(IntLit(0), a))
	absb := Ite(Ge(b, IntLit(0)), b, Sub(IntLit(0), b))
	r := Mod(absa, absb)
	return Ite(Ge(a, IntLit(0)), r, Sub(IntLit(0), r))
}

func (f *frame) nonneg(x *Term) bool {
	iv := f.ivalOf(x)
	return iv.lo != nil && iv.lo.Sign() >= 0
}

func (f *frame) pos(x *Term) bool {
	iv := f.ivalOf(x)
	return iv.lo != nil && iv.lo.Sign() > 0
}

func isConstPow2Minus1(x *Term) (uint, bool) {
	if x.Int == nil || x.Int.Sign() < 0 {
		return 0, false
	}
	y := new(big.Int).Add(x.Int, big.NewInt(1))
	if y.BitLen() > 0 && new(big.Int).And(y, x.Int).Sign() == 0 {
		return uint(y.BitLen() - 1), true
	}
	return 0, false
}

// bitop translates & | ^ &^ on integers of type t.
func (f *frame) bitop(op token.Token, x, y *Term, t types.Type) (*Term, error) {
	w := bitSize(t)
	if x.Int != nil && y.Int != nil && x.Int.Sign() >= 0 && y.Int.Sign() >= 0 {
		r := new(big.Int)
		switch op {
		case token.AND:
			r.And(x.Int, y.Int)
		case token.OR:
			r.Or(x.Int, y.Int)
		case token.XOR:
			r.Xor(x.Int, y.Int)
		case token.AND_NOT:
			r.AndNot(x.Int, y.Int)
		}
		return BigLit(r), nil
	}
	if op == token.AND && isUnsigned(t) {
		if k, ok := isConstPow2Minus1(y); ok {
			return Mod(x, BigLit(pow2(k))), nil
		}
		if k, ok := isConstPow2Minus1(x); ok {
			return Mod(y, BigLit(pow2(k))), nil
		}
	}
	if !isUnsigned(t) {
		// signed operands: only the non-negative case is modelled (obligation below keeps it sound)
		f.oblige("bitop-nonneg", "", And(Ge(x, IntLit(0)), Ge(y, IntLit(0))), token.NoPos)
	}
	name := map[token.Token]string{token.AND: "band", token.OR: "bor", token.XOR: "bxor", token.AND_NOT: "bandnot"}[op]
	if op == token.OR {
		// (a << k) | y  ==  a*2^k + y   when a*2^k does not wrap and y < 2^k  (arithmetic fact, used as a rewrite)
		for _, pr := range [][2]*Term{{x, y}, {y, x}} {
			sh, lo := pr[0], pr[1]
			if sh.Op == "mod" && sh.Args[1].Int != nil && sh.Args[1].Int.Cmp(pow2(w)) == 0 {
				sh = sh.Args[0]
			}
			if sh.Op == "*" && len(sh.Args) == 2 && sh.Args[1].Int != nil && sh.Args[1].Int.Sign() > 0 &&
				new(big.Int).And(sh.Args[1].Int, new(big.Int).Sub(sh.Args[1].Int, big.NewInt(1))).Sign() == 0 {
				a, pk := sh.Args[0], sh.Args[1]
				k := uint(pk.Int.BitLen() - 1)
				if k < w {
					var gen *Term
					if w <= 8 {
						gen = App(name+"8", SInt, x, y)
					} else {
						gen = App(name+"64", SInt, x, y)
					}
					cond := And(Le(IntLit(0), a), Lt(a, BigLit(pow2(w-k))), Le(IntLit(0), lo), Lt(lo, pk))
					one := big.NewInt(1)
					if f.ivalOf(a).within(big.NewInt(0), new(big.Int).Sub(pow2(w-k), one)) && f.ivalOf(lo).within(big.NewInt(0), new(big.Int).Sub(pk.Int, one)) {
						return Add(Mul(a, pk), lo), nil
					}
					if !f.pure && f.c != nil {
						// the rewrite is exact under cond; make cond an obligation instead of carrying the general bit-level term
						f.oblige("bitop-shape", "", cond, token.NoPos)
						return Add(Mul(a, pk), lo), nil
					}
					return Ite(cond, Add(Mul(a, pk), lo), gen), nil
				}
			}
		}
	}
	if w <= 8 {
		return App(name+"8", SInt, x, y), nil
	}
	return App(fmt.Sprintf("%s%d", name, 64), SInt, x, y), nil
}

func (f *frame) binop(ins *ssa.BinOp) (*Term, error) {
	xv, err := f.val(ins.X)
	if err != nil {
		return nil, err
	}
	yv, err := f.val(ins.Y)
	if err != nil {
		return nil, err
	}
	t := ins.X.Type()
	// pointer / closure comparisons
	if xv.T == nil || yv.T == nil {
		return nil, unsupported("binary operation on non-term values")
	}
	x, y := xv.T, yv.T
	if (ins.Op == token.EQL || ins.Op == token.NEQ) && x.Sort != y.Sort && x.Sort.Kind == KData && y.Sort.Kind == KData {
		// named struct compared with an identical anonymous struct (Go allows it): bring y to x's sort
		if c, cerr := f.convert(y, ins.Y.Type(), ins.X.Type()); cerr == nil {
			y = c
		}
	}
	switch ins.Op {
	case token.EQL:
		if x.Sort != y.Sort {
			return nil, unsupported("comparison of different sorts %s/%s", x.Sort, y.Sort)
		}
		if x.Sort.Name == "F64" {
			return App("f64.eq", SBool, x, y), nil
		}
		return Eq(x, y), nil
	case token.NEQ:
		if x.Sort != y.Sort {
			return nil, unsupported("comparison of different sorts %s/%s", x.Sort, y.Sort)
		}
		if x.Sort.Name == "F64" {
			return Not(App("f64.eq", SBool, x, y)), nil
		}
		return Not(Eq(x, y)), nil
	}
	if x.Sort.Name == "F64" {
		switch ins.Op {
		case token.LSS:
			return App("f64.lt", SBool, x, y), nil
		case token.LEQ:
			return App("f64.le", SBool, x, y), nil
		case token.GTR:
			return App("f64.lt", SBool, y, x), nil
		case token.GEQ:
			return App("f64.le", SBool, y, x), nil
		}
		return nil, unsupported("floating-point arithmetic %s", ins.Op)
	}
	if x.Sort.Kind == KSeq {
		switch ins.Op {
		case token.ADD:
			return SeqCat(x, y), nil
		}
		return nil, unsupported("string operator %s", ins.Op)
	}
	if x.Sort != SInt {
		return nil, unsupported("operator %s on sort %s", ins.Op, x.Sort)
	}
	arith := func(r *Term) (*Term, error) {
		if isUnsigned(t) {
			return f.wrapT(r, t), nil
		}
		if !f.pure && f.c != nil && f.c.wrapSigned {
			return f.wrapT(r, t), nil
		}
		if lo, hi, ok := intRange(t); ok && !f.pure && f.c != nil && !f.c.noOverflow && !f.ivalOf(r).within(lo, hi) {
			// lengths are bounded by the address space (2^56): an axiom added to overflow obligations only
			f.oblige("overflow", "", And(Le(BigLit(lo), r), Le(r, BigLit(hi))), ins.Pos())
			f.c.obls[len(f.c.obls)-1].LenBound = true
		}
		if f.pure || (f.c != nil && f.c.noOverflow) {
			return r, nil // spec arithmetic is mathematical (specs are written so that nothing wraps)
		}
		return r, nil
	}
	switch ins.Op {
	case token.ADD:
		return arith(Add(x, y))
	case token.SUB:
		return arith(Sub(x, y))
	case token.MUL:
		return arith(Mul(x, y))
	case token.QUO:
		f.oblige("div", "", Not(Eq(y, IntLit(0))), ins.Pos())
		if isUnsigned(t) || (f.nonneg(x) && f.pos(y)) {
			return Div(x, y), nil
		}
		return goDiv(x, y), nil
	case token.REM:
		f.oblige("div", "", Not(Eq(y, IntLit(0))), ins.Pos())
		if isUnsigned(t) || (f.nonneg(x) && f.pos(y)) {
			return Mod(x, y), nil
		}
		return goRem(x, y), nil
	case token.LSS:
		return Lt(x, y), nil
	case token.LEQ:
		return Le(x, y), nil
	case token.GTR:
		return Gt(x, y), nil
	case token.GEQ:
		return Ge(x, y), nil
	case token.AND, token.OR, token.XOR, token.AND_NOT:
		return f.bitop(ins.Op, x, y, t)
	case token.SHL:
		if y.Int != nil && y.Int.IsInt64() && y.Int.Int64() < 256 {
			k := uint(y.Int.Int64())
			if k >= bitSize(t) {
				return IntLit(0), nil
			}
			return f.wrapT(Mul(x, BigLit(pow2(k))), t), nil
		}
		return f.wrapT(Mul(x, App("pow2", SInt, y)), t), nil
	case token.SHR:
		if y.Int != nil && y.Int.IsInt64() && y.Int.Int64() < 256 {
			k := uint(y.Int.Int64())
			return Div(x, BigLit(pow2(k))), nil
		}
		return Div(x, App("pow2", SInt, y)), nil
	}
	return nil, unsupported("binary operator %s", ins.Op)
}

func (f *frame) convert(x *Term, from, to types.Type) (*Term, error) {
	fs, err := f.e.Sorts.SortOf(from)
	if err != nil {
		return nil, err
	}
	ts, err := f.e.Sorts.SortOf(to)
	if err != nil {
		return nil, err
	}
	fb, _ := from.Underlying().(*types.Basic)
	tb, _ := to.Underlying().(*types.Basic)
	switch {
	case fs == SInt && ts == SInt:
		return f.wrapT(x, to), nil
	case fs == SInt && ts == f.e.Sorts.Str && tb != nil:
		// string(rune/byte): UTF-8 encoding of the code point; exact for ASCII
		if x.Int != nil && x.Int.IsInt64() {
			return f.e.Sorts.StrLit(string(rune(x.Int.Int64()))), nil
		}
		return App("runestr", f.e.Sorts.Str, x), nil
	case fs == ts && fs.Kind == KSeq:
		// string <-> []byte, named slice conversions: same contents
		if fb != nil && tb == nil || fb == nil && tb != nil || fs == ts {
			if isByteSeqType(from) && isByteSeqType(to) || fs != f.e.Sorts.Str {
				return x, nil
			}
		}
		return x, nil
	case fs == ts:
		return x, nil
	case fs.Kind == KData && ts.Kind == KData && len(fs.Fields) == len(ts.Fields):
		// conversion between struct types with identical field sequences (named <-> anonymous)
		same := true
		for i := range fs.Fields {
			if fs.Fields[i].Sort != ts.Fields[i].Sort {
				same = false
			}
		}
		if same {
			parts := make([]*Term, len(fs.Fields))
			for i := range fs.Fields {
				parts[i] = SelField(x, i)
			}
			return MkData(ts, parts...), nil
		}
	case fs.Name == "F64" && ts.Name == "F64":
		return x, nil
	}
	if fs == f.e.Sorts.Str {
		if sl, ok := to.Underlying().(*types.Slice); ok {
			if b, ok := sl.Elem().Underlying().(*types.Basic); ok && b.Kind() == types.Int32 {
				return App("runes", ts, x), nil
			}
		}
	}
	if ts == f.e.Sorts.Str {
		if sl, ok := from.Underlying().(*types.Slice); ok {
			if b, ok := sl.Elem().Underlying().(*types.Basic); ok && b.Kind() == types.Int32 {
				if es, ok := litElems(x); ok && len(es) == 0 {
					return f.e.Sorts.StrLit(""), nil // string([]rune(nil)) == ""
				}
				return App("runes2str", ts, x), nil
			}
		}
	}
	if fs == SInt && ts.Name == "F64" {
		return App("f64.ofint", ts, x), nil
	}
	return nil, unsupported("conversion %s -> %s", from, to)
}

// ifaceTag returns the integer tag of a concrete type.
func (e *Engine) ifaceTag(t types.Type) *Term {
	k := typeKey(t)
	if n, ok := e.Sorts.ifaceTags[k]; ok {
		return IntLit(int64(n))
	}
	n := len(e.Sorts.ifaceTags) + 1
	e.Sorts.ifaceTags[k] = n
	e.Sorts.ifaceTagTypes = append(e.Sorts.ifaceTagTypes, t)
	return IntLit(int64(n))
}

func boxName(t types.Type) string { return "box." + sanitize(shortTypeName(t)) }

// step executes one non-phi instruction. It returns true when the block is finished.
func (f *frame) step(ins ssa.Instruction, b *ssa.BasicBlock, in map[*ssa.BasicBlock][]contrib) (bool, error) {
	switch x := ins.(type) {
	case *ssa.DebugRef:
		return false, nil
	case *ssa.Alloc:
		return false, f.alloc(x)
	case *ssa.BinOp:
		t, err := f.binop(x)
		if err != nil {
			return false, err
		}
		f.setVal(x, t)
	case *ssa.UnOp:
		return false, f.unop(x)
	case *ssa.Convert:
		v, err := f.term(x.X)
		if err != nil {
			return false, err
		}
		t, err := f.convert(v, x.X.Type(), x.Type())
		if err != nil {
			return false, err
		}
		f.setVal(x, t)
	case *ssa.ChangeType:
		v, err := f.val(x.X)
		if err != nil {
			return false, err
		}
		nv := *v
		nv.Typ = x.Type()
		f.vals[x] = &nv
	case *ssa.ChangeInterface:
		v, err := f.val(x.X)
		if err != nil {
			return false, err
		}
		f.vals[x] = v
	case *ssa.MakeInterface:
		v, err := f.val(x.X)
		if err != nil {
			return false, err
		}
		if v.T == nil {
			return false, unsupported("interface holding a symbolic pointer/closure")
		}
		f.e.ifaceTag(x.X.Type())
		// keep the box term structural (not named): devirtualisation and errors.As look at it
		f.vals[x] = &Val{T: App(boxName(x.X.Type()), SIface, v.T), Typ: x.Type()}
		f.e.Defs.noteBox(x.X.Type(), v.T.Sort)
	case *ssa.TypeAssert:
		return false, f.typeAssert(x)
	case *ssa.Extract:
		v, err := f.val(x.Tuple)
		if err != nil {
			return false, err
		}
		if v.Tuple == nil || x.Index >= len(v.Tuple) {
			return false, unsupported("extract from non-tuple")
		}
		f.vals[x] = v.Tuple[x.Index]
	case *ssa.Field:
		v, err := f.term(x.X)
		if err != nil {
			return false, err
		}
		f.setVal(x, SelField(v, x.Field))
	case *ssa.FieldAddr:
		v, err := f.val(x.X)
		if err != nil {
			return false, err
		}
		p, err := f.ptrOf(v, x.X.Type())
		if err != nil {
			return false, err
		}
		if p.Kind == pHeap && v.P == nil {
			f.oblige("nil", "", Not(Eq(v.T, f.e.nilRef())), x.Pos())
		}
		q := *p
		q.Path = append(append([]sel{}, p.Path...), sel{Field: x.Field})
		f.vals[x] = &Val{P: &q, Typ: x.Type()}
	case *ssa.Index:
		s, err := f.term(x.X)
		if err != nil {
			return false, err
		}
		i, err := f.term(x.Index)
		if err != nil {
			return false, err
		}
		f.oblige("bounds", "", And(Le(IntLit(0), i), Lt(i, SeqLen(s))), x.Pos())
		f.setVal(x, SeqAt(s, i))
	case *ssa.Lookup:
		return false, f.lookup(x)
	case *ssa.IndexAddr:
		return false, f.indexAddr(x)
	case *ssa.Slice:
		return false, f.slice(x)
	case *ssa.MakeSlice:
		n, err := f.term(x.Len)
		if err != nil {
			return false, err
		}
		s, err := f.e.Sorts.SortOf(x.Type())
		if err != nil {
			return false, err
		}
		f.oblige("bounds", "makeslice", Ge(n, IntLit(0)), x.Pos())
		if n.Int != nil && n.Int.Sign() == 0 {
			f.setVal(x, SeqEmpty(s))
		} else {
			z, err := f.e.zero(x.Type().Underlying().(*types.Slice).Elem())
			if err != nil {
				return false, err
			}
			r := f.e.fresh(f.prefix+"make", s)
			f.assume(Eq(SeqLen(r), n))
			j := Const(fmt.Sprintf("bv!%d", f.e.nextBV()), SInt)
			f.assume(Forall([]*Term{j}, Implies(And(Le(IntLit(0), j), Lt(j, n)), Eq(SeqAt(r, j), z)), []*Term{SeqAt(r, j)}))
			f.vals[x] = &Val{T: r, Typ: x.Type()}
		}
	case *ssa.MakeClosure:
		clo := &Closure{Fn: x.Fn.(*ssa.Function)}
		for _, bnd := range x.Bindings {
			v, err := f.val(bnd)
			if err != nil {
				return false, err
			}
			clo.Bindings = append(clo.Bindings, v)
		}
		f.vals[x] = &Val{Clo: clo, Typ: x.Type()}
	case *ssa.Store:
		av, err := f.val(x.Addr)
		if err != nil {
			return false, err
		}
		p, err := f.ptrOf(av, x.Addr.Type())
		if err != nil {
			return false, err
		}
		if p.Kind == pHeap && av.P == nil {
			f.oblige("nil", "", Not(Eq(av.T, f.e.nilRef())), x.Pos())
		}
		vv, err := f.val(x.Val)
		if err != nil {
			return false, err
		}
		if vv.T == nil {
			if vv.Clo != nil || vv.P != nil {
				// remember symbolic values stored in local cells (closures captured by reference etc.)
				if p.Kind == pLocal && len(p.Path) == 0 {
					f.symCells()[p.Alloc] = vv
					return false, nil
				}
				if p.Kind == pHeap && len(p.Path) == 0 {
					f.symCells()["ref:"+p.Ref.String()] = vv
					return false, nil
				}
			}
			if vv.Clo != nil && vv.Clo.Fn != nil {
				// a closure stored into a field: it travels as a fresh Fn term; what it denotes is
				// remembered so that a later call through the loaded value is resolved statically
				if fs, serr := f.e.Sorts.SortOf(x.Val.Type()); serr == nil && fs == SFn {
					ft := f.e.fresh("clo", SFn)
					f.symCells()["fn:"+ft.String()] = vv
					return false, f.store(p, ft, x.Val.Type())
				}
			}
			return false, unsupported("store of a symbolic pointer/closure into memory")
		}
		if vv.Old && len(p.Path) == 0 {
			// a pre-state pointer parked in a cell (parameter captured by a quantifier closure): keep the tag
			if p.Kind == pLocal {
				f.symCells()[p.Alloc] = vv
			} else if p.Kind == pHeap {
				f.symCells()["ref:"+p.Ref.String()] = vv
			}
		}
		return false, f.store(p, vv.T, x.Val.Type())
	case *ssa.Call:
		v, err := f.call(x.Common(), x, x.Pos())
		if err != nil {
			return false, err
		}
		if v != nil {
			f.vals[x] = v
		}
	case *ssa.Defer:
		f.defers = append(f.defers, &deferred{reach: f.reach, call: x})
	case *ssa.RunDefers:
		for i := len(f.defers) - 1; i >= 0; i-- {
			d := f.defers[i]
			saved := f.reach
			before := f.st.clone()
			f.reach = And(saved, d.reach)
			if _, err := f.call(d.call.Common(), nil, d.call.Pos()); err != nil {
				return false, err
			}
			f.reach = saved
			if d.reach.String() != saved.String() && !d.reach.IsTrue() {
				f.st = f.mergeStates([]contrib{{cond: d.reach, st: f.st}, {cond: Not(d.reach), st: before}}, b)
			}
		}
	case *ssa.Return:
		var vs []*Val
		for _, r := range x.Results {
			v, err := f.val(r)
			if err != nil {
				return false, err
			}
			vs = append(vs, v)
		}
		f.rets = append(f.rets, retInfo{reach: f.reach, vals: vs, st: f.st.clone()})
		if f.fc != nil && !f.pure && f.top {
			if err := f.checkPost(vs, x.Pos()); err != nil {
				return false, err
			}
		}
		return true, nil
	case *ssa.Jump:
		return true, f.edge(b, b.Succs[0], f.reach, in)
	case *ssa.If:
		c, err := f.term(x.Cond)
		if err != nil {
			return false, err
		}
		if err := f.edge(b, b.Succs[0], And(f.reach, c), in); err != nil {
			return false, err
		}
		return true, f.edge(b, b.Succs[1], And(f.reach, Not(c)), in)
	case *ssa.Panic:
		f.oblige("panic", "", TFalse, x.Pos())
		return true, nil
	case *ssa.MakeMap:
		return false, f.makeMap(x)
	case *ssa.MapUpdate:
		return false, f.mapUpdate(x)
	case *ssa.SliceToArrayPointer:
		return false, unsupported("slice to array pointer conversion")
	case *ssa.Range:
		if _, isMap := x.X.Type().Underlying().(*types.Map); !isMap {
			return false, unsupported("range over a string")
		}
		if tc := f.topContract(); tc == nil || !tc.MapRange {
			return false, unsupported("range over map or string")
		}
		// range over a map: the iterator is just the map; every Next yields an ARBITRARY entry of it (any
		// order, any number of iterations) - an over-approximation that is sound for everything proved about
		// the loop body (no panic, invariants), and says nothing about which entries were visited
		mv, err := f.val(x.X)
		if err != nil {
			return false, err
		}
		if mv.T == nil {
			return false, unsupported("range over a non-term map")
		}
		f.vals[x] = &Val{T: mv.T, Typ: x.X.Type()}
		if f.c != nil {
			if f.c.assumed == nil {
				f.c.assumed = map[string]bool{}
			}
			f.c.assumed["range over a map is modelled as iteration over arbitrary entries in arbitrary order (nothing is known about which entries were visited)"] = true
		}
	case *ssa.Next:
		if x.IsString {
			return false, unsupported("range over a string")
		}
		if tc := f.topContract(); tc == nil || !tc.MapRange {
			return false, unsupported("range over map or string")
		}
		rg, ok := x.Iter.(*ssa.Range)
		if !ok {
			return false, unsupported("map iterator of unknown origin")
		}
		mt := rg.X.Type()
		_, vk, ks, vs, err := f.mapKeys(mt)
		if err != nil {
			return false, err
		}
		mv, err := f.val(x.Iter)
		if err != nil {
			return false, err
		}
		okT := f.e.fresh(f.prefix+"rangeok", SBool)
		kT := f.e.fresh(f.prefix+"rangekey", ks)
		has, err := f.mapHas(f.st, mt, mv.T, kT)
		if err != nil {
			return false, err
		}
		f.assume(Implies(okT, has))
		f.assume(f.e.rangeFact(kT, mt.Underlying().(*types.Map).Key()))
		varr := f.get(f.st, vk, f.e.Sorts.ArrOf(SRef, f.e.Sorts.ArrOf(ks, vs)))
		vT := f.define(f.name(x)+"!val", Select(Select(varr, mv.T), kT))
		f.vals[x] = &Val{Tuple: []*Val{{T: okT, Typ: types.Typ[types.Bool]}, {T: kT, Typ: mt.Underlying().(*types.Map).Key()}, {T: vT, Typ: mt.Underlying().(*types.Map).Elem()}}}
	case *ssa.Go, *ssa.Send, *ssa.Select, *ssa.MakeChan:
		return false, unsupported("concurrency construct %T", ins)
	default:
		return false, unsupported("instruction %T", ins)
	}
	return false, nil
}

// symCells: symbolic (non-term) values stored in single-assignment cells (closures, tagged pointers).
// The table belongs to one verification context and is shared by the frames of that context.
func (f *frame) symCells() map[string]*Val {
	if f.symc == nil {
		f.symc = map[string]*Val{}
	}
	return f.symc
}

// edge passes control from b to succ under cond.
func (f *frame) edge(b, succ *ssa.BasicBlock, cond *Term, in map[*ssa.BasicBlock][]contrib) error {
	if cond.IsFalse() {
		return nil
	}
	if succ.Dominates(b) { // back edge
		return f.backEdge(b, succ, cond)
	}
	in[succ] = append(in[succ], contrib{cond: cond, st: f.st, from: b})
	return nil
}

func (f *frame) alloc(x *ssa.Alloc) error {
	et := x.Type().(*types.Pointer).Elem()
	if !x.Heap {
		key := f.localKey(x)
		z, err := f.e.zero(et)
		if err != nil {
			return err
		}
		f.st.m[key] = z
		f.vals[x] = &Val{P: &Ptr{Kind: pLocal, Alloc: key, Elem: et}, Typ: x.Type()}
		return nil
	}
	ref := Const(fmt.Sprintf("alloc!%s%s", f.prefix, x.Name()), SRef)
	if f.bound {
		// under a binder an allocation site may be evaluated for every instance; the cell is private
		// to the evaluation, so a per-site constant is still adequate
	}
	f.vals[x] = &Val{T: ref, Typ: x.Type()}
	if f.c != nil {
		f.noteAlloc(ref)
		for _, p := range f.allRefParams() {
			f.c.assume(Not(Eq(ref, p)))
		}
	}
	p := &Ptr{Kind: pHeap, Ref: ref, Elem: et}
	// zero-initialise (external struct types with ghost observers: observers get their initial values
	// from the contract `init` of the type, see observerInit)
	if st, ok := et.Underlying().(*types.Struct); ok {
		for i := 0; i < st.NumFields(); i++ {
			z, err := f.e.zero(st.Field(i).Type())
			if err != nil {
				// fields of unsupported type are simply not modelled (they cannot be read either)
				continue
			}
			q := *p
			q.Path = []sel{{Field: i}}
			if err := f.store(&q, z, st.Field(i).Type()); err != nil {
				return err
			}
		}
		f.e.observerInit(f, ref, et)
		return nil
	}
	z, err := f.e.zero(et)
	if err != nil {
		return err
	}
	return f.store(p, z, et)
}

// allRefParams lists reference-valued parameters of the outermost function (for freshness facts).
func (f *frame) allRefParams() []*Term {
	var out []*Term
	for _, v := range f.vals {
		if v != nil && v.T != nil && v.T.Sort == SRef && v.T.Op == "" && strings.HasPrefix(v.T.Name, "param!") {
			out = append(out, v.T)
		}
	}
	return out
}

func (f *frame) unop(x *ssa.UnOp) error {
	switch x.Op {
	case token.MUL: // load
		av, err := f.val(x.X)
		if err != nil {
			return err
		}
		if av.P != nil && len(av.P.Path) == 0 {
			k := av.P.Alloc
			if av.P.Kind == pHeap {
				k = "ref:" + av.P.Ref.String()
			}
			if sv, ok := f.symCells()[k]; ok && av.P.Kind != pGlobal {
				f.vals[x] = sv
				return nil
			}
		}
		if av.T != nil && av.T.Sort == SRef {
			if sv, ok := f.symCells()["ref:"+av.T.String()]; ok {
				f.vals[x] = sv
				return nil
			}
		}
		p, err := f.ptrOf(av, x.X.Type())
		if err != nil {
			return err
		}
		if p.Kind == pHeap && av.P == nil {
			f.oblige("nil", "", Not(Eq(av.T, f.e.nilRef())), x.Pos())
		}
		t, err := f.load(p, x.Type())
		if err != nil {
			return err
		}
		f.setVal(x, t)
		if f.origin == nil {
			f.origin = map[ssa.Value]*Ptr{}
			f.originRaw = map[ssa.Value]*Term{}
		}
		f.origin[x] = p
		f.originRaw[x] = t
		if p.Old && f.vals[x].T != nil && f.vals[x].T.Sort == SRef {
			// a pointer read from the pre-state designates pre-state memory: old(d.cur.pos)
			cp := *f.vals[x]
			cp.Old = true
			f.vals[x] = &cp
		}
		if !f.bound {
			if rf := f.e.rangeFact(f.vals[x].T, x.Type()); !rf.IsTrue() && f.c != nil {
				f.assume(rf)
			}
		}
		return nil
	case token.NOT:
		v, err := f.term(x.X)
		if err != nil {
			return err
		}
		f.setVal(x, Not(v))
		return nil
	case token.SUB:
		v, err := f.term(x.X)
		if err != nil {
			return err
		}
		if v.Sort != SInt {
			return unsupported("negation of %s", v.Sort)
		}
		f.setVal(x, f.wrapT(Sub(IntLit(0), v), x.Type()))
		return nil
	case token.XOR:
		v, err := f.term(x.X)
		if err != nil {
			return err
		}
		if isUnsigned(x.Type()) {
			_, hi, _ := intRange(x.Type())
			f.setVal(x, Sub(BigLit(hi), v))
		} else {
			f.setVal(x, Sub(Sub(IntLit(0), v), IntLit(1)))
		}
		return nil
	}
	return unsupported("unary operator %s", x.Op)
}

func (f *frame) typeAssert(x *ssa.TypeAssert) error {
	v, err := f.term(x.X)
	if err != nil {
		return err
	}
	if types.IsInterface(x.AssertedType) {
		ok := App("implements."+sanitize(shortTypeName(x.AssertedType)), SBool, App("typeof", SInt, v))
		f.e.Defs.noteFunc("implements."+sanitize(shortTypeName(x.AssertedType)), []*Sort{SInt}, SBool)
		if x.CommaOk {
			f.vals[x] = &Val{Tuple: []*Val{{T: v, Typ: x.AssertedType}, {T: ok, Typ: types.Typ[types.Bool]}}}
			return nil
		}
		f.oblige("panic", "type-assert", ok, x.Pos())
		f.vals[x] = &Val{T: v, Typ: x.AssertedType}
		return nil
	}
	s, err := f.e.Sorts.SortOf(x.AssertedType)
	if err != nil {
		return err
	}
	f.e.Defs.noteBox(x.AssertedType, s)
	ok := Eq(App("typeof", SInt, v), f.e.ifaceTag(x.AssertedType))
	val := App("un"+boxName(x.AssertedType), s, v)
	if strings.HasPrefix(v.Op, "box.") {
		// the dynamic type is syntactically known
		if v.Op == boxName(x.AssertedType) {
			ok = TTrue
			val = v.Args[0]
		} else {
			ok = TFalse
		}
	}
	if x.CommaOk {
		z, err := f.e.zero(x.AssertedType)
		if err != nil {
			return err
		}
		f.vals[x] = &Val{Tuple: []*Val{{T: f.define(f.name(x)+"!v", Ite(ok, val, z)), Typ: x.AssertedType}, {T: ok, Typ: types.Typ[types.Bool]}}}
		return nil
	}
	f.oblige("panic", "type-assert", ok, x.Pos())
	f.setVal(x, val)
	return nil
}

func (f *frame) lookup(x *ssa.Lookup) error {
	if _, isMap := x.X.Type().Underlying().(*types.Map); isMap {
		return f.mapLookup(x)
	}
	s, err := f.term(x.X)
	if err != nil {
		return err
	}
	i, err := f.term(x.Index)
	if err != nil {
		return err
	}
	f.oblige("bounds", "", And(Le(IntLit(0), i), Lt(i, SeqLen(s))), x.Pos())
	f.setVal(x, SeqAt(s, i))
	return nil
}

func (f *frame) indexAddr(x *ssa.IndexAddr) error {
	i, err := f.term(x.Index)
	if err != nil {
		return err
	}
	bv, err := f.val(x.X)
	if err != nil {
		return err
	}
	if _, isPtr := x.X.Type().Underlying().(*types.Pointer); isPtr {
		// pointer to array
		p, err := f.ptrOf(bv, x.X.Type())
		if err != nil {
			return err
		}
		at := x.X.Type().Underlying().(*types.Pointer).Elem().Underlying().(*types.Array)
		f.oblige("bounds", "", And(Le(IntLit(0), i), Lt(i, IntLit(at.Len()))), x.Pos())
		q := *p
		q.Path = append(append([]sel{}, p.Path...), sel{Field: -1, Index: i})
		f.vals[x] = &Val{P: &q, Typ: x.Type()}
		return nil
	}
	// slice value
	if bv.T == nil {
		return unsupported("index of non-term slice")
	}
	f.oblige("bounds", "", And(Le(IntLit(0), i), Lt(i, SeqLen(bv.T))), x.Pos())
	if org := f.origin[x.X]; org != nil {
		// element of the slice stored at org; valid while that location still holds this slice value
		cur, err := f.load(org, x.X.Type())
		if err == nil && (cur.String() == bv.T.String() || (f.originRaw[x.X] != nil && cur.String() == f.originRaw[x.X].String())) {
			q := *org
			q.Path = append(append([]sel{}, org.Path...), sel{Field: -1, Index: i})
			f.vals[x] = &Val{P: &q, Typ: x.Type()}
			return nil
		}
	}
	// read-only view of a slice value without a (still valid) home location
	key := "L:" + f.prefix + "tmp!" + x.Name()
	f.st.m[key] = bv.T
	f.vals[x] = &Val{P: &Ptr{Kind: pLocal, Alloc: key, Elem: x.X.Type(), Path: []sel{{Field: -1, Index: i}}, RO: true}, Typ: x.Type()}
	return nil
}

func (f *frame) slice(x *ssa.Slice) error {
	var s *Term
	var org *arrOrigin
	bv, err := f.val(x.X)
	if err != nil {
		return err
	}
	if _, isPtr := x.X.Type().Underlying().(*types.Pointer); isPtr {
		// slicing an array through its pointer: value view of the array contents
		p, err := f.ptrOf(bv, x.X.Type())
		if err != nil {
			return err
		}
		s, err = f.load(p, x.X.Type().Underlying().(*types.Pointer).Elem())
		if err != nil {
			return err
		}
		f.e.warn("%s: slice of array treated as a value copy (aliasing not modelled)", f.fn.Name())
		if at, ok := x.X.Type().Underlying().(*types.Pointer).Elem().Underlying().(*types.Array); ok {
			org = &arrOrigin{p: p, typ: x.X.Type().Underlying().(*types.Pointer).Elem(), arr: s, n: at.Len()}
		}
	} else {
		if bv.T == nil {
			return unsupported("slice of non-term")
		}
		s = bv.T
	}
	lo := IntLit(0)
	hi := SeqLen(s)
	if x.Low != nil {
		if lo, err = f.term(x.Low); err != nil {
			return err
		}
	}
	if x.High != nil {
		if hi, err = f.term(x.High); err != nil {
			return err
		}
	}
	if x.Max != nil {
		return unsupported("3-index slice")
	}
	isStr := false
	if b, ok := x.X.Type().Underlying().(*types.Basic); ok && b.Info()&types.IsString != 0 {
		isStr = true
	}
	if isStr || x.High != nil {
		f.oblige("bounds", "slice", And(Le(IntLit(0), lo), Le(lo, hi), Le(hi, SeqLen(s))), x.Pos())
	} else {
		// slices: high defaults to len; bound is cap for explicit high (we require <= len, which is stronger)
		f.oblige("bounds", "slice", And(Le(IntLit(0), lo), Le(lo, hi)), x.Pos())
	}
	if x.High == nil {
		f.setVal(x, SeqSub(s, lo, nil))
	} else {
		f.setVal(x, SeqSub(s, lo, hi))
	}
	if org != nil {
		org.lo = lo
		f.vals[x].Arr = org
	}
	return nil
}

// ---- globals ------------------------------------------------------------------------

// globalInit evaluates the initial value of a package-level variable from its constant initializer.
func (e *Engine) globalInit(g *ssa.Global) (*Term, error) {
	if t, ok := e.globalsInit[g]; ok {
		if t == nil {
			return nil, unsupported("global %s has no constant initializer", g.Name())
		}
		return t, nil
	}
	e.globalsInit[g] = nil
	et := g.Type().(*types.Pointer).Elem()
	s, err := e.Sorts.SortOf(et)
	if err != nil {
		return nil, err
	}
	// immutable-after-init check: no store outside init
	for _, m := range g.Pkg.Members {
		fn, ok := m.(*ssa.Function)
		if !ok || fn.Name() == "init" {
			continue
		}
		for _, b := range fn.Blocks {
			for _, ins := range b.Instrs {
				if st, ok := ins.(*ssa.Store); ok {
					if root(st.Addr) == g {
						return nil, unsupported("global %s is written outside init", g.Name())
					}
				}
			}
		}
	}
	// interface-typed sentinel errors and other opaque globals: a symbolic constant, non-nil for errors
	if s == SIface || s == SRef {
		t := Const("global!"+g.Pkg.Pkg.Name()+"."+g.Name(), s)
		e.globalsInit[g] = t
		if s == SIface && types.Identical(et, types.Universe.Lookup("error").Type()) {
			// package-level error sentinels (io.EOF, ErrXxx = errors.New(...)) are non-nil: global assumption
			if e.sentinels == nil {
				e.sentinels = map[string]*Term{}
			}
			e.sentinels[t.Name] = t
		}
		return t, nil
	}
	// find the initializer in init(): a sequence of stores into &g[i] / g
	init := g.Pkg.Func("init")
	var val *Term
	if arr, ok := et.Underlying().(*types.Array); ok && init != nil {
		z, err := e.zero(arr.Elem())
		if err != nil {
			return nil, err
		}
		elems := make([]*Term, arr.Len())
		for i := range elems {
			elems[i] = z
		}
		okAll := true
		for _, b := range init.Blocks {
			for _, ins := range b.Instrs {
				st, ok := ins.(*ssa.Store)
				if !ok {
					continue
				}
				ia, ok := st.Addr.(*ssa.IndexAddr)
				if !ok || ia.X != g {
					if root(st.Addr) == g {
						okAll = false
					}
					continue
				}
				ic, ok1 := ia.Index.(*ssa.Const)
				vc, ok2 := st.Val.(*ssa.Const)
				if !ok1 || !ok2 || vc.Value == nil || vc.Value.Kind() != constant.Int {
					okAll = false
					continue
				}
				iv, _ := constant.Int64Val(ic.Value)
				vv, _ := constant.Int64Val(vc.Value)
				elems[iv] = IntLit(vv)
			}
		}
		if okAll {
			val = SeqLit(s, elems...)
		}
	}
	if val == nil && init != nil {
		// scalar / string constant initializer
		for _, b := range init.Blocks {
			for _, ins := range b.Instrs {
				if st, ok := ins.(*ssa.Store); ok && st.Addr == g {
					if c, ok := st.Val.(*ssa.Const); ok {
						fr := &frame{e: e, pure: true, bound: true}
						v, err := fr.constVal(c)
						if err == nil {
							val = v.T
						}
					}
				}
			}
		}
	}
	if val == nil {
		return nil, unsupported("global %s: initializer not a constant table", g.Name())
	}
	e.globalsInit[g] = val
	return val, nil
}

// globalMapTable reads a package-level map variable initialised by a composite literal with constant
// keys and constant (or constant-slice) values, provided nothing in the package writes the variable or
// updates / deletes from a map loaded from it (same assumption as for the other package-level tables:
// read from the constant initializer).
func (e *Engine) globalMapTable(g *ssa.Global) ([][2]*Term, bool) {
	if t, ok := e.globalMaps[g]; ok {
		return t, t != nil
	}
	if e.globalMaps == nil {
		e.globalMaps = map[*ssa.Global][][2]*Term{}
	}
	e.globalMaps[g] = nil
	init := g.Pkg.Func("init")
	if init == nil {
		return nil, false
	}
	fromG := func(v ssa.Value) bool {
		ld, ok := v.(*ssa.UnOp)
		return ok && ld.Op == token.MUL && ld.X == g
	}
	for _, m := range g.Pkg.Members {
		fn, ok := m.(*ssa.Function)
		if !ok {
			continue
		}
		fns := append([]*ssa.Function{fn}, fn.AnonFuncs...)
		for _, fn := range fns {
			for _, b := range fn.Blocks {
				for _, ins := range b.Instrs {
					switch x := ins.(type) {
					case *ssa.Store:
						if root(x.Addr) == g && fn.Name() != "init" {
							return nil, false
						}
					case *ssa.MapUpdate:
						if fromG(x.Map) {
							return nil, false
						}
					case *ssa.Call:
						if bi, ok := x.Call.Value.(*ssa.Builtin); ok && bi.Name() == "delete" && fromG(x.Call.Args[0]) {
							return nil, false
						}
					}
				}
			}
		}
	}
	var mm *ssa.MakeMap
	for _, b := range init.Blocks {
		for _, ins := range b.Instrs {
			if st, ok := ins.(*ssa.Store); ok && st.Addr == g {
				if mm != nil {
					return nil, false
				}
				mk, ok := st.Val.(*ssa.MakeMap)
				if !ok {
					return nil, false
				}
				mm = mk
			}
		}
	}
	if mm == nil {
		return nil, false
	}
	fr := &frame{e: e, pure: true, bound: true}
	constTerm := func(v ssa.Value) (*Term, bool) {
		switch x := v.(type) {
		case *ssa.Const:
			cv, err := fr.constVal(x)
			if err != nil || cv.T == nil {
				return nil, false
			}
			return cv.T, true
		case *ssa.Slice:
			al, ok := x.X.(*ssa.Alloc)
			if !ok || x.Low != nil || x.High != nil || x.Max != nil {
				return nil, false
			}
			arr, ok := al.Type().(*types.Pointer).Elem().Underlying().(*types.Array)
			if !ok {
				return nil, false
			}
			elems := make([]*Term, arr.Len())
			for _, r := range *al.Referrers() {
				ia, ok := r.(*ssa.IndexAddr)
				if !ok {
					if r == x {
						continue
					}
					return nil, false
				}
				ic, ok := ia.Index.(*ssa.Const)
				if !ok {
					return nil, false
				}
				iv, _ := constant.Int64Val(ic.Value)
				for _, r2 := range *ia.Referrers() {
					st, ok := r2.(*ssa.Store)
					if !ok || st.Addr != ia {
						return nil, false
					}
					c, ok := st.Val.(*ssa.Const)
					if !ok {
						return nil, false
					}
					cv, err := fr.constVal(c)
					if err != nil || cv.T == nil {
						return nil, false
					}
					elems[iv] = cv.T
				}
			}
			for _, el := range elems {
				if el == nil {
					return nil, false
				}
			}
			ss, err := e.Sorts.SortOf(x.Type())
			if err != nil {
				return nil, false
			}
			return SeqLit(ss, elems...), true
		}
		return nil, false
	}
	var tab [][2]*Term
	for _, r := range *mm.Referrers() {
		switch x := r.(type) {
		case *ssa.MapUpdate:
			if x.Map != mm {
				return nil, false
			}
			k, ok1 := constTerm(x.Key)
			v, ok2 := constTerm(x.Value)
			if !ok1 || !ok2 {
				return nil, false
			}
			tab = append(tab, [2]*Term{k, v})
		case *ssa.Store:
			if x.Val != mm || x.Addr != g {
				return nil, false
			}
		default:
			return nil, false
		}
	}
	if tab == nil {
		tab = [][2]*Term{}
	}
	e.globalMaps[g] = tab
	return tab, true
}

func root(v ssa.Value) ssa.Value {
	for {
		switch x := v.(type) {
		case *ssa.IndexAddr:
			v = x.X
		case *ssa.FieldAddr:
			v = x.X
		default:
			return v
		}
	}
}

func (e *Engine) floatConst(c constant.Value) *Term {
	s := e.Sorts.floatSort()
	return App("f64.lit", s, Const("f64!"+sanitize(c.ExactString()), SInt))
}

func (e *Engine) nextBV() int {
	e.nfresh++
	return e.nfresh
}

// ---- maps ------------------------------------------------------------------------------------
//
// A map value is a reference; its domain and contents live in the state under
//   MD:<maptype> : Ref -> (K -> Bool)      MV:<maptype> : Ref -> (K -> V)
// len and range over maps are not modelled.

func (f *frame) mapKeys(mt types.Type) (dk, vk string, ks, vs *Sort, err error) {
	m := mt.Underlying().(*types.Map)
	ks, err = f.e.Sorts.SortOf(m.Key())
	if err != nil {
		return
	}
	vs, err = f.e.Sorts.SortOf(m.Elem())
	if err != nil {
		return
	}
	dk = f.e.regKey("MD:"+typeKey(mt.Underlying()), f.e.Sorts.ArrOf(SRef, f.e.Sorts.ArrOf(ks, SBool)))
	vk = f.e.regKey("MV:"+typeKey(mt.Underlying()), f.e.Sorts.ArrOf(SRef, f.e.Sorts.ArrOf(ks, vs)))
	return
}

func (f *frame) makeMap(x *ssa.MakeMap) error {
	dk, _, ks, _, err := f.mapKeys(x.Type())
	if err != nil {
		return err
	}
	ref := Const(fmt.Sprintf("alloc!%s%s", f.prefix, x.Name()), SRef)
	f.vals[x] = &Val{T: ref, Typ: x.Type()}
	f.noteAlloc(ref)
	ds := f.e.Sorts.ArrOf(ks, SBool)
	arr := f.get(f.st, dk, f.e.Sorts.ArrOf(SRef, ds))
	f.st.m[dk] = Store(arr, ref, &Term{Op: "constarr", Sort: ds, Args: []*Term{TFalse}})
	return nil
}

func (f *frame) mapUpdate(x *ssa.MapUpdate) error {
	dk, vk, ks, vs, err := f.mapKeys(x.Map.Type())
	if err != nil {
		return err
	}
	m, err := f.term(x.Map)
	if err != nil {
		return err
	}
	k, err := f.term(x.Key)
	if err != nil {
		return err
	}
	v, err := f.term(x.Value)
	if err != nil {
		return err
	}
	f.oblige("nil", "map-write", Not(Eq(m, f.e.nilRef())), x.Pos())
	darr := f.get(f.st, dk, f.e.Sorts.ArrOf(SRef, f.e.Sorts.ArrOf(ks, SBool)))
	varr := f.get(f.st, vk, f.e.Sorts.ArrOf(SRef, f.e.Sorts.ArrOf(ks, vs)))
	f.st.m[dk] = Store(darr, m, Store(Select(darr, m), k, TTrue))
	f.st.m[vk] = Store(varr, m, Store(Select(varr, m), k, v))
	return nil
}

// mapHas / mapGet read a map in the given state.
func (f *frame) mapHas(st *State, mt types.Type, m, k *Term) (*Term, error) {
	dk, _, ks, _, err := f.mapKeys(mt)
	if err != nil {
		return nil, err
	}
	darr := f.get(st, dk, f.e.Sorts.ArrOf(SRef, f.e.Sorts.ArrOf(ks, SBool)))
	return And(Not(Eq(m, f.e.nilRef())), Select(Select(darr, m), k)), nil
}

func (f *frame) mapLookup(x *ssa.Lookup) error {
	mt := x.X.Type()
	_, vk, ks, vs, err := f.mapKeys(mt)
	if err != nil {
		return err
	}
	mv, err := f.val(x.X)
	if err != nil {
		return err
	}
	if mv.T == nil {
		return unsupported("lookup in a non-term map")
	}
	k, err := f.term(x.Index)
	if err != nil {
		return err
	}
	st := f.st
	if mv.Old && f.oldSt != nil {
		st = f.oldSt
	}
	has, err := f.mapHas(st, mt, mv.T, k)
	if err != nil {
		return err
	}
	varr := f.get(st, vk, f.e.Sorts.ArrOf(SRef, f.e.Sorts.ArrOf(ks, vs)))
	z, err := f.e.zero(mt.Underlying().(*types.Map).Elem())
	if err != nil {
		return err
	}
	val := Ite(has, Select(Select(varr, mv.T), k), z)
	et := mt.Underlying().(*types.Map).Elem()
	// a package-level map built by a constant composite literal and never written afterwards is a table
	if ld, ok := x.X.(*ssa.UnOp); ok && ld.Op == token.MUL {
		if g, ok := ld.X.(*ssa.Global); ok {
			if tab, ok := f.e.globalMapTable(g); ok {
				has, val = TFalse, z
				for i := len(tab) - 1; i >= 0; i-- {
					hit := Eq(k, tab[i][0])
					has = Or(hit, has)
					val = Ite(hit, tab[i][1], val)
				}
			}
		}
	}
	if x.CommaOk {
		f.vals[x] = &Val{Tuple: []*Val{{T: f.define(f.name(x)+"!v", val), Typ: et}, {T: has, Typ: types.Typ[types.Bool]}}}
		return nil
	}
	f.setVal(x, val)
	return nil
}

func (f *frame) mapDelete(mt types.Type, m, k *Term) error {
	dk, _, ks, _, err := f.mapKeys(mt)
	if err != nil {
		return err
	}
	darr := f.get(f.st, dk, f.e.Sorts.ArrOf(SRef, f.e.Sorts.ArrOf(ks, SBool)))
	// delete on a nil map is a no-op
	f.st.m[dk] = Store(darr, m, Store(Select(darr, m), k, TFalse))
	return nil
}

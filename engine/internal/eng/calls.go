package eng

// calls.go: calls (builtins, intrinsics, spec functions, contracts, inlining),
// clause evaluation, postconditions and frame conditions.

import (
	"fmt"
	"go/token"
	"go/types"
	"strings"

	"golang.org/x/tools/go/ssa"
)

func (f *frame) argVals(args []ssa.Value) ([]*Val, error) {
	out := make([]*Val, len(args))
	for i, a := range args {
		v, err := f.val(a)
		if err != nil {
			return nil, err
		}
		out[i] = v
	}
	return out, nil
}

func (f *frame) call(cc *ssa.CallCommon, res ssa.Value, pos token.Pos) (*Val, error) {
	if cc.IsInvoke() {
		return f.invoke(cc, res, pos)
	}
	args, err := f.argVals(cc.Args)
	if err != nil {
		return nil, err
	}
	switch callee := cc.Value.(type) {
	case *ssa.Builtin:
		return f.builtin(callee, cc.Args, args, res)
	case *ssa.Function:
		return f.callFunc(callee, nil, args, res, pos)
	}
	cv, err := f.val(cc.Value)
	if err != nil {
		return nil, err
	}
	if cv.Clo == nil && cv.T != nil && cv.T.Sort == SFn {
		// a function value that travelled through memory as a term: recover what it denotes
		if known, ok := f.symCells()["fn:"+cv.T.String()]; ok {
			cv = known
		} else if f.c != nil {
			r := cv.T
			for i := 0; i < 6; i++ {
				if r.Op == "" && r.Name != "" {
					if d, ok := f.c.defined[r.Name]; ok {
						r = d
						continue
					}
				}
				if r2 := f.reduceSel(r); r2 != r {
					r = r2
					continue
				}
				break
			}
			if known, ok := f.symCells()["fn:"+r.String()]; ok {
				cv = known
			}
		}
	}
	if cv.Clo != nil && cv.Clo.Fn != nil {
		return f.callFunc(cv.Clo.Fn, cv.Clo.Bindings, args, res, pos)
	}
	if cv.Clo != nil && cv.Clo.Param != "" {
		return f.callback(cv.Clo, args, cc.Signature(), pos)
	}
	desc := ""
	if cv.T != nil {
		desc = truncate(cv.T.String(), 160)
	}
	return nil, unsupported("call of an unknown function value %s", desc)
}

func resultVal(sig *types.Signature, ts []*Term) *Val {
	switch sig.Results().Len() {
	case 0:
		return nil
	case 1:
		return &Val{T: ts[0], Typ: sig.Results().At(0).Type()}
	}
	v := &Val{}
	for i, t := range ts {
		v.Tuple = append(v.Tuple, &Val{T: t, Typ: sig.Results().At(i).Type()})
	}
	return v
}

func (f *frame) builtin(b *ssa.Builtin, argv []ssa.Value, args []*Val, res ssa.Value) (*Val, error) {
	switch b.Name() {
	case "len", "cap":
		if args[0].T == nil {
			return nil, unsupported("len of non-term")
		}
		if _, isMap := argv[0].Type().Underlying().(*types.Map); isMap {
			// the number of entries of a map is not modelled: an unspecified non-negative integer
			if tc := f.topContract(); f.c == nil || f.pure || tc == nil || !tc.MapRange {
				return nil, unsupported("len of map")
			}
			n := f.e.fresh(f.prefix+"maplen", SInt)
			f.assume(Ge(n, IntLit(0)))
			if f.c.assumed == nil {
				f.c.assumed = map[string]bool{}
			}
			f.c.assumed["len of a map is an unspecified non-negative integer"] = true
			return &Val{T: n, Typ: types.Typ[types.Int]}, nil
		}
		if args[0].T.Sort.Kind != KSeq {
			return nil, unsupported("len of %s", args[0].T.Sort)
		}
		if b.Name() == "cap" {
			c := f.e.fresh("cap", SInt)
			f.assume(Ge(c, SeqLen(args[0].T)))
			return &Val{T: c, Typ: types.Typ[types.Int]}, nil
		}
		return &Val{T: SeqLen(args[0].T), Typ: types.Typ[types.Int]}, nil
	case "append":
		if args[0].T == nil || args[1].T == nil {
			return nil, unsupported("append of non-terms")
		}
		if args[0].T.Sort != args[1].T.Sort {
			return nil, unsupported("append: sort mismatch %s / %s", args[0].T.Sort, args[1].T.Sort)
		}
		return &Val{T: SeqCat(args[0].T, args[1].T), Typ: argv[0].Type()}, nil
	case "min", "max":
		r := args[0].T
		for _, a := range args[1:] {
			if b.Name() == "min" {
				r = Ite(Le(r, a.T), r, a.T)
			} else {
				r = Ite(Ge(r, a.T), r, a.T)
			}
		}
		return &Val{T: r, Typ: argv[0].Type()}, nil
	case "print", "println":
		return nil, nil
	case "delete":
		if args[0].T == nil || args[1].T == nil {
			return nil, unsupported("delete on non-terms")
		}
		return nil, f.mapDelete(argv[0].Type(), args[0].T, args[1].T)
	}
	return nil, unsupported("builtin %s", b.Name())
}

func originName(fn *ssa.Function) string {
	if o := fn.Origin(); o != nil {
		return o.Name()
	}
	return fn.Name()
}

func (e *Engine) inModule(fn *ssa.Function) bool {
	if fn.Pkg == nil {
		if fn.Parent() != nil {
			return e.inModule(fn.Parent())
		}
		if o := fn.Origin(); o != nil {
			return e.inModule(o)
		}
		return false
	}
	if _, ok := e.Pkgs[fn.Pkg.Pkg.Path()]; ok {
		return true
	}
	// any package of the module under verification
	for _, p := range e.Pkgs {
		if p.Module != nil && (fn.Pkg.Pkg.Path() == p.Module.Path || strings.HasPrefix(fn.Pkg.Pkg.Path(), p.Module.Path+"/")) {
			return true
		}
	}
	return false
}

func (f *frame) callFunc(fn *ssa.Function, bindings []*Val, args []*Val, res ssa.Value, pos token.Pos) (*Val, error) {
	if f.e.isSpecFunc(fn) && fn.Parent() == nil {
		switch originName(fn) {
		case "vForall", "vExists", "vForallIn", "vExistsIn":
			return f.quantifier(originName(fn), args)
		case "str1":
			return &Val{T: SeqUnit(f.e.Sorts.Str, args[0].T), Typ: types.Typ[types.String]}, nil
		case "vIte":
			if args[1].T == nil || args[2].T == nil {
				return nil, unsupported("vIte on non-terms")
			}
			return &Val{T: Ite(args[0].T, args[1].T, args[2].T), Typ: args[1].Typ}, nil
		case "vLogStr", "vLogStrOld":
			name, ok := strLitOf(args[0].T)
			if !ok {
				return nil, unsupported("vLogStr needs a constant log name")
			}
			st := f.st
			if originName(fn) == "vLogStrOld" && f.oldSt != nil {
				st = f.oldSt
			}
			ls := f.e.Sorts.SeqOf(f.e.Sorts.Str)
			return &Val{T: f.get(st, f.e.regKey("LOG:"+name, ls), ls), Typ: fn.Signature.Results().At(0).Type()}, nil
		case "vCbLog", "vCbLogOld", "vCbOK", "vCbOKOld":
			fv := args[0].T
			if fv != nil && strings.HasPrefix(fv.Op, "box.") {
				fv = fv.Args[0]
			}
			if fv == nil || fv.Sort != SFn {
				return nil, unsupported("%s: first argument must be a function-typed parameter", originName(fn))
			}
			st := f.st
			if strings.HasSuffix(originName(fn), "Old") && f.oldSt != nil {
				st = f.oldSt
			}
			if strings.HasPrefix(originName(fn), "vCbOK") {
				key := f.e.regKey(cbOKKey, f.e.cbOKSort())
				return &Val{T: Select(f.get(st, key, f.e.cbOKSort()), fv), Typ: types.Typ[types.Bool]}, nil
			}
			name, ok := strLitOf(args[1].T)
			if !ok {
				return nil, unsupported("vCbLog needs a constant log name")
			}
			key := f.e.regKey(cbLogKey(name), f.e.cbLogSort())
			return &Val{T: Select(f.get(st, key, f.e.cbLogSort()), fv), Typ: fn.Signature.Results().At(0).Type()}, nil
		case "vHas":
			if args[0].T == nil || args[1].T == nil {
				return nil, unsupported("vHas on non-terms")
			}
			st := f.st
			if args[0].Old && f.oldSt != nil {
				st = f.oldSt
			}
			mt := fn.Signature.Params().At(0).Type()
			has, err := f.mapHas(st, mt, args[0].T, args[1].T)
			if err != nil {
				return nil, err
			}
			return &Val{T: has, Typ: types.Typ[types.Bool]}, nil
		case "vCat":
			if args[0].T == nil || args[1].T == nil {
				return nil, unsupported("vCat on non-terms")
			}
			return &Val{T: SeqCat(args[0].T, args[1].T), Typ: args[0].Typ}, nil
		case "vSeqEq":
			if args[0].T == nil || args[1].T == nil {
				return nil, unsupported("vSeqEq on non-terms")
			}
			return &Val{T: Eq(args[0].T, args[1].T), Typ: types.Typ[types.Bool]}, nil
		case "vTrig":
			if f.triggers != nil {
				for _, a := range args {
					if a.T != nil {
						*f.triggers = append(*f.triggers, a.T)
					}
				}
			}
			return &Val{T: TTrue, Typ: types.Typ[types.Bool]}, nil
		}
		if strings.HasPrefix(fn.Name(), "Verif_") {
			// generated clause function called from another clause (lemma hints): inline
			return f.inlineCall(fn, bindings, args)
		}
		// a function of the contract file with a trusted pure contract is an uninterpreted symbol
		// (executable wrapper around an external function)
		if fc := f.e.contractFor(f.pkg, fn); fc != nil && fc.Trusted != "" && fc.Pure {
			return f.callContract(fc, fn, args, pos)
		}
		// a harness function of the contract file that carries a contract of its own, called from another
		// harness: code under contract (the callee is verified against that contract on its own), not a
		// specification function
		if fc := f.e.contractFor(f.pkg, fn); fc != nil && !fc.Lemma && !fc.Extern && fc.Trusted == "" && !f.pure && f.c != nil && len(fc.Ensures) > 0 {
			return f.callContract(fc, fn, args, pos)
		}
		return f.specCall(fn, args)
	}
	if fn.Name() == "As" && fn.Pkg != nil && (fn.Pkg.Pkg.Path() == "errors" || fn.Pkg.Pkg.Path() == "github.com/go-faster/errors") && len(args) == 2 {
		return f.errorsAs(args, pos)
	}
	if fc := f.e.contractFor(f.pkg, fn); fc != nil && !f.inline[fn.Name()] && !(f.top && fn == f.fn && false) {
		return f.callContract(fc, fn, args, pos)
	}
	// a call that textually sits in an inlined function of another package: the assumed contracts that
	// package's contract file declares for external functions apply to it as well
	if f.fn != nil && f.fn.Pkg != nil && f.fn.Pkg != f.pkg && !f.inline[fn.Name()] {
		if fc := f.e.contractFor(f.fn.Pkg, fn); fc != nil && fc.Extern {
			return f.callContract(fc, fn, args, pos)
		}
	}
	if len(fn.Blocks) > 0 && (f.e.inModule(fn) || fn.Parent() != nil || f.inline[fn.Name()] ||
		(fn.Synthetic != "" && (strings.HasSuffix(fn.Name(), "$bound") || strings.HasSuffix(fn.Name(), "$thunk") || strings.HasPrefix(fn.Synthetic, "wrapper for ")))) {
		if f.depth >= 6 {
			return nil, unsupported("inlining depth exceeded at %s", fn.Name())
		}
		return f.inlineCall(fn, bindings, args)
	}
	// a side-effect-free standard-library function that no contract file describes: an UNSPECIFIED
	// deterministic function of its arguments (nothing is known about its value; listed in the evidence).
	// Code that merely calls such a function (a log line, a normalisation the contract does not care
	// about) stays within reach; code whose contract depends on the value fails that contract.
	if pureStdlib[fn.String()] && fn.Signature.Variadic() == false && fn.Signature.Results().Len() >= 1 {
		var ts []*Term
		var asorts []*Sort
		ok := true
		for _, a := range args {
			if a == nil || a.T == nil {
				ok = false
				break
			}
			ts = append(ts, a.T)
			asorts = append(asorts, a.T.Sort)
		}
		if ok {
			var rts []*Term
			for i := 0; i < fn.Signature.Results().Len(); i++ {
				rs, err := f.e.Sorts.SortOf(fn.Signature.Results().At(i).Type())
				if err != nil {
					ok = false
					break
				}
				// same symbol as an assumed contract of another package would give it (defs.go extSym)
				nm := "ext." + sanitize(strings.NewReplacer("(", "", ")", "", "*", "").Replace(fn.String()))
				if fn.Signature.Results().Len() > 1 {
					nm = fmt.Sprintf("%s!%d", nm, i)
				}
				f.e.Defs.noteFunc(nm, asorts, rs)
				r := App(nm, rs, ts...)
				if f.c != nil {
					f.assume(f.e.rangeFact(r, fn.Signature.Results().At(i).Type()))
				}
				rts = append(rts, r)
			}
			if ok {
				if f.c != nil {
					if f.c.assumed == nil {
						f.c.assumed = map[string]bool{}
					}
					f.c.assumed[fn.String()+" (no contract: treated as an unspecified side-effect-free function of its arguments)"] = true
				}
				return resultVal(fn.Signature, rts), nil
			}
		}
	}
	return nil, unsupported("call to %s: no contract for this external function", fn.String())
}

// pureStdlib: standard-library functions known to be free of side effects (they read only their
// arguments); used only when no contract file describes the function.
var pureStdlib = map[string]bool{
	"strings.TrimSpace": true, "strings.ToLower": true, "strings.ToUpper": true, "strings.Index": true,
	"strings.LastIndex": true, "strings.LastIndexByte": true, "strings.Fields": true, "strings.Repeat": true,
	"strings.ReplaceAll": true, "strings.Replace": true, "strings.Trim": true, "strings.TrimLeft": true,
	"strings.TrimRight": true, "strings.Count": true, "strings.ContainsAny": true, "strings.Title": true,
	"strings.Contains": true, "strings.Split": true, "strings.SplitN": true, "strings.Compare": true,
	"strings.ToValidUTF8": true, "strings.EqualFold": true,
	"strconv.Quote": true, "strconv.QuoteToASCII": true, "strconv.Unquote": true, "strconv.FormatInt": true,
	"strconv.Itoa": true, "strconv.FormatBool": true, "strconv.FormatUint": true,
	"unicode.IsSpace": true, "unicode.IsDigit": true, "unicode.IsLetter": true, "unicode.IsUpper": true,
	"unicode.IsLower": true, "unicode.IsPunct": true, "unicode.ToLower": true, "unicode.ToUpper": true,
	"unicode/utf8.RuneCountInString": true, "unicode/utf8.ValidString": true, "unicode/utf8.RuneLen": true,
	"unicode/utf8.RuneCount": true, "unicode/utf8.Valid": true,
	"bytes.Equal": true, "bytes.TrimSpace": true, "bytes.HasPrefix": true, "bytes.HasSuffix": true,
	"bytes.Contains": true, "bytes.Index": true,
	"path.Base": true, "path.Dir": true, "path.Ext": true, "path.Clean": true,
	"path/filepath.Base": true, "path/filepath.Dir": true, "path/filepath.Ext": true, "path/filepath.Clean": true,
	"net/url.QueryEscape": true, "net/url.QueryUnescape": true, "net/url.PathEscape": true, "net/url.PathUnescape": true,
	"net/textproto.CanonicalMIMEHeaderKey": true, "net/http.CanonicalHeaderKey": true, "net/http.StatusText": true,
	"math/bits.Len": true, "math/bits.OnesCount8": true, "math/bits.TrailingZeros8": true,
}

// ---- spec functions ---------------------------------------------------------------------

func (f *frame) specCall(fn *ssa.Function, args []*Val) (*Val, error) {
	sym, err := f.e.Defs.sym(fn)
	if err != nil {
		return nil, err
	}
	ts := make([]*Term, len(args))
	litArg := false
	shortLit := false
	for i, a := range args {
		if a.T == nil {
			return nil, unsupported("spec function %s called with a pointer/closure argument", fn.Name())
		}
		ts[i] = a.T
		if a.T.Sort.Kind == KSeq && a.T.Sort.Elem == SInt {
			if l, ok := seqLiteral(a.T); ok && len(l) > 0 {
				litArg = true
				if len(l) <= 6 {
					shortLit = true
				}
			}
		}
	}
	// a spec function that reads the heap denotes a value over the ENTRY heap of the function under
	// proof: it may only be used where the current heap still is the entry heap for what it reads
	for k := range sym.Reads {
		if cur, ok := f.st.m[k]; ok && cur.String() != Const("init!"+k, cur.Sort).String() {
			if !sym.Recursive && !sym.Uninterpreted && f.depth < 12 && len(fn.Blocks) > 0 {
				// a non-recursive heap-reading spec function is evaluated in place over the CURRENT heap
				return f.inlineCall(fn, nil, args)
			}
			return nil, unsupported("spec function %s reads heap location %s, which has been modified at this point (heap-reading spec functions are evaluated over the entry heap) [now %s]", fn.Name(), k, truncate(cur.String(), 120))
		}
	}
	// a non-recursive spec function applied to a string literal is expanded in place, so that
	// comparisons with the literal are simplified (length and elements stated explicitly)
	if litArg && !sym.Recursive && !sym.inProg && !sym.Uninterpreted && f.depth < 12 {
		return f.inlineCall(fn, nil, args)
	}
	// a recursive spec function over a short string literal is unrolled in place (the literal shrinks
	// by constant folding of s[1:], so the unrolling ends at the empty literal; depth-bounded anyway)
	if shortLit && sym.Recursive && !sym.Uninterpreted && f.depth < 10 && len(fn.Blocks) > 0 {
		return f.inlineCall(fn, nil, args)
	}
	var rs []*Term
	for i := range sym.ResSorts {
		r := App(sym.names[i], sym.ResSorts[i], ts...)
		f.noteRange(r, fn.Signature.Results().At(i).Type())
		if i < len(sym.ResIv) && sym.ResIv[i] != nil && !sym.Recursive && !sym.inProg {
			f.noteIval(r, *sym.ResIv[i])
		}
		rs = append(rs, r)
	}
	return resultVal(fn.Signature, rs), nil
}

// ---- quantifiers ----------------------------------------------------------------------------

func (f *frame) quantifier(kind string, args []*Val) (*Val, error) {
	cloV := args[len(args)-1]
	if cloV.Clo == nil || cloV.Clo.Fn == nil {
		return nil, unsupported("quantifier body is not a function literal")
	}
	fn := cloV.Clo.Fn
	pt := fn.Params[0].Type()
	s, err := f.e.Sorts.SortOf(pt)
	if err != nil {
		return nil, err
	}
	bv := Const(fmt.Sprintf("bv!%d", f.e.nextBV()), s)
	f.noteRange(bv, pt)
	sub := f.child(fn, true)
	sub.bound = true
	sub.pure = true
	sub.vals[fn.Params[0]] = &Val{T: bv, Typ: pt}
	for i, fv := range fn.FreeVars {
		sub.vals[fv] = cloV.Clo.Bindings[i]
	}
	sub.st = f.st.clone()
	sub.reach = TTrue
	// vTrig(t) inside the body names an instantiation trigger explicitly (one single-term pattern each)
	var explicit []*Term
	sub.triggers = &explicit
	if err := sub.run(); err != nil {
		return nil, err
	}
	body, err := sub.mergedResult()
	if err != nil {
		return nil, err
	}
	guard := f.e.rangeFact(bv, pt)
	if strings.HasSuffix(kind, "In") {
		if args[0].T == nil || args[1].T == nil {
			return nil, unsupported("quantifier bounds")
		}
		guard = And(Le(args[0].T, bv), Lt(bv, args[1].T))
	}
	var q *Term
	pats := func(b *Term) [][]*Term {
		if len(explicit) > 0 {
			var ps [][]*Term
			for _, t := range explicit {
				ps = append(ps, []*Term{t})
			}
			return ps
		}
		return inferPatterns(b, []*Term{bv})
	}
	if strings.HasPrefix(kind, "vForall") {
		b := Implies(guard, body.T)
		q = Forall([]*Term{bv}, b, pats(b)...)
	} else {
		b := And(guard, body.T)
		q = Exists([]*Term{bv}, b, pats(b)...)
	}
	return &Val{T: q, Typ: types.Typ[types.Bool]}, nil
}

// inferPatterns picks trigger terms: applications of uninterpreted symbols whose
// arguments mention the bound variables only as plain variables.
func inferPatterns(body *Term, vars []*Term) [][]*Term {
	isVar := map[string]bool{}
	for _, v := range vars {
		isVar[v.Name] = true
	}
	seen := map[string]bool{}
	var cands []*Term
	var mentions func(t *Term) bool
	mentions = func(t *Term) bool {
		if t.Op == "" && len(t.Args) == 0 {
			return isVar[t.Name]
		}
		for _, a := range t.Args {
			if mentions(a) {
				return true
			}
		}
		return false
	}
	interpreted := func(op string) bool {
		switch op {
		case "and", "or", "not", "=>", "=", "ite", "+", "-", "*", "div", "mod", "<", "<=", ">", ">=", "distinct", "forall", "exists", "store":
			return true
		}
		return false
	}
	// plainArgs: every argument that mentions a variable is either the variable itself or itself a
	// pattern-safe application
	var safe func(t *Term) bool
	safe = func(t *Term) bool {
		if t.IsLit() {
			return true
		}
		if t.Op == "" && len(t.Args) == 0 {
			return true
		}
		if interpreted(t.Op) {
			return !mentions(t)
		}
		for _, a := range t.Args {
			if !safe(a) {
				return false
			}
		}
		return true
	}
	var walk func(t *Term)
	walk = func(t *Term) {
		if t.IsLit() || (t.Op == "" && len(t.Args) == 0) {
			return
		}
		if t.Op == "forall" || t.Op == "exists" {
			return
		}
		if !interpreted(t.Op) && mentions(t) && safe(t) {
			if !seen[t.String()] {
				seen[t.String()] = true
				cands = append(cands, t)
			}
			return
		}
		for _, a := range t.Args {
			walk(a)
		}
	}
	walk(body)
	// keep candidates that mention all variables; otherwise combine into one multi-pattern
	var full [][]*Term
	for _, c := range cands {
		all := true
		fc := map[string]*Term{}
		FreeConsts(c, fc)
		for _, v := range vars {
			if _, ok := fc[v.Name]; !ok {
				all = false
			}
		}
		if all {
			full = append(full, []*Term{c})
		}
	}
	if len(full) > 0 {
		if len(full) > 4 {
			full = full[:4]
		}
		return full
	}
	if len(cands) > 0 && len(vars) > 1 {
		// multi-pattern covering all variables
		covered := map[string]bool{}
		var mp []*Term
		for _, c := range cands {
			fc := map[string]*Term{}
			FreeConsts(c, fc)
			adds := false
			for _, v := range vars {
				if _, ok := fc[v.Name]; ok && !covered[v.Name] {
					adds = true
				}
			}
			if adds {
				mp = append(mp, c)
				for _, v := range vars {
					if _, ok := fc[v.Name]; ok {
						covered[v.Name] = true
					}
				}
			}
		}
		if len(covered) == len(vars) {
			return [][]*Term{mp}
		}
	}
	return nil
}

// ---- frames -------------------------------------------------------------------------------

func (f *frame) child(fn *ssa.Function, pure bool) *frame {
	id := 0
	if f.c != nil {
		f.c.nframe++
		id = f.c.nframe
	} else {
		id = f.e.nextBV()
	}
	return &frame{e: f.e, c: f.c, fn: fn, pkg: f.pkg, vals: map[ssa.Value]*Val{}, pure: pure || f.pure, bound: f.bound,
		st: f.st, reach: f.reach, oldSt: f.oldSt, depth: f.depth + 1, prefix: fmt.Sprintf("%s#%d!", fn.Name(), id), inline: f.inline,
		triggers: f.triggers, ranges: f.rangesEnv(), bounds: copyBounds(f.bounds), symc: f.symCells(), topFC: f.topContract(), outerOpen: f.openLoopPreds(), parent: f}
}

// mergedResult combines the return values of a finished frame.
func (f *frame) mergedResult() (*Val, error) {
	if len(f.rets) == 0 {
		return nil, unsupported("function %s never returns normally", f.fn.Name())
	}
	n := len(f.rets[0].vals)
	if n == 0 {
		return nil, nil
	}
	out := make([]*Val, n)
	for i := 0; i < n; i++ {
		last := f.rets[len(f.rets)-1].vals[i]
		same := true
		for _, r := range f.rets {
			if r.vals[i] != last {
				same = false
			}
		}
		if same {
			out[i] = last
			continue
		}
		if last.T == nil {
			return nil, unsupported("merging non-term results of %s", f.fn.Name())
		}
		t := last.T
		for k := len(f.rets) - 2; k >= 0; k-- {
			if f.rets[k].vals[i].T == nil {
				return nil, unsupported("merging non-term results of %s", f.fn.Name())
			}
			t = Ite(f.rets[k].reach, f.rets[k].vals[i].T, t)
		}
		out[i] = &Val{T: f.define(fmt.Sprintf("%sret%d", f.prefix, i), t), Typ: last.Typ}
	}
	if n == 1 {
		return out[0], nil
	}
	return &Val{Tuple: out}, nil
}

func (f *frame) inlineCall(fn *ssa.Function, bindings []*Val, args []*Val) (*Val, error) {
	if len(fn.Blocks) == 0 {
		return nil, unsupported("cannot inline %s: no body", fn.Name())
	}
	sub := f.child(fn, f.pure)
	if len(args) != len(fn.Params) {
		return nil, unsupported("inline %s: arity", fn.Name())
	}
	for i, p := range fn.Params {
		sub.vals[p] = args[i]
	}
	for i, fv := range fn.FreeVars {
		if i >= len(bindings) {
			return nil, unsupported("inline %s: missing closure bindings", fn.Name())
		}
		sub.vals[fv] = bindings[i]
	}
	sub.st = f.st
	if err := sub.run(); err != nil {
		return nil, err
	}
	if len(sub.rets) == 0 {
		// every path panics (already an obligation): the continuation is unreachable
		f.reach = TFalse
		return f.dummyResult(fn.Signature)
	}
	var cs []contrib
	var rs []*Term
	for _, r := range sub.rets {
		cs = append(cs, contrib{cond: r.reach, st: r.st})
		rs = append(rs, r.reach)
	}
	f.st = f.mergeStates(cs, fn.Blocks[0])
	if !f.pure {
		f.reach = f.define(fmt.Sprintf("%sreach!after", sub.prefix), Or(rs...))
	}
	return sub.mergedResult()
}

func (f *frame) dummyResult(sig *types.Signature) (*Val, error) {
	var ts []*Term
	for i := 0; i < sig.Results().Len(); i++ {
		s, err := f.e.Sorts.SortOf(sig.Results().At(i).Type())
		if err != nil {
			return nil, err
		}
		ts = append(ts, f.e.fresh("unreachable", s))
	}
	return resultVal(sig, ts), nil
}

// ---- clause evaluation -------------------------------------------------------------------

// evalClause evaluates a compiled clause function on the given values.
func (f *frame) evalClause(fc *FuncContract, c *Clause, params, results, vars []*Val, st, oldSt *State) (*Term, error) {
	fn, err := f.e.clauseFunc(fc, c)
	if err != nil {
		return nil, err
	}
	if fn.TypeParams().Len() > 0 {
		return nil, unsupported("clause %s of a generic contract: verify an instance", c.GoFunc)
	}
	sub := f.child(fn, true)
	sub.pkg = f.e.PkgOf[fc]
	sub.st = st.clone()
	sub.oldSt = oldSt
	sub.reach = TTrue
	if len(c.Bind) != len(fn.Params) {
		return nil, fmt.Errorf("clause %s: binding arity %d vs %d", c.GoFunc, len(c.Bind), len(fn.Params))
	}
	for i, b := range c.Bind {
		var v *Val
		switch b.Kind {
		case "param":
			if b.Index >= len(params) {
				return nil, fmt.Errorf("clause %s: parameter %d not available", c.GoFunc, b.Index)
			}
			v = params[b.Index]
		case "old":
			pv := params[b.Index]
			cp := *pv
			cp.Old = true
			if cp.P != nil {
				q := *cp.P
				q.Old = true
				cp.P = &q
			}
			v = &cp
		case "result":
			if b.Index >= len(results) {
				return nil, fmt.Errorf("clause %s: result %d not available", c.GoFunc, b.Index)
			}
			v = results[b.Index]
		case "var":
			v = vars[b.Index]
		}
		if v == nil {
			return nil, fmt.Errorf("clause %s: nil binding for %s", c.GoFunc, b.Name)
		}
		sub.vals[fn.Params[i]] = v
	}
	if err := sub.run(); err != nil {
		return nil, fmt.Errorf("clause %s %s (%s:%d): %w", c.Kind, c.Label, fc.File, c.Line, err)
	}
	r, err := sub.mergedResult()
	if err != nil {
		return nil, err
	}
	if r == nil || r.T == nil {
		return nil, fmt.Errorf("clause %s does not produce a term", c.GoFunc)
	}
	return r.T, nil
}

// ---- contract calls ---------------------------------------------------------------------------

type modLoc struct {
	param int
	via   []string // pointer-typed fields followed from the parameter (p.a.b.f: via = [a b])
	field string   // "" = whole object
	mapc  bool     // p.a.m[*]: the contents of the map stored in field m (via includes m)
}

func parseModifies(fc *FuncContract) ([]modLoc, error) {
	var out []modLoc
	all := fc.AllParams()
	for _, m := range fc.Modifies {
		m = strings.TrimSpace(m)
		if strings.HasPrefix(m, "log:") || strings.HasPrefix(m, "cb:") {
			continue
		}
		m = strings.TrimPrefix(m, "*")
		mapc := false
		if strings.HasSuffix(m, "[*]") {
			mapc = true
			m = strings.TrimSuffix(m, "[*]")
		}
		name, field := m, ""
		var via []string
		if k := strings.Index(m, "."); k >= 0 {
			name, field = m[:k], m[k+1:]
			parts := strings.Split(field, ".")
			via, field = parts[:len(parts)-1], parts[len(parts)-1]
		}
		if mapc {
			via, field = append(via, field), ""
		}
		idx := -1
		for i, p := range all {
			if p.Name == name {
				idx = i
			}
		}
		if idx < 0 {
			return nil, fmt.Errorf("%s:%d: modifies %q: no such parameter", fc.File, fc.Line, m)
		}
		out = append(out, modLoc{param: idx, via: via, field: field, mapc: mapc})
	}
	return out, nil
}

// modKeys lists the state keys of one modifies entry given the callee's parameter types.
func (e *Engine) modKeys(callee *ssa.Function, ml modLoc) ([]string, error) {
	if ml.param >= len(callee.Params) {
		return nil, fmt.Errorf("modifies: parameter index")
	}
	// `m[*]` with m a map-typed parameter: the contents of that map
	if mt, isMap := callee.Params[ml.param].Type().Underlying().(*types.Map); isMap && ml.mapc && len(ml.via) == 1 && ml.via[0] == "" {
		ks, err1 := e.Sorts.SortOf(mt.Key())
		vs, err2 := e.Sorts.SortOf(mt.Elem())
		if err1 != nil || err2 != nil {
			return nil, fmt.Errorf("modifies: unsupported map type of %s", callee.Params[ml.param].Name())
		}
		ft := callee.Params[ml.param].Type()
		return []string{e.regKey("MD:"+typeKey(ft.Underlying()), e.Sorts.ArrOf(SRef, e.Sorts.ArrOf(ks, SBool))),
			e.regKey("MV:"+typeKey(ft.Underlying()), e.Sorts.ArrOf(SRef, e.Sorts.ArrOf(ks, vs)))}, nil
	}
	pt, ok := callee.Params[ml.param].Type().Underlying().(*types.Pointer)
	if !ok {
		return nil, fmt.Errorf("modifies: parameter %s is not a pointer", callee.Params[ml.param].Name())
	}
	et := pt.Elem()
	for vi, v := range ml.via {
		st, ok := et.Underlying().(*types.Struct)
		if !ok {
			return nil, fmt.Errorf("modifies: %s is not a struct", et)
		}
		found := false
		for i := 0; i < st.NumFields(); i++ {
			if st.Field(i).Name() == v {
				if ml.mapc && vi == len(ml.via)-1 {
					mt, ok := st.Field(i).Type().Underlying().(*types.Map)
					if !ok {
						return nil, fmt.Errorf("modifies: field %s is not a map", v)
					}
					ks, err1 := e.Sorts.SortOf(mt.Key())
					vs, err2 := e.Sorts.SortOf(mt.Elem())
					if err1 != nil || err2 != nil {
						return nil, fmt.Errorf("modifies: unsupported map type of %s", v)
					}
					ft := st.Field(i).Type()
					return []string{e.regKey("MD:"+typeKey(ft.Underlying()), e.Sorts.ArrOf(SRef, e.Sorts.ArrOf(ks, SBool))),
						e.regKey("MV:"+typeKey(ft.Underlying()), e.Sorts.ArrOf(SRef, e.Sorts.ArrOf(ks, vs)))}, nil
				}
				if fp, ok := st.Field(i).Type().Underlying().(*types.Pointer); ok {
					et = fp.Elem()
				} else if _, ok := st.Field(i).Type().Underlying().(*types.Struct); ok {
					et = st.Field(i).Type() // a struct-valued field: the path continues inside it
				} else {
					return nil, fmt.Errorf("modifies: field %s is neither a pointer nor a struct", v)
				}
				found = true
			}
		}
		if !found {
			return nil, fmt.Errorf("modifies: no field %s", v)
		}
	}
	if ml.field == "" {
		return e.allKeysOf(et), nil
	}
	if st, ok := et.Underlying().(*types.Struct); ok {
		for i := 0; i < st.NumFields(); i++ {
			if st.Field(i).Name() == ml.field {
				return []string{e.fieldKey(et, i)}, nil
			}
		}
	}
	// ghost observer field
	for _, k := range e.observersOf(et) {
		if strings.HasSuffix(k, "."+ml.field) {
			return []string{k}, nil
		}
	}
	return nil, fmt.Errorf("modifies: no field %s in %s", ml.field, et)
}

func (e *Engine) modifiesKeys(fc *FuncContract, callee *ssa.Function) ([]string, error) {
	mls, err := parseModifies(fc)
	if err != nil {
		return nil, err
	}
	var out []string
	for _, ml := range mls {
		ks, err := e.modKeys(callee, ml)
		if err != nil {
			return nil, err
		}
		out = append(out, ks...)
	}
	return out, nil
}

// modifiedCallbacks lists the function-typed parameters a contract declares it calls (`modifies cb:NAME`).
func modifiedCallbacks(fc *FuncContract) []string {
	var out []string
	for _, m := range fc.Modifies {
		m = strings.TrimSpace(m)
		if strings.HasPrefix(m, "cb:") {
			out = append(out, strings.TrimPrefix(m, "cb:"))
		}
	}
	return out
}

// modifiedLogs lists the ghost logs a contract declares as modified (`modifies log:NAME`) or appends to.
func modifiedLogs(fc *FuncContract) []string {
	var out []string
	for _, m := range fc.Modifies {
		m = strings.TrimSpace(m)
		if strings.HasPrefix(m, "log:") {
			out = append(out, strings.TrimPrefix(m, "log:"))
		}
	}
	return out
}

func (f *frame) callContract(fc *FuncContract, callee *ssa.Function, args []*Val, pos token.Pos) (*Val, error) {
	if f.c != nil {
		if fc.Extern || fc.Trusted != "" {
			if f.c.assumed == nil {
				f.c.assumed = map[string]bool{}
			}
			f.c.assumed[fc.Key] = true
		}
	}
	sig := callee.Signature
	// receiver non-nil
	_, recvIsPtr := func() (types.Type, bool) {
		if sig.Recv() == nil {
			return nil, false
		}
		_, ok := sig.Recv().Type().Underlying().(*types.Pointer)
		return sig.Recv().Type(), ok
	}()
	if sig.Recv() != nil && recvIsPtr && !f.pure && len(args) > 0 && args[0].T != nil && args[0].T.Sort == SRef {
		f.oblige("pre", callee.Name()+":receiver-non-nil", Not(Eq(args[0].T, f.e.nilRef())), pos)
	}
	if !f.pure {
		for _, c := range fc.Requires {
			t, err := f.evalClause(fc, c, args, nil, nil, f.st, nil)
			if err != nil {
				return nil, err
			}
			f.oblige("pre", callee.Name()+":"+c.Label, t, pos)
		}
	}
	// pure functions: deterministic symbol; observers: ghost field read
	var results []*Term
	if fc.Pure {
		if fc.Observer != "" {
			if len(args) == 0 || (args[0].T == nil || args[0].T.Sort != SRef) {
				return nil, unsupported("observer %s on a symbolic pointer", fc.Key)
			}
			et := callee.Params[0].Type().Underlying().(*types.Pointer).Elem()
			rs, err := f.e.Sorts.SortOf(sig.Results().At(0).Type())
			if err != nil {
				return nil, err
			}
			key := f.e.regKey(ghostKey(et, fc.Observer), f.e.Sorts.ArrOf(SRef, rs))
			st := f.st
			if args[0].Old && f.oldSt != nil {
				st = f.oldSt
			}
			results = []*Term{Select(f.get(st, key, f.e.Sorts.ArrOf(SRef, rs)), args[0].T)}
		} else {
			ts := make([]*Term, len(args))
			for i, a := range args {
				if a.T == nil {
					return nil, unsupported("pure function %s called with a symbolic pointer", fc.Key)
				}
				ts[i] = a.T
			}
			names, sorts, err := f.e.Defs.extSym(fc, callee)
			if err != nil {
				return nil, err
			}
			for i := range names {
				results = append(results, App(names[i], sorts[i], ts...))
			}
		}
	} else {
		if f.pure {
			return nil, unsupported("call of impure function %s in a specification", fc.Key)
		}
		for i := 0; i < sig.Results().Len(); i++ {
			s, err := f.e.Sorts.SortOf(sig.Results().At(i).Type())
			if err != nil {
				return nil, err
			}
			r := f.e.fresh(fmt.Sprintf("%scall!%s!r%d", f.prefix, sanitizeIdent(callee.Name()), i), s)
			results = append(results, r)
			f.assume(f.e.rangeFact(r, sig.Results().At(i).Type()))
			f.noteRange(r, sig.Results().At(i).Type())
		}
	}
	// function literals passed as callbacks: the contract is applied to a surrogate function value whose
	// logs start empty; afterwards the literal's effect is lifted from the surrogate's logs (bridge)
	var bridges []*cbBridge
	for _, cbn := range modifiedCallbacks(fc) {
		for i, p := range fc.AllParams() {
			if p.Name == cbn && i < len(args) && args[i].Clo != nil && args[i].Clo.Fn != nil {
				sur := f.e.fresh("closure!"+sanitizeIdent(args[i].Clo.Fn.Name()), SFn)
				bridges = append(bridges, &cbBridge{param: cbn, idx: i, clo: args[i].Clo, sur: sur})
				// the function literal is a new function value, different from every callback parameter
				for k, kv := range f.symCells() {
					if strings.HasPrefix(k, "fn:") && kv.T != nil {
						f.assume(Not(Eq(sur, kv.T)))
					}
				}
				na := make([]*Val, len(args))
				copy(na, args)
				na[i] = &Val{T: sur, Clo: &Closure{Param: cbn, T: sur}, Typ: args[i].Typ}
				args = na
				ls := f.e.Sorts.SeqOf(f.e.Sorts.Str)
				for _, cb := range fc.Callbacks {
					if cb.Param == cbn {
						key := f.e.regKey(cbLogKey(cb.Log), f.e.cbLogSort())
						f.st.m[key] = Store(f.get(f.st, key, f.e.cbLogSort()), sur, SeqEmpty(ls))
					}
				}
				okKey := f.e.regKey(cbOKKey, f.e.cbOKSort())
				f.st.m[okKey] = Store(f.get(f.st, okKey, f.e.cbOKSort()), sur, TTrue)
			}
		}
	}
	pre := f.st.clone()
	// havoc the modifies set
	mls, err := parseModifies(fc)
	if err != nil {
		return nil, err
	}
	for _, ml := range mls {
		ks, err := f.e.modKeys(callee, ml)
		if err != nil {
			return nil, fmt.Errorf("%s:%d: %v", fc.File, fc.Line, err)
		}
		refT, err := f.modRef(callee, ml, args[ml.param], pre)
		if err != nil {
			return nil, err
		}
		for _, k := range ks {
			s := f.e.keySort[k]
			if s == nil {
				return nil, unsupported("modifies: unknown sort of %s", k)
			}
			arr := f.get(f.st, k, s)
			f.st.m[k] = Store(arr, refT, f.e.fresh("havoc!"+sanitize(k), s.Elem))
		}
	}
	for _, cbn := range modifiedCallbacks(fc) {
		if f.pure {
			return nil, unsupported("call of %s (which calls back) in a specification", fc.Key)
		}
		idx := -1
		for i, p := range fc.AllParams() {
			if p.Name == cbn {
				idx = i
			}
		}
		if idx < 0 || idx >= len(args) {
			return nil, fmt.Errorf("%s:%d: modifies cb:%s: no such parameter", fc.File, fc.Line, cbn)
		}
		fv := args[idx].T
		if fv == nil || fv.Sort != SFn {
			if args[idx].Clo != nil && args[idx].Clo.Fn != nil {
				return nil, unsupported("a function literal is passed as callback %s of %s (inline the callee or give the literal a name)", cbn, fc.Key)
			}
			return nil, unsupported("callback argument of %s is not a function value term", fc.Key)
		}
		for _, k := range sortedKeys(f.e.keySort) {
			if strings.HasPrefix(k, "CBLOG:") {
				arr := f.get(f.st, k, f.e.cbLogSort())
				f.st.m[k] = Store(arr, fv, f.e.fresh("havoc!cblog", f.e.Sorts.SeqOf(f.e.Sorts.Str)))
			}
		}
		okKey := f.e.regKey(cbOKKey, f.e.cbOKSort())
		okArr := f.get(f.st, okKey, f.e.cbOKSort())
		f.st.m[okKey] = Store(okArr, fv, f.e.fresh("havoc!cbok", SBool))
	}
	for _, ln := range modifiedLogs(fc) {
		if f.pure {
			return nil, unsupported("call of effectful function %s in a specification", fc.Key)
		}
		ls := f.e.Sorts.SeqOf(f.e.Sorts.Str)
		key := f.e.regKey("LOG:"+ln, ls)
		f.st.m[key] = f.e.fresh("havoc!LOG."+ln, ls)
	}
	for _, ef := range fc.Effects {
		if f.pure {
			return nil, unsupported("call of effectful function %s in a specification", fc.Key)
		}
		efn, err := f.e.clauseFunc(fc, ef)
		if err != nil {
			return nil, err
		}
		sub := f.child(efn, true)
		sub.pkg = f.e.PkgOf[fc]
		sub.st = pre.clone()
		sub.reach = TTrue
		for i, b := range ef.Bind {
			switch b.Kind {
			case "param":
				sub.vals[efn.Params[i]] = args[b.Index]
			case "result":
				if b.Index >= len(results) {
					return nil, unsupported("effect expression: result not available")
				}
				sub.vals[efn.Params[i]] = &Val{T: results[b.Index], Typ: sig.Results().At(b.Index).Type()}
			default:
				return nil, unsupported("effect expression may only mention parameters and results")
			}
		}
		if err := sub.run(); err != nil {
			return nil, err
		}
		ev, err := sub.mergedResult()
		if err != nil || ev == nil || ev.T == nil {
			return nil, unsupported("effect expression of %s", fc.Key)
		}
		ls := f.e.Sorts.SeqOf(f.e.Sorts.Str)
		key := f.e.regKey("LOG:"+ef.Label, ls)
		f.st.m[key] = SeqCat(f.get(f.st, key, ls), SeqUnit(ls, ev.T))
	}
	var rvals []*Val
	for i, r := range results {
		rvals = append(rvals, &Val{T: r, Typ: sig.Results().At(i).Type()})
	}
	if f.pure && fc.Pure && fc.Observer == "" {
		// axioms of the pure symbol are supplied by Defs.extSym (quantified); nothing to instantiate
		return resultVal(sig, results), nil
	}
	for _, c := range fc.Ensures {
		t, err := f.evalClause(fc, c, args, rvals, nil, f.st, pre)
		if err != nil {
			return nil, err
		}
		f.assume(t)
	}
	// `fresh R` (assumed contracts only): a non-nil result R is a new object: it existed neither at
	// function entry nor before any open loop
	if len(fc.Fresh) > 0 && (fc.Extern || fc.Trusted != "") && f.c != nil && !f.pure {
		for _, name := range fc.Fresh {
			for i, rn := range fc.Results {
				if strings.TrimSpace(name) != rn.Name || i >= len(results) || results[i].Sort != SRef {
					continue
				}
				ref := results[i]
				f.e.Defs.noteFunc("preexisting", []*Sort{SRef}, SBool)
				conj := []*Term{Not(App("preexisting", SBool, ref))}
				for _, p := range f.openLoopPreds() {
					f.e.Defs.noteFunc(p, []*Sort{SRef}, SBool)
					conj = append(conj, Not(App(p, SBool, ref)))
				}
				f.assume(Implies(Not(Eq(ref, f.e.nilRef())), And(conj...)))
			}
		}
	}
	for _, b := range bridges {
		if err := f.liftClosure(fc, b, pos); err != nil {
			return nil, err
		}
	}
	// `appends P` (assumed contracts of append-like functions, strconv.AppendInt ...): when the argument is
	// a[lo:hi] of an array cell, the call writes the appended elements INTO the array provided the result
	// fits its capacity (len(a) - lo); otherwise a new array is allocated and a is unchanged.
	if fc.Appends != "" && fc.Extern && f.c != nil && !f.pure && len(results) > 0 {
		for i, pd := range fc.Params {
			if pd.Name != fc.Appends || i >= len(args) || args[i] == nil || args[i].Arr == nil {
				continue
			}
			org := args[i].Arr
			cur, err := f.load(org.p, org.typ)
			if err != nil {
				return nil, err
			}
			if cur.String() != org.arr.String() {
				return nil, unsupported("%s: the array behind the slice argument was written between slicing and the call", fc.Key)
			}
			R := results[0]
			fits := Le(Add(org.lo, SeqLen(R)), IntLit(org.n))
			upd := SeqCat(SeqCat(SeqSub(cur, IntLit(0), org.lo), R), SeqSub(cur, Add(org.lo, SeqLen(R)), nil))
			if err := f.store(org.p, Ite(fits, upd, cur), org.typ); err != nil {
				return nil, err
			}
		}
	}
	return resultVal(sig, results), nil
}

type cbBridge struct {
	param string
	idx   int
	clo   *Closure
	sur   *Term
}

// liftClosure derives the effect of the calls the callee made to a function literal from the logs
// the callee's contract describes for the surrogate function value. Supported shape (identity
// adapter): the literal makes exactly one call to a callback parameter P of the function under
// proof, returns that call's result, and every string P's contract logs is one of the literal's own
// parameters that the callee logs too. Then P's logs grow by the callee's logs and P's ok flag is
// and-ed with the surrogate's.
func (f *frame) liftClosure(fc *FuncContract, b *cbBridge, pos token.Pos) error {
	K := b.clo.Fn
	// which parameter of the literal does each callee log record?
	calleeLogParam := map[string]int{}
	for _, cb := range fc.Callbacks {
		if cb.Param != b.param {
			continue
		}
		cfn, err := f.e.clauseFunc(fc, cb.Clause)
		if err != nil {
			return err
		}
		sub := f.child(cfn, true)
		sub.pkg = f.e.PkgOf[fc]
		sub.st = newState()
		sub.reach = TTrue
		var gen []*Term
		for i, p := range cfn.Params {
			ps, err := f.e.Sorts.SortOf(p.Type())
			if err != nil {
				return err
			}
			g := f.e.fresh("gen", ps)
			gen = append(gen, g)
			sub.vals[p] = &Val{T: g, Typ: p.Type()}
			_ = i
		}
		if err := sub.run(); err != nil {
			return err
		}
		r, err := sub.mergedResult()
		if err != nil {
			return err
		}
		found := -1
		for i, g := range gen {
			if r.T != nil && r.T.String() == g.String() {
				found = i
			}
		}
		if found < 0 {
			return unsupported("bridge: log %s of callback %s is not one of its parameters", cb.Log, b.param)
		}
		calleeLogParam[cb.Log] = found
	}
	// run the literal once on generic arguments in a scratch copy of the state
	if len(K.Params) == 0 {
		return unsupported("bridge: function literal without parameters")
	}
	scratch := f.st.clone()
	saved := f.st
	f.st = scratch
	var gen []*Term
	var gargs []*Val
	for _, p := range K.Params {
		ps, err := f.e.Sorts.SortOf(p.Type())
		if err != nil {
			f.st = saved
			return err
		}
		g := f.e.fresh("elem", ps)
		gen = append(gen, g)
		gargs = append(gargs, &Val{T: g, Typ: p.Type()})
	}
	before := scratch.clone()
	savedReach := f.reach
	res, err := f.inlineCall(K, b.clo.Bindings, gargs)
	after := f.st
	f.st = saved
	f.reach = savedReach
	if err != nil {
		return fmt.Errorf("bridge: %w", err)
	}
	// find the callback parameter P the literal called: the function value whose ok flag changed
	okKey := f.e.regKey(cbOKKey, f.e.cbOKSort())
	okAfter := f.get(after, okKey, f.e.cbOKSort())
	okBefore := f.get(before, okKey, f.e.cbOKSort())
	if okAfter.Op != "store" || okAfter.Args[0].String() != okBefore.String() {
		return unsupported("bridge: the function literal must make exactly one call to a callback parameter")
	}
	P := okAfter.Args[1]
	// its result must be what the literal returns: ok' = ok && (r == nil) with r the literal's result
	if res == nil || res.T == nil {
		return unsupported("bridge: the function literal must return the callback's result")
	}
	wantOK := And(Select(okBefore, P), Eq(res.T, f.e.nilIface()))
	if okAfter.Args[2].String() != wantOK.String() {
		return unsupported("bridge: the function literal must return exactly the result of its callback call")
	}
	// logs of P: each appended string must be a generic parameter that the callee logs
	for _, k := range sortedKeys(after.m) {
		if !strings.HasPrefix(k, "CBLOG:") {
			continue
		}
		a := after.m[k]
		bb := f.get(before, k, f.e.cbLogSort())
		if a.String() == bb.String() {
			continue
		}
		if a.Op != "store" || a.Args[0].String() != bb.String() || a.Args[1].String() != P.String() {
			return unsupported("bridge: unexpected log update by the function literal")
		}
		app := a.Args[2] // cat(old, unit(e))
		if !strings.HasPrefix(app.Op, "cat.") || !strings.HasPrefix(app.Args[1].Op, "unit.") {
			return unsupported("bridge: unexpected log update by the function literal")
		}
		e := app.Args[1].Args[0]
		pi := -1
		for i, g := range gen {
			if e.String() == g.String() {
				pi = i
			}
		}
		src := ""
		for ln, q := range calleeLogParam {
			if q == pi {
				src = ln
			}
		}
		if pi < 0 || src == "" {
			return unsupported("bridge: the string logged for the outer callback (%s) is not a parameter the callee logs (params %v, callee logs %v)", e, gen, calleeLogParam)
		}
		srcKey := f.e.regKey(cbLogKey(src), f.e.cbLogSort())
		cur := f.get(f.st, k, f.e.cbLogSort())
		f.st.m[k] = Store(cur, P, SeqCat(Select(cur, P), Select(f.get(f.st, srcKey, f.e.cbLogSort()), b.sur)))
	}
	okCur := f.get(f.st, okKey, f.e.cbOKSort())
	f.st.m[okKey] = Store(okCur, P, And(Select(okCur, P), Select(okCur, b.sur)))
	return nil
}

// ---- postconditions of the function under proof ----------------------------------------------

func (f *frame) checkPost(rets []*Val, pos token.Pos) error {
	var params []*Val
	for _, p := range f.fn.Params {
		v, err := f.val(p)
		if err != nil {
			return err
		}
		params = append(params, v)
	}
	for _, c := range f.fc.Ensures {
		t, err := f.evalClause(f.fc, c, params, rets, nil, f.st, f.oldSt)
		if err != nil {
			return err
		}
		f.oblige("post", c.Label, t, pos)
	}
	return f.checkFrame(params, pos)
}

// checkFrame: every heap key changed since entry is changed only at locations the contract lists
// (or at objects allocated during the call).
func (f *frame) checkFrame(params []*Val, pos token.Pos) error {
	if f.fc != nil && f.fc.NoFrame != "" {
		if f.c != nil {
			if f.c.assumed == nil {
				f.c.assumed = map[string]bool{}
			}
			f.c.assumed[f.fnKeyOrName()+": frame conditions not checked (noframe: "+f.fc.NoFrame+")"] = true
		}
		return nil
	}
	mls, err := parseModifies(f.fc)
	if err != nil {
		return err
	}
	allowed := map[string][]*Term{}
	for _, ml := range mls {
		ks, err := f.e.modKeys(f.fn, ml)
		if err != nil {
			return fmt.Errorf("%s:%d: %v", f.fc.File, f.fc.Line, err)
		}
		if params[ml.param].T == nil {
			continue
		}
		refT, err := f.modRef(f.fn, ml, params[ml.param], f.oldSt)
		if err != nil {
			continue
		}
		for _, k := range ks {
			allowed[k] = append(allowed[k], refT)
		}
	}
	logsOK := map[string]bool{}
	for _, ln := range modifiedLogs(f.fc) {
		logsOK["LOG:"+ln] = true
	}
	for _, ef := range f.fc.Effects {
		logsOK["LOG:"+ef.Label] = true
	}
	for _, k := range sortedKeys(f.st.m) {
		if strings.HasPrefix(k, "LOG:") && !logsOK[k] {
			cur := f.st.m[k]
			old := f.get(f.oldSt, k, cur.Sort)
			if cur != old && cur.String() != old.String() {
				f.oblige("frame", sanitize(k), Eq(cur, old), pos)
			}
			continue
		}
		if !(strings.HasPrefix(k, "H:") || strings.HasPrefix(k, "C:") || strings.HasPrefix(k, "G:") || strings.HasPrefix(k, "MD:") || strings.HasPrefix(k, "MV:")) {
			continue
		}
		cur := f.st.m[k]
		old := f.get(f.oldSt, k, cur.Sort)
		if cur == old || cur.String() == old.String() {
			continue
		}
		r := Const(fmt.Sprintf("bv!%d", f.e.nextBV()), SRef)
		var excl []*Term
		for _, a := range allowed[k] {
			excl = append(excl, Not(Eq(r, a)))
		}
		excl = append(excl, App("preexisting", SBool, r))
		f.e.Defs.noteFunc("preexisting", []*Sort{SRef}, SBool)
		goal := Forall([]*Term{r}, Implies(And(excl...), Eq(Select(cur, r), Select(old, r))))
		f.oblige("frame", sanitize(k), goal, pos)
	}
	return nil
}

// ---- callbacks (function-typed parameters) ------------------------------------------------------

func cbLogKey(name string) string { return "CBLOG:" + name }

const cbOKKey = "CBOK"

// cbSorts: logs are arrays Fn -> Seq_Str, the ok flag is an array Fn -> Bool.
func (e *Engine) cbLogSort() *Sort { return e.Sorts.ArrOf(SFn, e.Sorts.SeqOf(e.Sorts.Str)) }
func (e *Engine) cbOKSort() *Sort  { return e.Sorts.ArrOf(SFn, SBool) }

// callback models a call of a function-typed parameter: every declared log of the parameter gets
// the logged string appended, the result is an unconstrained fresh value, and the parameter's ok
// flag records whether every result so far was a nil error.
func (f *frame) callback(clo *Closure, args []*Val, sig *types.Signature, pos token.Pos) (*Val, error) {
	if f.pure {
		return nil, unsupported("callback call in a specification")
	}
	top := f
	fc := f.fc
	if fc == nil && f.topFC != nil {
		fc = f.topFC
	}
	_ = top
	if fc != nil {
		for _, cb := range fc.Callbacks {
			if cb.Param != clo.Param {
				continue
			}
			cfn, err := f.e.clauseFunc(fc, cb.Clause)
			if err != nil {
				return nil, err
			}
			if len(cfn.Params) != len(args) {
				return nil, fmt.Errorf("%s:%d: callback %s: declared %d parameters, called with %d", fc.File, cb.Clause.Line, cb.Param, len(cfn.Params), len(args))
			}
			sub := f.child(cfn, true)
			sub.pkg = f.e.PkgOf[fc]
			sub.st = f.st.clone()
			sub.reach = TTrue
			for i, p := range cfn.Params {
				sub.vals[p] = args[i]
			}
			if err := sub.run(); err != nil {
				return nil, fmt.Errorf("callback log %s: %w", cb.Log, err)
			}
			ev, err := sub.mergedResult()
			if err != nil || ev == nil || ev.T == nil {
				return nil, unsupported("callback log expression of %s", cb.Param)
			}
			key := f.e.regKey(cbLogKey(cb.Log), f.e.cbLogSort())
			arr := f.get(f.st, key, f.e.cbLogSort())
			ls := f.e.Sorts.SeqOf(f.e.Sorts.Str)
			f.st.m[key] = Store(arr, clo.T, SeqCat(Select(arr, clo.T), SeqUnit(ls, ev.T)))
		}
	}
	var results []*Term
	okAll := TTrue
	for i := 0; i < sig.Results().Len(); i++ {
		rt := sig.Results().At(i).Type()
		s, err := f.e.Sorts.SortOf(rt)
		if err != nil {
			return nil, err
		}
		r := f.e.fresh(fmt.Sprintf("%scb!%s!r%d", f.prefix, clo.Param, i), s)
		f.assume(f.e.rangeFact(r, rt))
		results = append(results, r)
		if s == SIface && types.Identical(rt, types.Universe.Lookup("error").Type()) {
			okAll = And(okAll, Eq(r, f.e.nilIface()))
		}
	}
	okKey := f.e.regKey(cbOKKey, f.e.cbOKSort())
	okArr := f.get(f.st, okKey, f.e.cbOKSort())
	f.st.m[okKey] = Store(okArr, clo.T, And(Select(okArr, clo.T), okAll))
	return resultVal(sig, results), nil
}

// ---- interface method calls -----------------------------------------------------------------------

func (f *frame) invoke(cc *ssa.CallCommon, res ssa.Value, pos token.Pos) (*Val, error) {
	recv, err := f.val(cc.Value)
	if err != nil {
		return nil, err
	}
	// devirtualise when the dynamic type is syntactically known (possibly through a named definition:
	// an interface value captured by a nested closure travels as a defined constant)
	if recv.T != nil && !strings.HasPrefix(recv.T.Op, "box.") && f.c != nil {
		r := recv.T
		for i := 0; i < 6 && r.Op == "" && r.Name != ""; i++ {
			d, ok := f.c.defined[r.Name]
			if !ok {
				break
			}
			r = d
		}
		if strings.HasPrefix(r.Op, "box.") {
			recv = &Val{T: r, Typ: recv.Typ}
		}
	}
	if recv.T != nil && strings.HasPrefix(recv.T.Op, "box.") {
		for _, t := range f.e.Sorts.ifaceTagTypes {
			if boxName(t) == recv.T.Op {
				ms := f.e.Prog.MethodSets.MethodSet(t)
				sel := ms.Lookup(cc.Method.Pkg(), cc.Method.Name())
				if sel == nil {
					break
				}
				fn := f.e.Prog.MethodValue(sel)
				if fn == nil {
					break
				}
				args, err := f.argVals(cc.Args)
				if err != nil {
					return nil, err
				}
				all := append([]*Val{{T: recv.T.Args[0], Typ: t}}, args...)
				return f.callFunc(fn, nil, all, res, pos)
			}
		}
	}
	// contract declared on the interface method
	if fc := f.e.ifaceContract(f.pkg, cc.Method); fc != nil {
		args, err := f.argVals(cc.Args)
		if err != nil {
			return nil, err
		}
		all := append([]*Val{recv}, args...)
		return f.callIfaceContract(fc, cc, all, pos)
	}
	if f.e.pureMethod(f.pkg, cc.Method.Name()) {
		args, err := f.argVals(cc.Args)
		if err != nil {
			return nil, err
		}
		if recv.T == nil {
			return nil, unsupported("pure method on a non-term receiver")
		}
		ts := []*Term{recv.T}
		asorts := []*Sort{recv.T.Sort}
		for _, a := range args {
			if a.T == nil {
				return nil, unsupported("pure method with a non-term argument")
			}
			ts = append(ts, a.T)
			asorts = append(asorts, a.T.Sort)
		}
		sig := cc.Signature()
		if sig.Results().Len() > 1 {
			// several results: one deterministic symbol per result
			var rts []*Term
			for i := 0; i < sig.Results().Len(); i++ {
				rsi, err := f.e.Sorts.SortOf(sig.Results().At(i).Type())
				if err != nil {
					return nil, err
				}
				nm := fmt.Sprintf("invoke.%s!%d", sanitize(cc.Method.FullName()), i)
				f.e.Defs.noteFunc(nm, asorts, rsi)
				ri := App(nm, rsi, ts...)
				if f.c != nil {
					f.assume(f.e.rangeFact(ri, sig.Results().At(i).Type()))
				}
				rts = append(rts, ri)
			}
			if f.c != nil {
				if f.c.assumed == nil {
					f.c.assumed = map[string]bool{}
				}
				f.c.assumed["interface method "+cc.Method.FullName()+" is a pure observer"] = true
			}
			return resultVal(sig, rts), nil
		}
		if sig.Results().Len() != 1 {
			return nil, unsupported("pure method %s must have a result", cc.Method.Name())
		}
		rs, err := f.e.Sorts.SortOf(sig.Results().At(0).Type())
		if err != nil {
			return nil, err
		}
		name := "invoke." + sanitize(cc.Method.FullName())
		f.e.Defs.noteFunc(name, asorts, rs)
		r := App(name, rs, ts...)
		if f.c != nil {
			f.assume(f.e.rangeFact(r, sig.Results().At(0).Type()))
			if f.c.assumed == nil {
				f.c.assumed = map[string]bool{}
			}
			f.c.assumed["interface method "+cc.Method.FullName()+" is a pure observer"] = true
		}
		return &Val{T: r, Typ: sig.Results().At(0).Type()}, nil
	}
	return nil, unsupported("interface method call %s (no contract on the interface method)", cc.Method.Name())
}

// pureMethod: the contract files of the package declare the method name as a pure observer.
func (e *Engine) pureMethod(from *ssa.Package, name string) bool {
	if from == nil {
		return false
	}
	cs := e.Sets[from.Pkg.Path()]
	if cs == nil {
		return false
	}
	for _, cf := range cs.Files {
		for _, m := range cf.PureMethods {
			if m == name {
				return true
			}
		}
	}
	return false
}

func strLitOf(t *Term) (string, bool) {
	if t == nil {
		return "", false
	}
	var bs []byte
	var walk func(x *Term) bool
	walk = func(x *Term) bool {
		switch {
		case strings.HasPrefix(x.Op, "empty."):
			return true
		case strings.HasPrefix(x.Op, "unit."):
			if x.Args[0].Int == nil {
				return false
			}
			bs = append(bs, byte(x.Args[0].Int.Int64()))
			return true
		case strings.HasPrefix(x.Op, "cat."):
			return walk(x.Args[0]) && walk(x.Args[1])
		case strings.HasPrefix(x.Op, "lit."):
			for _, a := range x.Args {
				if a.Int == nil {
					return false
				}
				bs = append(bs, byte(a.Int.Int64()))
			}
			return true
		}
		return false
	}
	if !walk(t) {
		return "", false
	}
	return string(bs), true
}

// errorsAs models errors.As(err, &target): the outcome and the extracted value are uninterpreted
// functions of err per target type (the first element of err's chain assignable to that type).
func (f *frame) errorsAs(args []*Val, pos token.Pos) (*Val, error) {
	errT := args[0].T
	tgt := args[1].T
	if errT == nil || tgt == nil || !strings.HasPrefix(tgt.Op, "box.") {
		return nil, unsupported("errors.As with a target that is not &variable")
	}
	var pt types.Type
	for _, t := range f.e.Sorts.ifaceTagTypes {
		if boxName(t) == tgt.Op {
			pt = t
		}
	}
	ptr, ok := pt.(*types.Pointer)
	if !ok {
		return nil, unsupported("errors.As target type %v", pt)
	}
	et := ptr.Elem()
	es, err := f.e.Sorts.SortOf(et)
	if err != nil {
		return nil, err
	}
	key := sanitize(shortTypeName(et))
	okN, valN := "errors.as.ok."+key, "errors.as.val."+key
	f.e.Defs.noteFunc(okN, []*Sort{SIface}, SBool)
	f.e.Defs.noteFunc(valN, []*Sort{SIface}, es)
	okT := App(okN, SBool, errT)
	valT := App(valN, es, errT)
	ref := tgt.Args[0]
	p := &Ptr{Kind: pHeap, Ref: ref, Elem: et}
	old, err := f.load(p, et)
	if err != nil {
		return nil, err
	}
	if err := f.store(p, Ite(okT, valT, old), et); err != nil {
		return nil, err
	}
	if f.c != nil && !f.bound {
		f.assume(Implies(Eq(errT, f.e.nilIface()), Not(okT)))
		switch es {
		case SRef:
			f.assume(Implies(okT, Not(Eq(valT, f.e.nilRef()))))
		case SIface:
			f.assume(Implies(okT, Not(Eq(valT, f.e.nilIface()))))
		}
	}
	return &Val{T: okT, Typ: types.Typ[types.Bool]}, nil
}

func (e *Engine) ifaceContract(from *ssa.Package, m *types.Func) *FuncContract { return nil }

func (f *frame) callIfaceContract(fc *FuncContract, cc *ssa.CallCommon, args []*Val, pos token.Pos) (*Val, error) {
	return nil, unsupported("interface contracts")
}

func (f *frame) rangesEnv() *rangeEnv {
	if f.ranges == nil {
		f.ranges = newRangeEnv()
	}
	return f.ranges
}

func copyBounds(m map[string]ival) map[string]ival {
	if m == nil {
		return nil
	}
	c := make(map[string]ival, len(m))
	for k, v := range m {
		c[k] = v
	}
	return c
}

// modRef follows the `via` pointer fields of a modifies entry from the argument to the object
// that is actually modified (evaluated in state st).
func (f *frame) modRef(callee *ssa.Function, ml modLoc, arg *Val, st *State) (*Term, error) {
	if arg.T == nil || arg.T.Sort != SRef {
		return nil, unsupported("modifies through a symbolic (interior) pointer")
	}
	ref := arg.T
	if _, isMap := callee.Params[ml.param].Type().Underlying().(*types.Map); isMap {
		return ref, nil
	}
	var sval *Term // non-nil while the path is inside a struct VALUE (a struct-typed field)
	et := callee.Params[ml.param].Type().Underlying().(*types.Pointer).Elem()
	for _, v := range ml.via {
		stt, ok := et.Underlying().(*types.Struct)
		if !ok {
			return nil, unsupported("modifies path through a non-struct")
		}
		for i := 0; i < stt.NumFields(); i++ {
			if stt.Field(i).Name() == v {
				var val *Term
				if sval != nil {
					val = SelField(sval, i)
				} else {
					key := f.e.fieldKey(et, i)
					val = Select(f.get(st, key, f.e.keySort[key]), ref)
				}
				ft := stt.Field(i).Type()
				if pt, ok := ft.Underlying().(*types.Pointer); ok {
					et, ref, sval = pt.Elem(), val, nil
				} else if _, ok := ft.Underlying().(*types.Struct); ok {
					et, sval = ft, val
				} else {
					ref, sval = val, nil // a map (or other reference) at the end of the path
				}
				break
			}
		}
	}
	if sval != nil {
		return nil, unsupported("modifies path ends inside a struct value")
	}
	return ref, nil
}

func (f *frame) topContract() *FuncContract {
	if f.fc != nil {
		return f.fc
	}
	return f.topFC
}

func (f *frame) fnKeyOrName() string {
	if f.c != nil && f.c.fnKey != "" {
		return f.c.fnKey
	}
	if f.fn != nil {
		return f.fn.Name()
	}
	return "?"
}

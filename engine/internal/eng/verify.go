package eng

// verify.go: generating the obligations of one function under contract or one lemma.

import (
	"fmt"
	"go/types"
	"strings"

	"golang.org/x/tools/go/ssa"
)

// FuncResult is the outcome of VC generation for one contract block.
type FuncResult struct {
	FC          *FuncContract
	Key         string // pkg.Key
	Obligations []*Obligation
	Err         error  // not within reach (unsupported construct) or contract error
	Unsupported bool
	Assumed     []string
	NInstr      int
}

func (e *Engine) fnKey(fc *FuncContract) string {
	return e.PkgOf[fc].Pkg.Name() + "." + fc.Key
}

// instanceOf picks the instance of a generic function named by the contract's `instance` clause.
func (e *Engine) instanceOf(fc *FuncContract, fn *ssa.Function) (*ssa.Function, error) {
	if fn.TypeParams().Len() == 0 {
		return fn, nil
	}
	want := strings.ReplaceAll(fc.Instance, " ", "")
	for m := range e.allFunctions() {
		if m.Origin() == fn {
			got := strings.ReplaceAll(strings.TrimPrefix(m.Name(), fn.Name()), " ", "")
			if want == "" || got == want {
				return m, nil
			}
		}
	}
	return nil, fmt.Errorf("no instance %s%s in the program (add a use of it to the contract file)", fn.Name(), fc.Instance)
}

func (e *Engine) allFunctions() map[*ssa.Function]bool {
	if e.allFns == nil {
		e.allFns = map[*ssa.Function]bool{}
		var visit func(fn *ssa.Function)
		visit = func(fn *ssa.Function) {
			if e.allFns[fn] {
				return
			}
			e.allFns[fn] = true
			for _, b := range fn.Blocks {
				for _, ins := range b.Instrs {
					for _, op := range ins.Operands(nil) {
						if f, ok := (*op).(*ssa.Function); ok {
							visit(f)
						}
					}
				}
			}
			for _, a := range fn.AnonFuncs {
				visit(a)
			}
		}
		for _, sp := range e.SSAPkgs {
			for _, m := range sp.Members {
				if f, ok := m.(*ssa.Function); ok {
					visit(f)
				}
				if t, ok := m.(*ssa.Type); ok {
					for _, tt := range []types.Type{t.Type(), types.NewPointer(t.Type())} {
						ms := e.Prog.MethodSets.MethodSet(tt)
						for i := 0; i < ms.Len(); i++ {
							if f := e.Prog.MethodValue(ms.At(i)); f != nil {
								visit(f)
							}
						}
					}
				}
			}
		}
	}
	return e.allFns
}

// lemmaFact renders a lemma as a quantified fact (for `uses`).
func (e *Engine) lemmaFact(from *FuncContract, name string) (*Term, error) {
	pkgPath := e.PkgOf[from].Pkg.Path()
	l := e.Lemmas[pkgPath+":"+name]
	if l == nil {
		return nil, fmt.Errorf("%s:%d: uses %s: no such lemma", from.File, from.Line, name)
	}
	fr := &frame{e: e, pkg: e.PkgOf[l], vals: map[ssa.Value]*Val{}, pure: true, bound: true, st: newState(), reach: TTrue, prefix: "lemma!" + name + "!"}
	var vars []*Term
	var params []*Val
	var guards []*Term
	// parameter types come from the first compiled clause
	var first *Clause
	if len(l.Ensures) > 0 {
		first = l.Ensures[0]
	}
	if first == nil {
		return nil, fmt.Errorf("lemma %s has no ensures", name)
	}
	cfn, err := e.clauseFunc(l, first)
	if err != nil {
		return nil, err
	}
	for i, p := range cfn.Params {
		s, err := e.Sorts.SortOf(p.Type())
		if err != nil {
			return nil, err
		}
		v := Const(fmt.Sprintf("bv!%d", e.nextBV()), s)
		_ = i
		vars = append(vars, v)
		params = append(params, &Val{T: v, Typ: p.Type()})
		guards = append(guards, e.rangeFact(v, p.Type()))
	}
	var req, ens []*Term
	for _, c := range l.Requires {
		t, err := fr.evalClause(l, c, params, nil, nil, fr.st, nil)
		if err != nil {
			return nil, err
		}
		req = append(req, t)
	}
	for _, c := range l.Ensures {
		t, err := fr.evalClause(l, c, params, nil, nil, fr.st, nil)
		if err != nil {
			return nil, err
		}
		ens = append(ens, t)
	}
	body := Implies(And(append(guards, req...)...), And(ens...))
	var pats [][]*Term
	for _, tr := range l.TriggerClauses {
		var ts []*Term
		fr2 := &frame{e: e, pkg: e.PkgOf[l], vals: map[ssa.Value]*Val{}, pure: true, bound: true, st: newState(), reach: TTrue, prefix: "lemma!" + name + "!", triggers: &ts}
		if _, err := fr2.evalClause(l, tr, params, nil, nil, fr2.st, nil); err != nil {
			return nil, err
		}
		if len(ts) > 0 {
			pats = append(pats, ts)
			// a trigger that is one application of a thin spec wrapper (body: one application over exactly
			// its parameters, or such an application compared with a constant - e.g. "the error result of
			// url.PathUnescape(s) is nil") is also instantiated from the wrapped term: the same wrapper
			// exists once per package (the stdlib files are copied into each), and a goal stated through
			// another package's copy shows only the wrapped term
			if len(ts) == 1 {
				if w := e.unwrapSpecApp(ts[0]); w != nil {
					pats = append(pats, []*Term{w})
				}
			}
		}
	}
	if len(pats) == 0 {
		pats = inferPatterns(And(ens...), vars)
	}
	if len(vars) == 0 {
		return body, nil
	}
	return Forall(vars, body, pats...), nil
}

// VerifyFunc generates the obligations of one function under contract.
func (e *Engine) VerifyFunc(fc *FuncContract) *FuncResult {
	res := &FuncResult{FC: fc, Key: e.fnKey(fc)}
	fail := func(err error) *FuncResult {
		res.Err = err
		_, res.Unsupported = err.(errUnsupported)
		if !res.Unsupported && strings.Contains(err.Error(), "unsupported") {
			// wrapped
		}
		return res
	}
	if fc.Lemma {
		return e.verifyLemma(fc, res)
	}
	if fc.Trusted != "" {
		// the contract is an assumption (listed as such); the body is not verified
		res.Assumed = append(res.Assumed, res.Key+" (assumed: "+fc.Trusted+")")
		return res
	}
	fn0 := e.FuncOf[fc]
	fn, err := e.instanceOf(fc, fn0)
	if err != nil {
		return fail(err)
	}
	for _, b := range fn.Blocks {
		res.NInstr += len(b.Instrs)
	}
	ctx := &vcCtx{e: e, fnKey: res.Key, noOverflow: fc.NoOverflow != "", wrapSigned: fc.Wraparound != "", fuel: fc.Fuel, reveal: fc.Reveal}
	fr := &frame{e: e, c: ctx, fn: fn, pkg: e.PkgOf[fc], vals: map[ssa.Value]*Val{}, st: newState(), reach: TTrue, fc: fc, top: true,
		inline: map[string]bool{}}
	for _, n := range fc.Inline {
		fr.inline[n] = true
	}
	fr.oldSt = newState()
	var params []*Val
	for i, p := range fn.Params {
		s, err := e.Sorts.SortOf(p.Type())
		if err != nil {
			return fail(unsupported("parameter %s: %v", p.Name(), err))
		}
		if s == SFn {
			fnT := Const("param!"+p.Name(), SFn)
			v := &Val{T: fnT, Clo: &Closure{Param: p.Name(), T: fnT}, Typ: p.Type()}
			fr.vals[p] = v
			fr.symCells()["fn:"+fnT.String()] = v
			params = append(params, v)
			continue
		}
		c := Const("param!"+p.Name(), s)
		v := &Val{T: c, Typ: p.Type()}
		fr.vals[p] = v
		params = append(params, v)
		ctx.assume(e.rangeFact(c, p.Type()))
		fr.noteRange(c, p.Type())
		if i == 0 && fn.Signature.Recv() != nil && s == SRef {
			ctx.assume(Not(Eq(c, e.nilRef())))
		}
		if s == SRef {
			e.Defs.noteFunc("preexisting", []*Sort{SRef}, SBool)
			ctx.assume(App("preexisting", SBool, c))
		}
	}
	for _, c := range fc.Requires {
		t, err := fr.evalClause(fc, c, params, nil, nil, fr.st, nil)
		if err != nil {
			return fail(err)
		}
		ctx.assume(t)
		fr.learn(t, true) // bounds stated by a precondition hold on every path
	}
	for _, u := range fc.Uses {
		t, err := e.lemmaFact(fc, u)
		if err != nil {
			return fail(err)
		}
		ctx.assume(t)
	}
	if err := fr.run(); err != nil {
		return fail(err)
	}
	res.Obligations = ctx.obls
	for k := range ctx.assumed {
		res.Assumed = append(res.Assumed, k)
	}
	return res
}

func (e *Engine) verifyLemma(l *FuncContract, res *FuncResult) *FuncResult {
	if l.Trusted != "" {
		// an assumed lemma (axiom about external functions): nothing to prove, listed as assumption
		res.Key = e.PkgOf[l].Pkg.Name() + ".lemma." + l.Name
		res.Assumed = append(res.Assumed, "lemma "+l.Name+" (assumed: "+l.Trusted+")")
		return res
	}
	ctx := &vcCtx{e: e, fnKey: e.PkgOf[l].Pkg.Name() + ".lemma." + l.Name, fuel: l.Fuel}
	res.Key = ctx.fnKey
	fr := &frame{e: e, c: ctx, pkg: e.PkgOf[l], vals: map[ssa.Value]*Val{}, pure: true, st: newState(), reach: TTrue, prefix: "lemma!"}
	if len(l.Ensures) == 0 {
		res.Err = fmt.Errorf("lemma %s has no ensures", l.Name)
		return res
	}
	cfn, err := e.clauseFunc(l, l.Ensures[0])
	if err != nil {
		res.Err = err
		return res
	}
	var params []*Val
	for _, p := range cfn.Params {
		s, err := e.Sorts.SortOf(p.Type())
		if err != nil {
			res.Err = err
			return res
		}
		c := Const("param!"+p.Name(), s)
		params = append(params, &Val{T: c, Typ: p.Type()})
		ctx.assume(e.rangeFact(c, p.Type()))
		fr.noteRange(c, p.Type())
	}
	for _, c := range l.Requires {
		t, err := fr.evalClause(l, c, params, nil, nil, fr.st, nil)
		if err != nil {
			res.Err = err
			return res
		}
		ctx.assume(t)
	}
	for _, h := range l.Hints {
		t, err := fr.evalClause(l, h, params, nil, nil, fr.st, nil)
		if err != nil {
			res.Err = err
			return res
		}
		ctx.assume(t)
	}
	for _, u := range l.Uses {
		t, err := e.lemmaFact(l, u)
		if err != nil {
			res.Err = err
			return res
		}
		ctx.assume(t)
	}
	for _, c := range l.Asserts {
		t, err := fr.evalClause(l, c, params, nil, nil, fr.st, nil)
		if err != nil {
			res.Err = err
			return res
		}
		ctx.obls = append(ctx.obls, &Obligation{Name: ctx.fnKey + "/lemma-assert:" + c.Label, Class: "lemma", Func: ctx.fnKey,
			Pos: e.Fset.Position(cfn.Pos()), NFacts: len(ctx.facts), Goal: t, ctx: ctx, Fuel: l.Fuel})
		ctx.assume(t)
	}
	for _, c := range l.Ensures {
		t, err := fr.evalClause(l, c, params, nil, nil, fr.st, nil)
		if err != nil {
			res.Err = err
			return res
		}
		ctx.obls = append(ctx.obls, &Obligation{Name: ctx.fnKey + "/lemma:" + c.Label, Class: "lemma", Func: ctx.fnKey,
			Pos: e.Fset.Position(cfn.Pos()), NFacts: len(ctx.facts), Goal: t, ctx: ctx, Fuel: l.Fuel})
	}
	res.Obligations = ctx.obls
	return res
}

// unwrapSpecApp: for t = f(a1..an) with f a non-recursive spec symbol whose body is g(x1..xn) or
// (= g(x1..xn) c) over exactly f's parameters, the term g(a1..an); nil otherwise.
func (e *Engine) unwrapSpecApp(t *Term) *Term {
	if t == nil || t.Op == "" {
		return nil
	}
	for _, s := range e.Defs.syms {
		if s.Recursive || s.Uninterpreted || len(s.names) != 1 || s.names[0] != t.Op || len(s.Bodies) != 1 || s.Bodies[0] == nil {
			continue
		}
		b := s.Bodies[0]
		if b.Op == "=" && len(b.Args) == 2 && len(b.Args[1].Args) == 0 {
			b = b.Args[0]
		}
		if b.Op == "" || len(b.Args) != len(s.Params) || len(t.Args) != len(s.Params) {
			return nil
		}
		switch b.Op {
		case "ite", "=", "and", "or", "not", "+", "-", "<", "<=":
			return nil
		}
		m := map[string]*Term{}
		for k, a := range b.Args {
			if a.String() != s.Params[k].String() {
				return nil
			}
			m[s.Params[k].Name] = t.Args[k]
		}
		return Subst(b, m)
	}
	return nil
}

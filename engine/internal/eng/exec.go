package eng

// exec.go: symbolic execution of go/ssa functions into verification conditions.
//
// One frame executes one function body. Loops are cut at their headers
// (invariants), calls are replaced by contracts or inlined, and the heap is
// threaded through as per-field SMT arrays. The same executor, in pure mode,
// turns contract clause functions, spec functions and quantifier closures into
// terms.

import (
	"strconv"
	"regexp"
	"fmt"
	"go/constant"
	"go/token"
	"go/types"
	"math/big"
	"sort"
	"strings"

	"golang.org/x/tools/go/ssa"
)

// Val is the symbolic value of an SSA value.
type Val struct {
	T     *Term    // term for scalar, sequence, struct, interface, reference values
	Tuple []*Val   // multi-value (call results)
	P     *Ptr     // symbolic pointer that is not a first-class Ref term
	Clo   *Closure // known function value
	Old   bool     // pointer parameter alias that reads the pre-state
	Typ   types.Type
	Iv    *ival    // interval of an integer result established along the path that produced it (pure mode)
	Arr   *arrOrigin // the value is a[lo:hi] of an array cell (set by slicing an array through its pointer)
}

// arrOrigin records that a slice value was obtained by slicing an array cell: an `appends` callee that is
// handed this slice writes into the array when the capacity (array length - lo) suffices.
type arrOrigin struct {
	p    *Ptr
	typ  types.Type // array type
	arr  *Term      // contents of the array when it was sliced
	lo   *Term
	n    int64 // array length
}

// Closure is a statically known function value.
type Closure struct {
	Fn       *ssa.Function
	Bindings []*Val
	Param    string // opaque callback parameter name (Fn == nil)
	T        *Term  // opaque term (Fn == nil)
}

// Ptr is a symbolic location: a root and a path of selectors.
type Ptr struct {
	Kind  int      // pLocal, pHeap, pGlobal
	Alloc string   // pLocal: state key of the cell
	Ref   *Term    // pHeap: object reference
	Elem  types.Type // type stored at the root (pHeap: pointee type)
	Glob  *ssa.Global
	Path  []sel
	Old   bool
	RO    bool // read-only view (element of a slice value that has no home location)
}

type sel struct {
	Field int   // struct field index, or -1
	Index *Term // sequence index, or nil
}

const (
	pLocal = iota
	pHeap
	pGlobal
)

// State is the mutable memory at a program point: key -> term.
//
//	L:<id>          non-escaping local cell (value)
//	H:<T>.<f>       heap field array   Ref -> sort(f)
//	C:<T>           heap cell array    Ref -> sort(T)        (pointer to non-struct T)
//	G:<T>.<obs>     ghost observer field of an external type
//	LOG:<name>      ghost log (sequence)
type State struct {
	m map[string]*Term
}

func newState() *State { return &State{m: map[string]*Term{}} }

func (s *State) clone() *State {
	n := newState()
	for k, v := range s.m {
		n.m[k] = v
	}
	return n
}

// Obligation is one proof obligation.
type Obligation struct {
	Name   string
	Class  string
	Func   string
	Pos    token.Position
	NFacts int // uses ctx.facts[:NFacts]
	Goal   *Term
	Note   string
	LenBound bool // include the axiom len(x) <= 2^56
	Fuel   int
	ctx    *vcCtx
}

type vcCtx struct {
	e      *Engine
	facts  []*Term
	obls   []*Obligation
	fnKey  string
	prop   string
	unsupported []string
	assumed map[string]bool // trusted/assumed contracts used
	nframe int
	noOverflow bool
	wrapSigned bool
	names map[string]int
	seenFact map[string]bool
	fuel   int
	allocs []*Term // references allocated so far (in execution order)
	defined map[string]*Term // definitions of the constants introduced by define
	reveal  []string         // recursive spec functions of other packages that are unfolded here (contract keyword `reveal`)
}

func (c *vcCtx) assume(t *Term) {
	if t == nil || t.IsTrue() {
		return
	}
	if c.seenFact == nil {
		c.seenFact = map[string]bool{}
	}
	k := t.String()
	if c.seenFact[k] {
		return
	}
	c.seenFact[k] = true
	c.facts = append(c.facts, t)
}

type errUnsupported struct{ msg string }

func (e errUnsupported) Error() string { return e.msg }

func unsupported(f string, a ...any) error { return errUnsupported{fmt.Sprintf(f, a...)} }

type retInfo struct {
	reach *Term
	vals  []*Val
	st    *State
}

type frame struct {
	e      *Engine
	c      *vcCtx // nil in definition mode
	fn     *ssa.Function
	pkg    *ssa.Package // package whose contracts apply
	vals   map[ssa.Value]*Val
	pure   bool // no obligations
	bound  bool // under a binder: do not introduce named constants
	st     *State
	reach  *Term
	oldSt  *State
	depth  int
	prefix string
	origin map[ssa.Value]*Ptr
	originRaw map[ssa.Value]*Term
	rets   []retInfo
	fc     *FuncContract // contract of fn when verifying it
	loops  []*loopInfo
	loopAt map[*ssa.BasicBlock]*loopInfo
	hdr    map[*ssa.BasicBlock]*hdrInfo
	inline map[string]bool
	defers []*deferred
	curPos token.Pos
	id     int
	top    bool
	triggers *[]*Term
	bounds map[string]ival
	ranges *rangeEnv
	symc   map[string]*Val
	topFC  *FuncContract // contract of the function under proof (inherited by inlined frames)
	curBlock *ssa.BasicBlock
	outerOpen []string // `allocated before loop L` predicates of the loops open in the callers
	fvOuter *frame
	parent *frame // inlining frame (nil for the function under proof)
	fvTop  bool
	fvmap  map[*ssa.FreeVar]ssa.Value // modifies analysis of a closure body: free variable -> captured value in the enclosing function
}

type deferred struct {
	reach *Term
	call  *ssa.Defer
}

type hdrInfo struct {
	phiVals map[*ssa.Phi]*Val
	measure *Term
	st      *State
	li      *loopInfo
	frames  []loopFrame
}

// loopFrame is a declared loop frame: key may change only at refs.
type loopFrame struct {
	key    string
	refs   []*Term
	hdr    *Term
	before string
}

type contrib struct {
	cond *Term
	st   *State
	from *ssa.BasicBlock
}

func (f *frame) name(v ssa.Value) string {
	return fmt.Sprintf("%s%s", f.prefix, v.Name())
}

func (f *frame) posOf(p token.Pos) token.Position {
	if !p.IsValid() {
		p = f.curPos
	}
	return f.e.Fset.Position(p)
}

// oblige records an obligation: under the current reach, goal holds.
func (f *frame) oblige(class, label string, goal *Term, pos token.Pos) {
	if f.pure || f.c == nil {
		return
	}
	g := Implies(f.reach, goal)
	if g.IsTrue() {
		// trivially discharged; still counted
	}
	name := f.c.fnKey + "/" + class
	if label != "" {
		name += ":" + label
	}
	if f.c.names == nil {
		f.c.names = map[string]int{}
	}
	f.c.names[name]++
	if n := f.c.names[name]; n > 1 {
		name = fmt.Sprintf("%s#%d", name, n)
	}
	f.c.obls = append(f.c.obls, &Obligation{Name: name, Class: class, Func: f.c.fnKey, Pos: f.posOf(pos), NFacts: len(f.c.facts), Goal: g, ctx: f.c, Fuel: f.c.fuel})
}

// assume adds a fact guarded by the current reach.
func (f *frame) assume(t *Term) {
	if f.c == nil || t == nil {
		return
	}
	f.c.assume(Implies(f.reach, t))
}

// define names a term by a fresh constant (verify mode) to keep queries linear.
func (f *frame) define(name string, t *Term) *Term {
	if f.bound || f.pure || f.c == nil || t.IsLit() || (t.Op == "" && len(t.Args) == 0) {
		return t
	}
	if len(t.String()) < 40 {
		return t
	}
	if f.c.defined == nil {
		f.c.defined = map[string]*Term{}
	}
	// a name is defined once: a second definition under the same name (two state merges after two
	// inlined calls in one caller block, say) gets a name of its own - otherwise the two states would be
	// one constant constrained by both definitions
	if old, ok := f.c.defined[name]; ok {
		if old.String() == t.String() && old.Sort == t.Sort {
			return Const(name, t.Sort)
		}
		for k := 2; ; k++ {
			n2 := fmt.Sprintf("%s~%d", name, k)
			if _, taken := f.c.defined[n2]; !taken {
				name = n2
				break
			}
		}
	}
	c := Const(name, t.Sort)
	f.c.facts = append(f.c.facts, Eq(c, t))
	f.c.defined[name] = t
	return c
}

// reduceSel resolves a field selection on a named struct value through the value's definition
// (function values stored in struct fields are recovered this way).
func (f *frame) reduceSel(t *Term) *Term {
	if f.c == nil || t == nil || len(t.Args) != 1 {
		return t
	}
	a := t.Args[0]
	for i := 0; i < 4 && a.Op == "" && a.Name != ""; i++ {
		d, ok := f.c.defined[a.Name]
		if !ok {
			break
		}
		a = d
	}
	if a.Sort == nil || a.Sort.Kind != KData {
		return t
	}
	for i := range a.Sort.Fields {
		if a.Sort.selName(i) == t.Op {
			r := SelField(a, i)
			if r.String() != t.String() {
				return r
			}
		}
	}
	return t
}

// ---- types, ranges, zero values -------------------------------------------------

func intRange(t types.Type) (lo, hi *big.Int, ok bool) {
	b, isB := t.Underlying().(*types.Basic)
	if !isB || b.Info()&types.IsInteger == 0 {
		return nil, nil, false
	}
	p := func(n uint) *big.Int { return new(big.Int).Lsh(big.NewInt(1), n) }
	m1 := func(x *big.Int) *big.Int { return new(big.Int).Sub(x, big.NewInt(1)) }
	switch b.Kind() {
	case types.Int8:
		return new(big.Int).Neg(p(7)), m1(p(7)), true
	case types.Int16:
		return new(big.Int).Neg(p(15)), m1(p(15)), true
	case types.Int32:
		return new(big.Int).Neg(p(31)), m1(p(31)), true
	case types.Int, types.Int64:
		return new(big.Int).Neg(p(63)), m1(p(63)), true
	case types.Uint8:
		return big.NewInt(0), m1(p(8)), true
	case types.Uint16:
		return big.NewInt(0), m1(p(16)), true
	case types.Uint32:
		return big.NewInt(0), m1(p(32)), true
	case types.Uint, types.Uint64, types.Uintptr:
		return big.NewInt(0), m1(p(64)), true
	case types.UntypedInt, types.UntypedRune:
		return nil, nil, false
	}
	return nil, nil, false
}

func isUnsigned(t types.Type) bool {
	b, ok := t.Underlying().(*types.Basic)
	return ok && b.Info()&types.IsUnsigned != 0
}

func bitSize(t types.Type) uint {
	lo, hi, ok := intRange(t)
	if !ok {
		return 64
	}
	_ = lo
	return uint(new(big.Int).Add(hi, big.NewInt(1)).BitLen()-1) + func() uint {
		if isUnsigned(t) {
			return 0
		}
		return 1
	}()
}

// rangeFact returns the type invariant of a term of Go type t (integer ranges, array lengths).
func (e *Engine) rangeFact(x *Term, t types.Type) *Term {
	if lo, hi, ok := intRange(t); ok && x.Sort == SInt {
		return And(Le(BigLit(lo), x), Le(x, BigLit(hi)))
	}
	switch u := t.Underlying().(type) {
	case *types.Array:
		return Eq(SeqLen(x), IntLit(u.Len()))
	case *types.Struct:
		var cs []*Term
		if x.Sort.Kind != KData {
			return TTrue
		}
		for i := 0; i < u.NumFields(); i++ {
			ft := u.Field(i).Type()
			if _, _, ok := intRange(ft); ok {
				cs = append(cs, e.rangeFact(SelField(x, i), ft))
			} else if _, isArr := ft.Underlying().(*types.Array); isArr {
				cs = append(cs, e.rangeFact(SelField(x, i), ft))
			} else if _, isSt := ft.Underlying().(*types.Struct); isSt {
				cs = append(cs, e.rangeFact(SelField(x, i), ft))
			}
		}
		return And(cs...)
	}
	return TTrue
}

// zero value of a Go type.
func (e *Engine) zero(t types.Type) (*Term, error) {
	s, err := e.Sorts.SortOf(t)
	if err != nil {
		return nil, err
	}
	switch u := t.Underlying().(type) {
	case *types.Basic:
		switch {
		case u.Info()&types.IsBoolean != 0:
			return TFalse, nil
		case u.Info()&types.IsInteger != 0:
			return IntLit(0), nil
		case u.Info()&types.IsString != 0:
			return SeqEmpty(s), nil
		case u.Info()&types.IsFloat != 0:
			return App("f64.zero", s), nil
		}
	case *types.Pointer, *types.Map:
		return e.nilRef(), nil
	case *types.Slice:
		return SeqEmpty(s), nil
	case *types.Array:
		if u.Len() == 0 {
			return SeqEmpty(s), nil
		}
		z, err := e.zero(u.Elem())
		if err != nil {
			return nil, err
		}
		if u.Len() <= 64 {
			es := make([]*Term, u.Len())
			for i := range es {
				es[i] = z
			}
			return SeqLit(s, es...), nil
		}
		return App("zeros."+s.Name, s, IntLit(u.Len())), nil
	case *types.Struct:
		fs := make([]*Term, u.NumFields())
		for i := range fs {
			z, err := e.zero(u.Field(i).Type())
			if err != nil {
				return nil, err
			}
			fs[i] = z
		}
		return MkData(s, fs...), nil
	case *types.Interface:
		return e.nilIface(), nil
	case *types.Signature:
		return App("nil.Fn", SFn), nil
	}
	return nil, unsupported("zero value of %s", t)
}

func (e *Engine) nilRef() *Term   { return App("nil.Ref", SRef) }
func (e *Engine) nilIface() *Term { return App("nil.Iface", SIface) }

// ---- state keys -----------------------------------------------------------------

func typeKey(t types.Type) string { return types.TypeString(unaliasDeep(t), nil) }

// unaliasDeep removes alias names at the top and inside map/slice/pointer/array types, so that
// state keys do not depend on which spelling of a type an expression used.
func unaliasDeep(t types.Type) types.Type {
	t = types.Unalias(t)
	switch u := t.(type) {
	case *types.Pointer:
		return types.NewPointer(unaliasDeep(u.Elem()))
	case *types.Slice:
		return types.NewSlice(unaliasDeep(u.Elem()))
	case *types.Array:
		return types.NewArray(unaliasDeep(u.Elem()), u.Len())
	case *types.Map:
		return types.NewMap(unaliasDeep(u.Key()), unaliasDeep(u.Elem()))
	}
	return t
}

func heapFieldKey(st types.Type, field string) string { return "H:" + typeKey(st) + "." + field }
func heapCellKey(t types.Type) string                 { return "C:" + typeKey(t) }
func ghostKey(t types.Type, obs string) string        { return "G:" + typeKey(t) + "." + obs }

// regKey records the sort of the term stored under a state key, so that a key can be
// havocked before it was ever read.
func (e *Engine) regKey(key string, s *Sort) string {
	if e.keySort == nil {
		e.keySort = map[string]*Sort{}
	}
	if s != nil {
		e.keySort[key] = s
	}
	return key
}

// fieldKey is the key (registered) of the heap array of field i of struct type pt.
func (e *Engine) fieldKey(pt types.Type, i int) string {
	st := pt.Underlying().(*types.Struct)
	key := heapFieldKey(pt, st.Field(i).Name())
	if s, err := e.Sorts.SortOf(st.Field(i).Type()); err == nil {
		e.regKey(key, e.Sorts.ArrOf(SRef, s))
	}
	return key
}

// cellKey is the key (registered) of the heap array of cells of type t.
func (e *Engine) cellKey(t types.Type) string {
	key := heapCellKey(t)
	if s, err := e.Sorts.SortOf(t); err == nil {
		e.regKey(key, e.Sorts.ArrOf(SRef, s))
	}
	return key
}

// allKeysOf lists the keys making up the object a *t pointer points to.
func (e *Engine) allKeysOf(t types.Type) []string {
	if st, ok := t.Underlying().(*types.Struct); ok {
		var ks []string
		for i := 0; i < st.NumFields(); i++ {
			ks = append(ks, e.fieldKey(t, i))
		}
		// ghost observer fields of external types
		for _, o := range e.observersOf(t) {
			ks = append(ks, o)
		}
		return ks
	}
	return []string{e.cellKey(t)}
}

// havoc replaces the content of key by a fresh constant.
func (f *frame) havoc(key, tag string) {
	s := f.e.keySort[key]
	if cur, ok := f.st.m[key]; ok {
		s = cur.Sort
	}
	if s == nil {
		// never materialised and sort unknown: nothing can have read it yet with a sort; drop it so that
		// a later get() cannot return a stale value either
		f.e.warn("havoc of key %s with unknown sort", key)
		return
	}
	f.st.m[key] = f.e.fresh("havoc!"+tag+"!"+sanitize(key), s)
}

// get returns the array/value stored under key, creating an initial symbolic one on demand.
func (f *frame) get(st *State, key string, s *Sort) *Term {
	if t, ok := st.m[key]; ok {
		return t
	}
	// initial (unknown) content: a constant shared by all states derived from the same root
	f.e.regKey(key, s)
	t := Const("init!"+key, s)
	st.m[key] = t
	return t
}

// ---- pointers -------------------------------------------------------------------

func (f *frame) ptrOf(v *Val, t types.Type) (*Ptr, error) {
	if v.P != nil {
		return v.P, nil
	}
	if v.T != nil && v.T.Sort == SRef {
		pt, ok := t.Underlying().(*types.Pointer)
		if !ok {
			return nil, unsupported("dereference of non-pointer type %s", t)
		}
		return &Ptr{Kind: pHeap, Ref: v.T, Elem: pt.Elem(), Old: v.Old}, nil
	}
	return nil, unsupported("value is not a pointer")
}

// elemTypeAt walks a path through a type.
func typeAt(t types.Type, path []sel) (types.Type, error) {
	for _, s := range path {
		switch u := t.Underlying().(type) {
		case *types.Struct:
			if s.Field < 0 {
				return nil, fmt.Errorf("index into struct")
			}
			t = u.Field(s.Field).Type()
		case *types.Array:
			t = u.Elem()
		case *types.Slice:
			t = u.Elem()
		case *types.Basic:
			if u.Info()&types.IsString != 0 {
				t = types.Typ[types.Uint8]
			} else {
				return nil, fmt.Errorf("selector into %s", t)
			}
		default:
			return nil, fmt.Errorf("selector into %s", t)
		}
	}
	return t, nil
}

func project(x *Term, path []sel) *Term {
	for _, s := range path {
		if s.Field >= 0 {
			x = SelField(x, s.Field)
		} else {
			x = SeqAt(x, s.Index)
		}
	}
	return x
}

func inject(x *Term, path []sel, v *Term) *Term {
	if len(path) == 0 {
		return v
	}
	s := path[0]
	if s.Field >= 0 {
		return UpdField(x, s.Field, inject(SelField(x, s.Field), path[1:], v))
	}
	return SeqUpd(x, s.Index, inject(SeqAt(x, s.Index), path[1:], v))
}

// rootAccess resolves the root of p into (state key, index term or nil, remaining path, root type).
func (f *frame) rootAccess(p *Ptr) (key string, idx *Term, path []sel, rt types.Type, srt *Sort, err error) {
	switch p.Kind {
	case pLocal:
		s, err := f.e.Sorts.SortOf(p.Elem)
		return p.Alloc, nil, p.Path, p.Elem, s, err
	case pGlobal:
		s, err := f.e.Sorts.SortOf(p.Elem)
		return "GLOBAL:" + p.Glob.String(), nil, p.Path, p.Elem, s, err
	case pHeap:
		if st, ok := p.Elem.Underlying().(*types.Struct); ok {
			if len(p.Path) == 0 {
				return "", nil, nil, nil, nil, fmt.Errorf("whole-struct access")
			}
			fi := p.Path[0].Field
			ft := st.Field(fi).Type()
			s, err := f.e.Sorts.SortOf(ft)
			_ = st
			return f.e.fieldKey(p.Elem, fi), p.Ref, p.Path[1:], ft, s, err
		}
		s, err := f.e.Sorts.SortOf(p.Elem)
		return f.e.cellKey(p.Elem), p.Ref, p.Path, p.Elem, s, err
	}
	return "", nil, nil, nil, nil, fmt.Errorf("bad pointer")
}

func (f *frame) stateFor(p *Ptr) *State {
	if p.Old && f.oldSt != nil {
		return f.oldSt
	}
	return f.st
}

// load reads the value at p (of Go type t).
func (f *frame) load(p *Ptr, t types.Type) (*Term, error) {
	st := f.stateFor(p)
	if p.Kind == pHeap {
		if sty, ok := p.Elem.Underlying().(*types.Struct); ok && len(p.Path) == 0 {
			// whole struct: assemble from the field arrays
			s, err := f.e.Sorts.SortOf(p.Elem)
			if err != nil {
				return nil, err
			}
			fs := make([]*Term, sty.NumFields())
			for i := range fs {
				q := *p
				q.Path = []sel{{Field: i}}
				v, err := f.load(&q, sty.Field(i).Type())
				if err != nil {
					return nil, err
				}
				fs[i] = v
			}
			return MkData(s, fs...), nil
		}
	}
	if p.Kind == pGlobal {
		if _, ok := st.m["GLOBAL:"+p.Glob.String()]; !ok {
			g, err := f.e.globalInit(p.Glob)
			if err != nil {
				return nil, err
			}
			return project(g, p.Path), nil
		}
	}
	key, idx, path, _, srt, err := f.rootAccess(p)
	if err != nil {
		return nil, unsupported("load: %v", err)
	}
	var root *Term
	if idx == nil {
		root = f.get(st, key, srt)
	} else {
		root = Select(f.get(st, key, f.e.Sorts.ArrOf(SRef, srt)), idx)
	}
	return project(root, path), nil
}

// store writes v at p.
func (f *frame) store(p *Ptr, v *Term, t types.Type) error {
	if p.Old {
		return unsupported("store through pre-state pointer")
	}
	if p.RO {
		return unsupported("store through a slice whose backing location is unknown (aliasing not modelled)")
	}
	if p.Kind == pGlobal {
		return unsupported("store to global %s", p.Glob.Name())
	}
	if p.Kind == pHeap {
		if sty, ok := p.Elem.Underlying().(*types.Struct); ok && len(p.Path) == 0 {
			for i := 0; i < sty.NumFields(); i++ {
				q := *p
				q.Path = []sel{{Field: i}}
				if err := f.store(&q, SelField(v, i), sty.Field(i).Type()); err != nil {
					return err
				}
			}
			return nil
		}
	}
	key, idx, path, _, srt, err := f.rootAccess(p)
	if err != nil {
		return unsupported("store: %v", err)
	}
	if idx == nil {
		root := f.get(f.st, key, srt)
		f.st.m[key] = inject(root, path, v)
		return nil
	}
	arr := f.get(f.st, key, f.e.Sorts.ArrOf(SRef, srt))
	root := Select(arr, idx)
	f.st.m[key] = Store(arr, idx, inject(root, path, v))
	return nil
}

// ---- constants --------------------------------------------------------------------

func (f *frame) constVal(c *ssa.Const) (*Val, error) {
	t := c.Type()
	if c.Value == nil {
		z, err := f.e.zero(t)
		if err != nil {
			return nil, err
		}
		return &Val{T: z, Typ: t}, nil
	}
	switch c.Value.Kind() {
	case constant.Bool:
		return &Val{T: mkBool(constant.BoolVal(c.Value)), Typ: t}, nil
	case constant.Int:
		if b, ok := t.Underlying().(*types.Basic); ok && b.Info()&types.IsFloat != 0 {
			return &Val{T: f.e.floatConst(c.Value), Typ: t}, nil
		}
		bi, ok := new(big.Int).SetString(c.Value.ExactString(), 10)
		if !ok {
			return nil, unsupported("integer constant %s", c.Value)
		}
		return &Val{T: BigLit(bi), Typ: t}, nil
	case constant.String:
		return &Val{T: f.e.Sorts.StrLit(constant.StringVal(c.Value)), Typ: t}, nil
	case constant.Float:
		return &Val{T: f.e.floatConst(c.Value), Typ: t}, nil
	}
	return nil, unsupported("constant %s", c)
}

// ---- running a function body ---------------------------------------------------------

// run executes the body of f.fn with parameters bound in f.vals.
func (f *frame) run() error {
	fn := f.fn
	if len(fn.Blocks) == 0 {
		return unsupported("function %s has no body", fn)
	}
	loops, err := findLoops(fn)
	if err != nil {
		return unsupported("%s: %v", fn, err)
	}
	f.loops = loops
	f.loopAt = map[*ssa.BasicBlock]*loopInfo{}
	f.hdr = map[*ssa.BasicBlock]*hdrInfo{}
	for _, l := range loops {
		f.loopAt[l.Header] = l
	}
	if len(loops) > 0 && f.pure {
		return unsupported("loop in spec function / clause %s", fn)
	}
	if f.pure {
		return f.runTree()
	}
	// topological order ignoring back edges
	order := topoOrder(fn)
	in := map[*ssa.BasicBlock][]contrib{}
	in[fn.Blocks[0]] = []contrib{{cond: f.reach, st: f.st}}
	for _, b := range order {
		cs := in[b]
		if len(cs) == 0 {
			continue // unreachable
		}
		f.curBlock = b
		// merge
		var reach *Term
		conds := make([]*Term, len(cs))
		for i, c := range cs {
			conds[i] = c.cond
		}
		reach = Or(conds...)
		if !f.bound && f.c != nil {
			if f.loopAt[b] != nil {
				if !reach.IsLit() {
					c := Const(fmt.Sprintf("%sreach!hdr!b%d", f.prefix, b.Index), SBool)
					f.c.facts = append(f.c.facts, Eq(c, reach))
					reach = c
				}
			} else {
				reach = f.define(fmt.Sprintf("%sreach!b%d", f.prefix, b.Index), reach)
			}
		}
		f.reach = reach
		f.st = f.mergeStates(cs, b)
		if reach.IsFalse() {
			continue
		}
		// phis
		li := f.loopAt[b]
		if li != nil {
			if err := f.enterLoop(b, li, cs); err != nil {
				return err
			}
		} else {
			for _, ins := range b.Instrs {
				phi, ok := ins.(*ssa.Phi)
				if !ok {
					break
				}
				v, err := f.phiValue(phi, b, cs)
				if err != nil {
					return err
				}
				f.vals[phi] = v
			}
		}
		// instructions
		for _, ins := range b.Instrs {
			if _, ok := ins.(*ssa.Phi); ok {
				continue
			}
			if p := ins.Pos(); p.IsValid() {
				f.curPos = p
			}
			done, err := f.step(ins, b, in)
			if err != nil {
				if u, ok := err.(errUnsupported); ok {
					if f.c != nil && !f.pure && !f.bound && !f.reach.IsTrue() && f.e.isSpecFunc(fn) == false {
						// a construct outside the subset on a path that may be infeasible: instead of giving up
						// the function, the path must be proved unreachable (obligation), and is cut here
						msg := u.msg
						if len(msg) > 90 {
							msg = msg[:90]
						}
						f.oblige("reach", "unmodelled: "+msg, TFalse, ins.Pos())
						f.reach = TFalse
						break
					}
					return unsupported("%s: %s: %s [%s]", f.e.Fset.Position(f.curPos), fn.Name(), u.msg, ins)
				}
				return err
			}
			if done {
				break
			}
		}
	}
	return nil
}

func topoOrder(fn *ssa.Function) []*ssa.BasicBlock {
	// reverse postorder over forward edges (back edges = target dominates source)
	seen := map[*ssa.BasicBlock]bool{}
	var post []*ssa.BasicBlock
	var dfs func(b *ssa.BasicBlock)
	dfs = func(b *ssa.BasicBlock) {
		seen[b] = true
		for _, s := range b.Succs {
			if s.Dominates(b) {
				continue
			}
			if !seen[s] {
				dfs(s)
			}
		}
		post = append(post, b)
	}
	dfs(fn.Blocks[0])
	if fn.Recover != nil && !seen[fn.Recover] {
		// recover blocks are ignored
	}
	for i, j := 0, len(post)-1; i < j; i, j = i+1, j-1 {
		post[i], post[j] = post[j], post[i]
	}
	return post
}

func (f *frame) mergeStates(cs []contrib, b *ssa.BasicBlock) *State {
	if len(cs) == 1 {
		return cs[0].st.clone()
	}
	out := newState()
	keys := map[string]bool{}
	for _, c := range cs {
		for k := range c.st.m {
			keys[k] = true
		}
	}
	for _, k := range sortedKeys(keys) {
		var vals []*Term
		same := true
		var sortOfKey *Sort
		for _, c := range cs {
			if v, ok := c.st.m[k]; ok {
				sortOfKey = v.Sort
			}
		}
		for _, c := range cs {
			v, ok := c.st.m[k]
			if !ok {
				v = f.get(c.st, k, sortOfKey)
			}
			vals = append(vals, v)
			if v != vals[0] && v.String() != vals[0].String() {
				same = false
			}
		}
		if same {
			out.m[k] = vals[0]
			continue
		}
		t := vals[len(vals)-1]
		for i := len(vals) - 2; i >= 0; i-- {
			t = Ite(cs[i].cond, vals[i], t)
		}
		out.m[k] = f.define(fmt.Sprintf("%smem!b%d!%s", f.prefix, b.Index, sanitize(k)), t)
	}
	return out
}

func (f *frame) phiValue(phi *ssa.Phi, b *ssa.BasicBlock, cs []contrib) (*Val, error) {
	// incoming values by predecessor
	var vals []*Val
	var conds []*Term
	for _, c := range cs {
		idx := -1
		for i, p := range b.Preds {
			if p == c.from {
				idx = i
			}
		}
		if idx < 0 {
			return nil, fmt.Errorf("phi: predecessor not found")
		}
		v, err := f.val(phi.Edges[idx])
		if err != nil {
			return nil, err
		}
		vals = append(vals, v)
		conds = append(conds, c.cond)
	}
	if len(vals) == 1 {
		return vals[0], nil
	}
	allSame := true
	for _, v := range vals {
		if v != vals[0] {
			allSame = false
		}
	}
	if allSame {
		return vals[0], nil
	}
	for _, v := range vals {
		if v.T == nil {
			return nil, unsupported("phi of non-term values (pointers/closures) for %s", phi.Name())
		}
	}
	t := vals[len(vals)-1].T
	for i := len(vals) - 2; i >= 0; i-- {
		t = Ite(conds[i], vals[i].T, t)
	}
	return &Val{T: f.define(f.name(phi), t), Typ: phi.Type()}, nil
}

// val returns the symbolic value of an SSA value.
func (f *frame) val(v ssa.Value) (*Val, error) {
	if x, ok := f.vals[v]; ok {
		return x, nil
	}
	switch v := v.(type) {
	case *ssa.Const:
		return f.constVal(v)
	case *ssa.Global:
		return &Val{P: &Ptr{Kind: pGlobal, Glob: v, Elem: v.Type().(*types.Pointer).Elem()}, Typ: v.Type()}, nil
	case *ssa.Function:
		return &Val{Clo: &Closure{Fn: v}, Typ: v.Type()}, nil
	case *ssa.Builtin:
		return nil, unsupported("builtin %s as value", v.Name())
	}
	return nil, unsupported("value %s (%T) not available", v.Name(), v)
}

func (f *frame) term(v ssa.Value) (*Term, error) {
	x, err := f.val(v)
	if err != nil {
		return nil, err
	}
	if x.T == nil {
		return nil, unsupported("value %s is not a term (pointer or closure used as data)", v.Name())
	}
	return x.T, nil
}

// setVal binds the result of an instruction, naming it in verify mode.
func (f *frame) setVal(v ssa.Value, t *Term) {
	d := f.define(f.name(v), t)
	f.vals[v] = &Val{T: d, Typ: v.Type()}
	if d.Sort == SInt {
		_, isBin := v.(*ssa.BinOp)
		_, isUn := v.(*ssa.UnOp)
		_, isConv := v.(*ssa.Convert)
		if isUnsigned(v.Type()) || !(isBin || isUn || isConv) {
			if u, ok := v.(*ssa.UnOp); !ok || u.Op == token.MUL {
				f.noteRange(d, v.Type())
			} else if isUnsigned(v.Type()) {
				f.noteRange(d, v.Type())
			}
		}
	}
}

// ---- loops -------------------------------------------------------------------------

func (f *frame) loopContract(li *loopInfo) *LoopContract {
	if f.fc == nil {
		// a loop of an inlined callee: the contract of the function under proof may carry its invariants
		// (`loop CALLEE.N ...`)
		if f.topFC != nil && f.parent != nil && f.fn != nil {
			for i, c := range f.topFC.InlCallees {
				if c == f.fn.Name() {
					return f.topFC.Loops[1000*(i+1)+li.Ord]
				}
			}
		}
		return nil
	}
	if f.fc.Loops == nil {
		return nil
	}
	return f.fc.Loops[li.Ord]
}

// topFrame is the frame of the function under proof.
func (f *frame) topFrame() *frame {
	t := f
	for t.parent != nil {
		t = t.parent
	}
	return t
}

// loopLabel names a loop in obligation labels: loopN, or loopCALLEE.N for a loop of an inlined callee.
func (f *frame) loopLabel(li *loopInfo) string {
	if f.fc == nil && f.parent != nil && f.fn != nil {
		return fmt.Sprintf("loop%s.%d", f.fn.Name(), li.Ord)
	}
	return fmt.Sprintf("loop%d", li.Ord)
}

// bindLoopVars resolves the declared locals of a loop contract to SSA values at the header.
func (f *frame) loopVarValue(li *loopInfo, name string, phiVals map[*ssa.Phi]*Val) (*Val, error) {
	// <name>_L<k>: the phi <name> at the head of the ENCLOSING loop k (its current value)
	if m := regexp.MustCompile(`^(.+)_L(\d+)$`).FindStringSubmatch(name); m != nil {
		k, _ := strconv.Atoi(m[2])
		for _, other := range f.loopAt {
			if other.Ord != k {
				continue
			}
			for _, ins := range other.Header.Instrs {
				if phi, ok := ins.(*ssa.Phi); ok && phi.Comment == m[1] {
					if v, ok := phiVals[phi]; ok {
						return v, nil
					}
					return f.val(phi)
				}
			}
		}
		return nil, fmt.Errorf("loop %d of %s: no phi %q at the head of loop %d", li.Ord, f.fn.Name(), m[1], k)
	}
	// <name>_cur: the phi <name> at this loop head when a parameter of the same name exists (the bare
	// name then denotes the parameter, i.e. the ENTRY value)
	wantCur := false
	if strings.HasSuffix(name, "_cur") {
		name = strings.TrimSuffix(name, "_cur")
		wantCur = true
	}
	for _, ins := range li.Header.Instrs {
		if phi, ok := ins.(*ssa.Phi); ok && phi.Comment == name {
			if v, ok := phiVals[phi]; ok {
				return v, nil
			}
		}
	}
	// a loop of an inlined callee: a `_cur` name that is not a phi here denotes the named local cell
	// (captured variable) of an enclosing frame
	if f.fc == nil && f.parent != nil && wantCur {
		for a := f.parent; a != nil; a = a.parent {
			if v := a.namedAlloc(name); v != nil {
				return v, nil
			}
		}
	}
	if !(f.fc == nil && f.parent != nil && wantCur) {
		for _, p := range f.fn.Params {
			if p.Name() == name {
				return f.val(p)
			}
		}
	}
	// a phi with that name in a dominating block, or a named alloc
	var best ssa.Value
	for _, b := range f.fn.Blocks {
		if !b.Dominates(li.Header) || b == li.Header {
			continue
		}
		for _, ins := range b.Instrs {
			switch x := ins.(type) {
			case *ssa.Phi:
				if x.Comment == name {
					best = x
				}
			case *ssa.Alloc:
				if x.Comment == name {
					best = x
				}
			}
		}
	}
	if best != nil {
		if a, ok := best.(*ssa.Alloc); ok {
			pv, err := f.val(a)
			if err != nil {
				return nil, err
			}
			et := a.Type().(*types.Pointer).Elem()
			// pointer-typed contract variable bound to the alloc itself (e.g. *strings.Builder)
			return &Val{T: pv.T, P: pv.P, Typ: types.NewPointer(et)}, nil
		}
		return f.val(best)
	}
	// The local may have been renamed in the code: when exactly one declared variable and exactly one
	// header phi of the same type are left unmatched by name, they are bound to each other. (A wrong
	// binding cannot make a proof pass that should fail - invariants are proved, never assumed first.)
	if f.fc == nil && f.parent != nil {
		for a := f.parent; a != nil; a = a.parent {
			if v := a.namedAlloc(name); v != nil {
				return v, nil
			}
		}
	}
	if phi := f.renamedPhi(li, name); phi != nil {
		f.e.warn("%s: loop %d: declared variable %q bound to the local %q (same type, the only unmatched pair)", f.fn.Name(), li.Ord, name, phi.Comment)
		if v, ok := phiVals[phi]; ok {
			return v, nil
		}
		return f.val(phi)
	}
	return nil, fmt.Errorf("loop %d of %s: no variable %q at the loop header (known: phis %s)", li.Ord, f.fn.Name(), name, phiNames(li.Header))
}

// namedAlloc: the local cell (Alloc) of this frame's function with the given source name, as a pointer
// value; nil when there is none or it has not been executed yet.
func (f *frame) namedAlloc(name string) *Val {
	if f.fn == nil {
		return nil
	}
	for _, b := range f.fn.Blocks {
		for _, ins := range b.Instrs {
			if a, ok := ins.(*ssa.Alloc); ok && a.Comment == name {
				pv, ok := f.vals[a]
				if !ok || pv == nil {
					continue
				}
				et := a.Type().(*types.Pointer).Elem()
				return &Val{T: pv.T, P: pv.P, Typ: types.NewPointer(et)}
			}
		}
	}
	return nil
}

// renamedPhi finds the unique header phi that can stand for the declared loop variable name when no
// phi of that name exists (see loopVarValue).
func (f *frame) renamedPhi(li *loopInfo, name string) *ssa.Phi {
	lc := f.loopContract(li)
	if lc == nil {
		return nil
	}
	declared := map[string]string{}
	for _, vd := range lc.Vars {
		declared[strings.TrimSuffix(vd.Name, "_cur")] = vd.Type
	}
	want, ok := declared[name]
	if !ok {
		return nil
	}
	qual := func(p *types.Package) string {
		if p == f.fn.Pkg.Pkg {
			return ""
		}
		return p.Name()
	}
	var phis []*ssa.Phi
	byName := map[string]bool{}
	for _, ins := range li.Header.Instrs {
		if phi, ok := ins.(*ssa.Phi); ok {
			phis = append(phis, phi)
			byName[phi.Comment] = true
		}
	}
	// other declared variables of the same type that are also unmatched make the pairing ambiguous
	for n, t := range declared {
		if n != name && t == want && !byName[n] && !regexp.MustCompile(`_L\d+$`).MatchString(n) {
			isParam := false
			for _, p := range f.fn.Params {
				if p.Name() == n {
					isParam = true
				}
			}
			if !isParam {
				return nil
			}
		}
	}
	var cand *ssa.Phi
	for _, phi := range phis {
		if _, isDeclared := declared[phi.Comment]; isDeclared {
			continue
		}
		if types.TypeString(phi.Type(), qual) != want {
			continue
		}
		if cand != nil {
			return nil
		}
		cand = phi
	}
	return cand
}

func phiNames(b *ssa.BasicBlock) string {
	var ns []string
	for _, ins := range b.Instrs {
		if phi, ok := ins.(*ssa.Phi); ok {
			ns = append(ns, phi.Comment)
		}
	}
	return strings.Join(ns, ",")
}

// evalLoopClause evaluates an invariant/measure with the given phi values in the current state.
func (f *frame) evalLoopClause(li *loopInfo, lc *LoopContract, c *Clause, phiVals map[*ssa.Phi]*Val) (*Term, error) {
	var vars []*Val
	for _, vd := range lc.Vars {
		v, err := f.loopVarValue(li, vd.Name, phiVals)
		if err != nil {
			return nil, err
		}
		// a declared pointer-typed variable bound to a value-typed alloc: pass the alloc pointer
		if strings.HasPrefix(vd.Type, "*") && v.T == nil && v.P != nil {
			// keep as pointer
		}
		vars = append(vars, v)
	}
	var params []*Val
	pf, pfc := f, f.fc
	if f.fc == nil && f.parent != nil {
		pf, pfc = f.topFrame(), f.topFC
	}
	for _, p := range pf.fn.Params {
		v, err := pf.val(p)
		if err != nil {
			return nil, err
		}
		params = append(params, v)
	}
	return f.evalClause(pfc, c, params, nil, vars, f.st, f.oldSt0())
}

// oldSt0 is the pre-state of the function being verified.
func (f *frame) oldSt0() *State {
	if f.oldSt != nil {
		return f.oldSt
	}
	return nil
}

func (f *frame) enterLoop(h *ssa.BasicBlock, li *loopInfo, cs []contrib) error {
	if f.pure || f.c == nil {
		return unsupported("loop in pure/inlined context: %s", f.fn.Name())
	}
	lc := f.loopContract(li)
	// values on entry
	entryVals := map[*ssa.Phi]*Val{}
	var phis []*ssa.Phi
	for _, ins := range h.Instrs {
		phi, ok := ins.(*ssa.Phi)
		if !ok {
			break
		}
		phis = append(phis, phi)
		v, err := f.phiValue(phi, h, cs)
		if err != nil {
			return err
		}
		entryVals[phi] = v
	}
	if lc != nil {
		for _, inv := range lc.Invariants {
			t, err := f.evalLoopClause(li, lc, inv, entryVals)
			if err != nil {
				return err
			}
			f.oblige("inv-entry", f.loopLabel(li)+":"+inv.Label, t, h.Instrs[0].Pos())
		}
	} else if f.fc != nil {
		f.e.warn("%s: loop %d has no invariant block (treated as invariant true)", f.fn.Name(), li.Ord)
	}
	// havoc: phis and the state keys the loop may modify
	hv := map[*ssa.Phi]*Val{}
	for _, phi := range phis {
		if entryVals[phi].T == nil {
			return unsupported("loop-carried pointer/closure value %s", phi.Name())
		}
		s := entryVals[phi].T.Sort
		c := Const(fmt.Sprintf("%s%s!%s", f.prefix, phi.Name(), sanitizeIdent(phi.Comment)), s)
		hv[phi] = &Val{T: c, Typ: phi.Type()}
		f.vals[phi] = hv[phi]
		f.assume(f.e.rangeFact(c, phi.Type()))
		f.noteRange(c, phi.Type())
	}
	keys, all, err := f.loopModifies(li)
	if err != nil {
		return err
	}
	if all {
		for k := range f.st.m {
			keys.add(k, nil)
		}
		f.e.warn("%s: loop %d modifies unknown locations: whole state havocked", f.fn.Name(), li.Ord)
	}
	// everything allocated so far (and everything that existed at function entry) exists before this loop
	bp := f.beforePred(h)
	f.e.Defs.noteFunc(bp, []*Sort{SRef}, SBool)
	f.e.Defs.noteFunc("preexisting", []*Sort{SRef}, SBool)
	{
		rr := Const(fmt.Sprintf("bv!%d", f.e.nextBV()), SRef)
		f.c.assume(Forall([]*Term{rr}, Implies(App("preexisting", SBool, rr), App(bp, SBool, rr)), []*Term{App(bp, SBool, rr)}, []*Term{App("preexisting", SBool, rr)}))
		for _, a := range f.c.allocs {
			f.c.assume(App(bp, SBool, a))
		}
	}
	// `loop N modifies` entries, resolved to (key, reference) in the state before the loop
	declared := map[string][]*Term{}
	var loopFrames []loopFrame
	if lc != nil && len(lc.Modifies) > 0 && f.fc == nil {
		return unsupported("`loop modifies` on a loop of an inlined callee (%s)", f.fn.Name())
	}
	if lc != nil && len(lc.Modifies) > 0 {
		tmp := &FuncContract{Modifies: lc.Modifies, Recv: f.fc.Recv, Params: f.fc.Params, File: f.fc.File, Line: f.fc.Line}
		mls, err := parseModifies(tmp)
		if err != nil {
			return err
		}
		for _, ml := range mls {
			ks, err := f.e.modKeys(f.fn, ml)
			if err != nil {
				return fmt.Errorf("%s:%d: loop %d modifies: %v", f.fc.File, f.fc.Line, li.Ord, err)
			}
			pv, err := f.val(f.fn.Params[ml.param])
			if err != nil {
				return err
			}
			ref, err := f.modRef(f.fn, ml, pv, f.st)
			if err != nil {
				return err
			}
			for _, k := range ks {
				declared[k] = append(declared[k], ref)
			}
		}
	}
	for _, k := range sortedKeys(keys.keys) {
		mi := keys.keys[k]
		var before *Term
		if s := f.e.keySort[k]; s != nil && s.Kind == KArr && s.Idx == SRef {
			before = f.get(f.st, k, s)
		}
		f.havoc(k, fmt.Sprintf("%sb%d", f.prefix, h.Index))
		// declared loop frame (`loop N modifies p.a.f`): assumed at the header relative to the state
		// before the loop, and proved at every back edge relative to the header state
		if before != nil && lc != nil {
			if refs, ok := declared[k]; ok {
				r := Const(fmt.Sprintf("bv!%d", f.e.nextBV()), SRef)
				var excl []*Term
				for _, t := range refs {
					excl = append(excl, Not(Eq(r, t)))
				}
				after := f.st.m[k]
				f.assume(Forall([]*Term{r}, Implies(And(excl...), Eq(Select(after, r), Select(before, r))), []*Term{Select(after, r)}))
				loopFrames = append(loopFrames, loopFrame{key: k, refs: refs, hdr: after, before: bp})
				continue
			}
		}
		// loop frame: the array is unchanged at every reference the loop does not write at, provided all
		// written references are single values computed before the loop
		if before == nil || mi.unknown {
			continue
		}
		var excl []*Term
		okRefs := true
		r := Const(fmt.Sprintf("bv!%d", f.e.nextBV()), SRef)
		if mi.fresh {
			excl = append(excl, App(bp, SBool, r))
		}
		for _, rv := range mi.refs {
			if ins, isIns := rv.(ssa.Instruction); isIns && li.Blocks[ins.Block()] {
				if _, isAlloc := rv.(*ssa.Alloc); isAlloc {
					// written at an object allocated inside the loop: it did not exist before the loop
					excl = append(excl, App(bp, SBool, r))
					continue
				}
				okRefs = false
				break
			}
			v, err := f.val(rv)
			if err != nil || v.T == nil || v.T.Sort != SRef {
				okRefs = false
				break
			}
			excl = append(excl, Not(Eq(r, v.T)))
		}
		if !okRefs {
			continue
		}
		after := f.st.m[k]
		f.assume(Forall([]*Term{r}, Implies(And(excl...), Eq(Select(after, r), Select(before, r))), []*Term{Select(after, r)}))
	}
	f.hdr[h] = &hdrInfo{phiVals: hv, li: li, st: f.st.clone(), frames: loopFrames}
	if lc != nil {
		for _, inv := range lc.Invariants {
			t, err := f.evalLoopClause(li, lc, inv, hv)
			if err != nil {
				return err
			}
			f.assume(t)
		}
		if lc.Decreases != nil {
			m, err := f.evalLoopClause(li, lc, lc.Decreases, hv)
			if err != nil {
				return err
			}
			f.hdr[h].measure = m
		}
		for _, a := range lc.Asserts {
			t, err := f.evalLoopClause(li, lc, a, hv)
			if err != nil {
				return err
			}
			f.oblige("loop-assert", f.loopLabel(li)+":"+a.Label, t, h.Instrs[0].Pos())
			f.assume(t)
		}
	}
	return nil
}

// backEdge emits the invariant-preservation obligations for the edge from -> h.
func (f *frame) backEdge(from, h *ssa.BasicBlock, cond *Term) error {
	hi := f.hdr[h]
	if hi == nil {
		return fmt.Errorf("back edge to unprocessed header")
	}
	li := hi.li
	lc := f.loopContract(li)
	if lc == nil {
		return nil
	}
	idx := -1
	for i, p := range h.Preds {
		if p == from {
			idx = i
		}
	}
	vals := map[*ssa.Phi]*Val{}
	for _, ins := range h.Instrs {
		phi, ok := ins.(*ssa.Phi)
		if !ok {
			break
		}
		v, err := f.val(phi.Edges[idx])
		if err != nil {
			return err
		}
		vals[phi] = v
	}
	saved := f.reach
	f.reach = cond
	defer func() { f.reach = saved }()
	for _, inv := range lc.Invariants {
		t, err := f.evalLoopClause(li, lc, inv, vals)
		if err != nil {
			return err
		}
		f.oblige("inv-step", f.loopLabel(li)+":"+inv.Label, t, from.Instrs[len(from.Instrs)-1].Pos())
	}
	for _, lf := range hi.frames {
		cur := f.st.m[lf.key]
		if cur == nil || cur.String() == lf.hdr.String() {
			continue
		}
		r := Const(fmt.Sprintf("bv!%d", f.e.nextBV()), SRef)
		var excl []*Term
		for _, t := range lf.refs {
			excl = append(excl, Not(Eq(r, t)))
		}
		excl = append(excl, App(lf.before, SBool, r))
		f.oblige("loop-frame", fmt.Sprintf("loop%d:%s", li.Ord, sanitize(lf.key)), Forall([]*Term{r}, Implies(And(excl...), Eq(Select(cur, r), Select(lf.hdr, r)))), from.Instrs[len(from.Instrs)-1].Pos())
	}
	if lc.Decreases != nil && hi.measure != nil {
		m, err := f.evalLoopClause(li, lc, lc.Decreases, vals)
		if err != nil {
			return err
		}
		f.oblige("decreases", f.loopLabel(li), And(Ge(hi.measure, IntLit(0)), Lt(m, hi.measure)), from.Instrs[len(from.Instrs)-1].Pos())
	}
	return nil
}

// modSet: state keys a region may write, with the (SSA) references written at, when known.
type modSet struct {
	keys map[string]*modInfo
}

type modInfo struct {
	refs    []ssa.Value
	unknown bool // written at a reference that is not a single SSA value visible here
	fresh   bool // (also) written at objects allocated while the region runs (inlined callees, closures)
}

func newModSet() *modSet { return &modSet{keys: map[string]*modInfo{}} }

// addFresh records a write to an object allocated during the region.
func (m *modSet) addFresh(key string) {
	mi := m.keys[key]
	if mi == nil {
		mi = &modInfo{}
		m.keys[key] = mi
	}
	mi.fresh = true
}

func (m *modSet) add(key string, ref ssa.Value) {
	mi := m.keys[key]
	if mi == nil {
		mi = &modInfo{}
		m.keys[key] = mi
	}
	if ref == nil {
		mi.unknown = true
		return
	}
	for _, r := range mi.refs {
		if r == ref {
			return
		}
	}
	mi.refs = append(mi.refs, ref)
}

// beforePred names the predicate "r was allocated before loop h was entered".
func (f *frame) beforePred(h *ssa.BasicBlock) string {
	return fmt.Sprintf("before!%s%s!b%d", f.prefix, sanitizeIdent(f.fn.Name()), h.Index)
}

// openLoopPreds lists the before-predicates of all loops the current program point is inside of.
func (f *frame) openLoopPreds() []string {
	out := append([]string{}, f.outerOpen...)
	if f.curBlock != nil {
		for _, li := range f.loops {
			if li.Blocks[f.curBlock] && f.hdr[li.Header] != nil {
				out = append(out, f.beforePred(li.Header))
			}
		}
	}
	return out
}

// noteAlloc records a fresh reference: it exists neither at function entry nor before any loop
// that is currently open.
func (f *frame) noteAlloc(ref *Term) {
	if f.c == nil {
		return
	}
	f.e.Defs.noteFunc("preexisting", []*Sort{SRef}, SBool)
	f.c.assume(Not(App("preexisting", SBool, ref)))
	f.c.assume(Not(Eq(ref, f.e.nilRef())))
	for _, p := range f.openLoopPreds() {
		f.e.Defs.noteFunc(p, []*Sort{SRef}, SBool)
		f.c.assume(Not(App(p, SBool, ref)))
	}
	if f.pure || f.bound || f.e.isSpecFunc(f.fn) {
		return // allocations inside specifications (quantifier closures, clause functions) are not objects of the program
	}
	for _, a := range f.c.allocs {
		if a.String() != ref.String() {
			f.c.assume(Not(Eq(ref, a))) // distinct allocation sites yield distinct objects
		}
	}
	f.c.allocs = append(f.c.allocs, ref)
}

// loopModifies computes the state keys a loop may write.
func (f *frame) loopModifies(li *loopInfo) (*modSet, bool, error) {
	keys := newModSet()
	all := false
	var blocks []*ssa.BasicBlock
	for b := range li.Blocks {
		blocks = append(blocks, b)
	}
	sort.Slice(blocks, func(i, j int) bool { return blocks[i].Index < blocks[j].Index })
	seen := map[*ssa.Function]bool{}
	for _, b := range blocks {
		for _, ins := range b.Instrs {
			if f.instrModifies(ins, keys, seen, 0, true) {
				all = true
			}
		}
	}
	return keys, all, nil
}

// instrModifies adds the keys ins may write; returns true when unknown.
func (f *frame) instrModifies(ins ssa.Instruction, keys *modSet, seen map[*ssa.Function]bool, depth int, top bool) bool {
	switch x := ins.(type) {
	case *ssa.Store:
		return f.addrKeys(x.Addr, keys, top)
	case *ssa.MapUpdate:
		if dk, vk, _, _, err := f.mapKeys(x.Map.Type()); err == nil {
			keys.add(dk, nil)
			keys.add(vk, nil)
			return false
		}
		return true
	case *ssa.Call:
		return f.callModifies(x.Common(), keys, seen, depth, top)
	case *ssa.Defer:
		return f.callModifies(x.Common(), keys, seen, depth, top)
	case *ssa.Go, *ssa.Send, *ssa.Select:
		return true
	}
	return false
}

func (f *frame) addrKeys(a ssa.Value, keys *modSet, top bool) bool {
	refOf := func(v ssa.Value) ssa.Value {
		if top {
			return v
		}
		return nil
	}
	switch x := a.(type) {
	case *ssa.FieldAddr:
		pt := x.X.Type().Underlying().(*types.Pointer).Elem()
		if al, ok := x.X.(*ssa.Alloc); ok && !al.Heap {
			keys.add(f.localKey(al), nil)
			return false
		}
		if fa, ok := x.X.(*ssa.FieldAddr); ok {
			// nested struct field: the outer field is modified
			return f.addrKeys(fa, keys, top)
		}
		if ia, ok := x.X.(*ssa.IndexAddr); ok {
			return f.addrKeys(ia, keys, top)
		}
		keys.add(f.e.fieldKey(pt, x.Field), refOf(x.X))
		return false
	case *ssa.Alloc:
		if !x.Heap {
			keys.add(f.localKey(x), nil)
			return false
		}
		et := x.Type().(*types.Pointer).Elem()
		for _, k := range f.e.allKeysOf(et) {
			if top {
				keys.add(k, x)
			} else {
				keys.addFresh(k) // allocated by an inlined callee / closure while the region runs
			}
		}
		return false
	case *ssa.IndexAddr:
		// element of an array (pointer to array) or of a slice value
		if _, ok := x.X.Type().Underlying().(*types.Pointer); ok {
			return f.addrKeys(x.X, keys, top)
		}
		// slice of a freshly allocated array (varargs): a fresh object
		if sl, ok := x.X.(*ssa.Slice); ok {
			if al, ok := sl.X.(*ssa.Alloc); ok {
				return f.addrKeys(al, keys, top)
			}
		}
		// slice: where was it loaded from?
		if u, ok := x.X.(*ssa.UnOp); ok && u.Op == token.MUL {
			return f.addrKeys(u.X, keys, top)
		}
		return true
	case *ssa.Global:
		keys.add("GLOBAL:"+x.String(), nil)
		return false
	case *ssa.Parameter, *ssa.Phi, *ssa.UnOp, *ssa.Call, *ssa.Extract, *ssa.FreeVar:
		if fv, ok := a.(*ssa.FreeVar); ok && f.fvmap != nil {
			if outer, ok := f.fvmap[fv]; ok && f.fvOuter != nil {
				// a store through a captured variable is a store to that variable in the enclosing function
				return f.fvOuter.addrKeys(outer, keys, f.fvTop)
			}
		}
		pt, ok := a.Type().Underlying().(*types.Pointer)
		if !ok {
			return true
		}
		for _, k := range f.e.allKeysOf(pt.Elem()) {
			keys.add(k, refOf(a))
		}
		return false
	}
	return true
}

func (f *frame) localKey(a *ssa.Alloc) string {
	key := fmt.Sprintf("L:%s%s", f.prefix, a.Name())
	if s, err := f.e.Sorts.SortOf(a.Type().(*types.Pointer).Elem()); err == nil {
		f.e.regKey(key, s)
	}
	return key
}

func (f *frame) callModifies(cc *ssa.CallCommon, keys *modSet, seen map[*ssa.Function]bool, depth int, top bool) bool {
	if cc.IsInvoke() {
		return !f.e.pureMethod(f.pkg, cc.Method.Name())
	}
	switch callee := cc.Value.(type) {
	case *ssa.Builtin:
		switch callee.Name() {
		case "len", "cap", "append", "min", "max", "print", "println", "panic", "recover":
			return false
		case "delete":
			if len(cc.Args) > 0 {
				if dk, _, _, _, err := f.mapKeys(cc.Args[0].Type()); err == nil {
					keys.add(dk, nil)
					return false
				}
			}
		}
		return true
	case *ssa.Function:
		return f.funcModifies(callee, cc.Args, keys, seen, depth, top)
	case *ssa.MakeClosure:
		fn := callee.Fn.(*ssa.Function)
		if len(fn.Blocks) > 0 && depth <= 4 && !seen[fn] {
			seen[fn] = true
			sub := &frame{e: f.e, fn: fn, prefix: f.prefix, pkg: f.pkg, inline: f.inline, topFC: f.topContract(), fvOuter: f, fvTop: top, fvmap: map[*ssa.FreeVar]ssa.Value{}}
			for i, fv := range fn.FreeVars {
				if i < len(callee.Bindings) {
					sub.fvmap[fv] = callee.Bindings[i]
				}
			}
			unknown := false
			for _, b := range fn.Blocks {
				for _, ins := range b.Instrs {
					if sub.instrModifies(ins, keys, seen, depth+1, false) {
						unknown = true
					}
				}
			}
			delete(seen, fn)
			return unknown
		}
		return f.funcModifies(fn, nil, keys, seen, depth, false)
	}
	// a closure held in a local SSA value loaded from nowhere else: resolve through its definition
	if mc, ok := cc.Value.(ssa.Value); ok {
		_ = mc
	}
	// call of a function-typed parameter: callback protocol — modifies only its ghost logs and ok flag
	if _, ok := cc.Value.(*ssa.Parameter); ok {
		fc := f.topContract()
		if fc != nil {
			for _, cb := range fc.Callbacks {
				keys.add(f.e.regKey(cbLogKey(cb.Log), f.e.cbLogSort()), nil)
			}
		}
		keys.add(f.e.regKey(cbOKKey, f.e.cbOKSort()), nil)
		return false
	}
	return true
}

func (f *frame) funcModifies(callee *ssa.Function, args []ssa.Value, keys *modSet, seen map[*ssa.Function]bool, depth int, top bool) bool {
	if f.e.isSpecFunc(callee) {
		return false
	}
	if fc := f.e.contractFor(f.pkg, callee); fc != nil && !f.inline[callee.Name()] {
		mls, err := parseModifies(fc)
		if err != nil {
			return true
		}
		for _, ef := range fc.Effects {
			keys.add(f.e.regKey("LOG:"+ef.Label, f.e.Sorts.SeqOf(f.e.Sorts.Str)), nil)
		}
		for _, ln := range modifiedLogs(fc) {
			keys.add(f.e.regKey("LOG:"+ln, f.e.Sorts.SeqOf(f.e.Sorts.Str)), nil)
		}
		if len(modifiedCallbacks(fc)) > 0 {
			for _, k := range sortedKeys(f.e.keySort) {
				if strings.HasPrefix(k, "CBLOG:") {
					keys.add(k, nil)
				}
			}
			for _, cb := range fc.Callbacks {
				keys.add(f.e.regKey(cbLogKey(cb.Log), f.e.cbLogSort()), nil)
			}
			keys.add(f.e.regKey(cbOKKey, f.e.cbOKSort()), nil)
		}
		for _, ml := range mls {
			ks, err := f.e.modKeys(callee, ml)
			if err != nil {
				return true
			}
			for _, k := range ks {
				if top && ml.param < len(args) && len(ml.via) == 0 {
					keys.add(k, args[ml.param])
				} else {
					keys.add(k, nil)
				}
			}
		}
		return false
	}
	if len(callee.Blocks) == 0 || depth > 4 || seen[callee] {
		return len(callee.Blocks) == 0 || depth > 4
	}
	seen[callee] = true
	unknown := false
	sub := &frame{e: f.e, fn: callee, prefix: f.prefix, pkg: f.pkg, inline: f.inline}
	for _, b := range callee.Blocks {
		for _, ins := range b.Instrs {
			if sub.instrModifies(ins, keys, seen, depth+1, false) {
				unknown = true
			}
		}
	}
	return unknown
}

// runTree evaluates a loop-free function in pure mode as a decision tree: the result is a nested
// conditional over the branch conditions (no path-condition blow-up, no merging of states).
func (f *frame) runTree() error {
	vals, err := f.treeBlock(f.fn.Blocks[0], nil, 0)
	if err != nil {
		return err
	}
	if vals == nil {
		return unsupported("pure function %s never returns normally", f.fn.Name())
	}
	f.rets = []retInfo{{reach: TTrue, vals: vals, st: f.st}}
	return nil
}

// treeBlock returns the values returned when execution continues at b coming from block from;
// nil means every path from here panics.
func (f *frame) treeBlock(b, from *ssa.BasicBlock, depth int) ([]*Val, error) {
	if depth > 400 {
		return nil, unsupported("pure evaluation too deep in %s", f.fn.Name())
	}
	for _, ins := range b.Instrs {
		if p := ins.Pos(); p.IsValid() {
			f.curPos = p
		}
		switch x := ins.(type) {
		case *ssa.Phi:
			idx := -1
			for i, p := range b.Preds {
				if p == from {
					idx = i
				}
			}
			if idx < 0 {
				return nil, fmt.Errorf("phi without predecessor")
			}
			v, err := f.val(x.Edges[idx])
			if err != nil {
				return nil, err
			}
			f.vals[x] = v
		case *ssa.Return:
			var vs []*Val
			for _, r := range x.Results {
				v, err := f.val(r)
				if err != nil {
					return nil, err
				}
				vs = append(vs, v)
			}
			if vs == nil {
				vs = []*Val{}
			}
			for i, v := range vs {
				if v.T != nil && v.T.Sort == SInt {
					iv := f.ivalOf(v.T)
					if lo, hi, ok := intRange(x.Results[i].Type()); ok && isUnsigned(x.Results[i].Type()) {
						iv = meet(iv, ival{lo, hi})
					}
					cp := *v
					cp.Iv = &iv
					vs[i] = &cp
				}
			}
			return vs, nil
		case *ssa.Jump:
			return f.treeBlock(b.Succs[0], b, depth+1)
		case *ssa.Panic:
			return nil, nil
		case *ssa.If:
			c, err := f.term(x.Cond)
			if err != nil {
				return nil, err
			}
			if c.IsTrue() {
				return f.treeBlock(b.Succs[0], b, depth+1)
			}
			if c.IsFalse() {
				return f.treeBlock(b.Succs[1], b, depth+1)
			}
			saved := f.st.clone()
			savedVals := map[ssa.Value]*Val{}
			for k, v := range f.vals {
				savedVals[k] = v
			}
			savedBounds := map[string]ival{}
			for k, v := range f.bounds {
				savedBounds[k] = v
			}
			f.learn(c, true)
			a, err := f.treeBlock(b.Succs[0], b, depth+1)
			if err != nil {
				return nil, err
			}
			f.st = saved
			f.vals = savedVals
			f.bounds = map[string]ival{}
			for k, v := range savedBounds {
				f.bounds[k] = v
			}
			f.learn(c, false)
			bb, err := f.treeBlock(b.Succs[1], b, depth+1)
			if err != nil {
				return nil, err
			}
			f.bounds = savedBounds
			if a == nil {
				return bb, nil
			}
			if bb == nil {
				return a, nil
			}
			out := make([]*Val, len(a))
			for i := range a {
				if a[i] == bb[i] {
					out[i] = a[i]
					continue
				}
				if a[i].T == nil || bb[i].T == nil {
					return nil, unsupported("conditional result that is not a term in %s", f.fn.Name())
				}
				out[i] = &Val{T: Ite(c, a[i].T, bb[i].T), Typ: a[i].Typ}
				if a[i].Iv != nil && bb[i].Iv != nil {
					h := hull(*a[i].Iv, *bb[i].Iv)
					out[i].Iv = &h
				}
			}
			return out, nil
		default:
			done, err := f.step(ins, b, nil)
			if err != nil {
				if u, ok := err.(errUnsupported); ok {
					return nil, unsupported("%s: %s: %s [%s]", f.e.Fset.Position(f.curPos), f.fn.Name(), u.msg, ins)
				}
				return nil, err
			}
			_ = done
		}
	}
	return nil, fmt.Errorf("block without terminator")
}

package eng

// contract.go: the contract language.
//
// Contracts are structured comments (`//@ ...`) in files named verif_*.go (build
// tag verif) of the package they talk about, or in /verif/stdlib/*.go for
// external functions. A block starts with a header line
//
//	//@ func NAME(params) (results)            contract of a function of the package
//	//@ func (recv) NAME(params) (results)     ... of a method
//	//@ extern func PKG.NAME(params) (results) assumed contract of an external function
//	//@ extern func (recv PKG.T) NAME(...)     ... external method
//	//@ lemma NAME(params)                     lemma over spec functions
//
// followed by clause lines:
//
//	requires [label:] EXPR
//	ensures  label: EXPR
//	modifies LOC, LOC ...          LOC ::= p.f | *p | p.f[*]  (p a pointer parameter)
//	pure                           (extern) result is a function of arguments and of the ghost state of the receiver
//	observer FIELD                 (extern pure method) result *is* ghost field FIELD of the receiver object
//	loop N vars NAME TYPE, ...     locals an invariant of loop N may mention
//	loop N invariant label: EXPR
//	loop N decreases EXPR
//	loop N modifies LOC, ...
//	inline NAME, ...               callees to inline instead of using their contract
//	uses LEMMA, ...                lemmas made available (as quantified facts) to this function's obligations
//	induct EXPR, ...; decreases EXPR   (lemma) induction hypotheses at the given argument tuples
//	witness EXPRLIST               a concrete call executed by the vacuity guard
//	trusted REASON                 the function is not verified; its contract is assumed (listed in evidence)
//
// EXPR is a Go expression over the parameters, named results, and (for loop
// clauses) the declared locals, extended with
//
//	a ==> b, a <==> b, forall x T :: e, exists x T :: e,
//	forall x in (lo, hi) :: e, exists x in (lo, hi) :: e, old(e)
//
// Every clause is compiled *mechanically* into a Go function (gen file, passed to
// the Go type checker through an overlay). The verifier translates the SSA of
// that function exactly as it translates the code under proof, and the replay
// harness calls the same function at run time.

import (
	"fmt"
	"go/ast"
	"go/parser"
	"go/printer"
	"go/scanner"
	"go/token"
	"os"
	"path/filepath"
	"regexp"
	"sort"
	"strconv"
	"strings"
)

// ParamDecl is a declared parameter / result / local.
type ParamDecl struct {
	Name string
	Type string // Go source text of the type
}

// isPtr: the parameter denotes mutable state the callee may change (a pointer, or a map): old(p...) reads it in the pre-state.
func (p ParamDecl) isPtr() bool { return strings.HasPrefix(p.Type, "*") || strings.HasPrefix(p.Type, "map[") }

// Clause is one contract clause compiled to a Go function.
type Clause struct {
	Kind   string // requires, ensures, invariant, decreases, lemma-hint
	Label  string
	Loop   int
	Expr   string // as written
	GoFunc string // generated function
	// Binding of the generated function's parameters, in order.
	Bind []Binding
	Line int
}

// Binding says what a parameter of a generated clause function stands for.
type Binding struct {
	Kind  string // "param" (incl. receiver), "old" (pre-state alias of a pointer param), "result", "var"
	Index int    // index into recv+params / results / loop vars
	Name  string
}

// LoopContract holds the clauses of one loop.
type LoopContract struct {
	N          int
	Vars       []ParamDecl
	Invariants []*Clause
	Asserts    []*Clause // proof cuts: proved at the loop head under the invariants, then assumed
	Decreases  *Clause
	Modifies   []string
}

// FuncContract is the contract block of one function.
type FuncContract struct {
	Key      string // "Name", "(*T).Name", "(T).Name"; extern: "pkg.Name", "(*pkg.T).Name"
	Name     string
	RecvType string // "" for functions
	PkgAlias string // extern: import name used in the header
	Extern   bool
	Lemma    bool
	Recv     *ParamDecl
	Params   []ParamDecl
	Results  []ParamDecl
	TParams  string // type parameter list text incl. brackets, or ""
	Requires []*Clause
	Ensures  []*Clause
	Loops    map[int]*LoopContract
	Modifies []string
	Pure     bool
	Observer string
	Inline   []string
	InlCallees []string // `loop CALLEE.N ...`: loops of inlined callees; loop id = 1000*(index+1)+N
	Appends  string   // extern only: `appends P`: the first result is the slice parameter P extended IN PLACE when its capacity suffices (append semantics)
	Fresh    []string // extern/trusted only: named pointer results that are freshly allocated when non-nil
	Uses     []string
	Induct   []string
	Decreases *Clause // lemma measure
	Hints    []*Clause // lemma induction hypotheses (compiled)
	Asserts  []*Clause // lemma proof steps (cuts), in order
	Triggers []string
	TriggerClauses []*Clause
	Witness  []string
	Trusted  string
	NoOverflow string
	MapRange   bool   // `maprange`: range over maps in this function is modelled as iteration over arbitrary entries (default: outside the subset)
	NoFrame    string // `noframe REASON`: frame obligations are not generated for this function (safety-only contract; listed as assumption)
	Wraparound string
	Fuel     int // unfolding depth for recursive spec functions in this block's obligations (default 2; hypotheses get one less)
	Callbacks []*CallbackSpec // what is logged when a function-typed parameter is called
	Effects  []*Clause // ghost effect-log appends: Label = log name, Expr = logged string value
	File     string
	Line     int
	Imports  []*ast.ImportSpec
	Instance string // for generic functions: instantiation to verify, e.g. "[[]string,string]"
	Reveal   []string // recursive spec functions of OTHER packages (pkg.name) whose unfolding axioms are given to this function's queries
}

// CallbackSpec: `callback F(params) log NAME EXPR` — each call of the function-typed parameter F
// appends the string EXPR (over F's own parameters, evaluated in the state at the call) to the
// ghost log NAME of F.
type CallbackSpec struct {
	Param  string
	Params []ParamDecl
	Log    string
	Clause *Clause
}

// AllParams returns receiver (if any) followed by the parameters.
func (fc *FuncContract) AllParams() []ParamDecl {
	var ps []ParamDecl
	if fc.Recv != nil {
		ps = append(ps, *fc.Recv)
	}
	return append(ps, fc.Params...)
}

func (fc *FuncContract) loop(n int) *LoopContract {
	if fc.Loops == nil {
		fc.Loops = map[int]*LoopContract{}
	}
	l := fc.Loops[n]
	if l == nil {
		l = &LoopContract{N: n}
		fc.Loops[n] = l
	}
	return l
}

// ContractFile is the result of scanning one Go file for //@ blocks.
type ContractFile struct {
	Path      string
	Package   string
	Funcs     []*FuncContract
	Uses      []string // //@ use NAME lines: stdlib spec files to include
	PureMethods []string // //@ puremethod NAME ...: interface methods assumed to be pure observers
	Extracts    []*Extract // //@ extract ...: sections of repository functions wrapped, verbatim, as functions of their own
	NonNil      []string // //@ nonnil NAME ...: package-level pointer variables assumed non-nil (initialised once in init)
	Imports   []*ast.ImportSpec
}

var clauseKeywords = map[string]bool{
	"requires": true, "ensures": true, "modifies": true, "pure": true, "observer": true, "loop": true,
	"inline": true, "fresh": true, "appends": true, "uses": true, "induct": true, "decreases": true, "witness": true, "trusted": true,
	"trigger": true, "instance": true, "nooverflow": true, "noframe": true, "maprange": true, "assert": true, "wraparound": true, "effect": true, "callback": true, "fuel": true, "reveal": true,
}

// ScanContractFile extracts the //@ blocks of a Go source file.
func ScanContractFile(path string, src []byte) (*ContractFile, error) {
	fset := token.NewFileSet()
	f, err := parser.ParseFile(fset, path, src, parser.ParseComments|parser.ImportsOnly)
	if err != nil {
		return nil, fmt.Errorf("%s: %v", path, err)
	}
	cf := &ContractFile{Path: path, Package: f.Name.Name, Imports: f.Imports}
	// Collect //@ lines from the raw source (line based; robust against gofmt's `// @`).
	lines := strings.Split(string(src), "\n")
	type cl struct {
		text string
		line int
	}
	var cur *FuncContract
	var pending *cl // clause being accumulated
	flush := func() error {
		if pending == nil {
			return nil
		}
		c := pending
		pending = nil
		return cf.addClause(cur, c.text, c.line)
	}
	for i, raw := range lines {
		t := strings.TrimSpace(raw)
		var body string
		switch {
		case strings.HasPrefix(t, "//@"):
			body = t[3:]
		case strings.HasPrefix(t, "// @"):
			body = t[4:]
		default:
			if err := flush(); err != nil {
				return nil, err
			}
			continue
		}
		// strip trailing line comment inside contract lines:  " // ..."
		if k := strings.Index(body, " // "); k >= 0 {
			body = body[:k]
		}
		body = strings.TrimSpace(body)
		if body == "" {
			continue
		}
		first := body
		if k := strings.IndexAny(body, " \t("); k >= 0 {
			first = body[:k]
		}
		switch {
		case first == "use":
			if err := flush(); err != nil {
				return nil, err
			}
			cf.Uses = append(cf.Uses, strings.Fields(body[3:])...)
		case first == "puremethod":
			if err := flush(); err != nil {
				return nil, err
			}
			cf.PureMethods = append(cf.PureMethods, strings.Fields(strings.ReplaceAll(body[len("puremethod"):], ",", " "))...)
		case first == "extract":
			if err := flush(); err != nil {
				return nil, err
			}
			cur = nil
			cf.Extracts = append(cf.Extracts, &Extract{Header: strings.TrimSpace(body[len("extract"):]), Line: i + 1})
		case first == "xfrom" || first == "xstmt" || first == "xrewrite" || first == "xtail" || first == "xupto":
			if len(cf.Extracts) == 0 {
				return nil, fmt.Errorf("%s:%d: %s outside an extract block", path, i+1, first)
			}
			x := cf.Extracts[len(cf.Extracts)-1]
			rest := strings.TrimSpace(body[len(first):])
			switch first {
			case "xfrom":
				fs := strings.Fields(rest)
				if len(fs) != 2 {
					return nil, fmt.Errorf("%s:%d: xfrom FILE FUNC", path, i+1)
				}
				x.File, x.Func = fs[0], fs[1]
			case "xstmt":
				x.Stmt = rest
			case "xrewrite":
				ab := strings.SplitN(rest, "=>", 2)
				if len(ab) != 2 {
					return nil, fmt.Errorf("%s:%d: xrewrite OLD => NEW", path, i+1)
				}
				x.Rewrites = append(x.Rewrites, [2]string{strings.TrimSpace(ab[0]), strings.TrimSpace(ab[1])})
			case "xtail":
				x.Tail = rest
			case "xupto":
				x.Upto = rest
			}
		case first == "nonnil":
			if err := flush(); err != nil {
				return nil, err
			}
			cf.NonNil = append(cf.NonNil, strings.Fields(strings.ReplaceAll(body[len("nonnil"):], ",", " "))...)
		case first == "func" || first == "extern" || first == "lemma":
			if err := flush(); err != nil {
				return nil, err
			}
			fc, err := parseHeader(body, path, i+1)
			if err != nil {
				return nil, err
			}
			fc.Imports = f.Imports
			cf.Funcs = append(cf.Funcs, fc)
			cur = fc
		case clauseKeywords[first]:
			if err := flush(); err != nil {
				return nil, err
			}
			if cur == nil {
				return nil, fmt.Errorf("%s:%d: clause outside a contract block", path, i+1)
			}
			pending = &cl{text: body, line: i + 1}
		default:
			if pending == nil {
				return nil, fmt.Errorf("%s:%d: cannot parse contract line %q", path, i+1, body)
			}
			pending.text += " " + body
		}
	}
	if err := flush(); err != nil {
		return nil, err
	}
	return cf, nil
}

var externName = regexp.MustCompile(`^func\s+([A-Za-z_][A-Za-z0-9_]*)\.([A-Za-z_][A-Za-z0-9_]*)\s*([\[(])`)

func parseHeader(body, path string, line int) (*FuncContract, error) {
	fc := &FuncContract{File: path, Line: line}
	switch {
	case strings.HasPrefix(body, "extern"):
		fc.Extern = true
		body = strings.TrimSpace(body[len("extern"):])
	case strings.HasPrefix(body, "lemma"):
		fc.Lemma = true
		body = "func " + strings.TrimSpace(body[len("lemma"):])
	}
	if m := externName.FindStringSubmatch(body); m != nil && fc.Extern {
		fc.PkgAlias = m[1]
		body = "func " + m[2] + m[3] + body[len(m[0]):]
	}
	src := "package p\n" + body + "\n"
	fset := token.NewFileSet()
	f, err := parser.ParseFile(fset, "hdr.go", src, 0)
	if err != nil {
		return nil, fmt.Errorf("%s:%d: bad contract header %q: %v", path, line, body, err)
	}
	if len(f.Decls) != 1 {
		return nil, fmt.Errorf("%s:%d: bad contract header", path, line)
	}
	fd, ok := f.Decls[0].(*ast.FuncDecl)
	if !ok {
		return nil, fmt.Errorf("%s:%d: bad contract header", path, line)
	}
	txt := func(n ast.Node) string {
		var sb strings.Builder
		printer.Fprint(&sb, fset, n)
		return sb.String()
	}
	fc.Name = fd.Name.Name
	if fd.Type.TypeParams != nil {
		var ps []string
		for _, fl := range fd.Type.TypeParams.List {
			var ns []string
			for _, n := range fl.Names {
				ns = append(ns, n.Name)
			}
			ps = append(ps, strings.Join(ns, ", ")+" "+txt(fl.Type))
		}
		fc.TParams = "[" + strings.Join(ps, ", ") + "]"
	}
	fields := func(fl *ast.FieldList, prefix string) ([]ParamDecl, error) {
		var out []ParamDecl
		if fl == nil {
			return nil, nil
		}
		k := 0
		for _, f := range fl.List {
			ty := txt(f.Type)
			if len(f.Names) == 0 {
				out = append(out, ParamDecl{Name: fmt.Sprintf("%s%d", prefix, k), Type: ty})
				k++
			}
			for _, n := range f.Names {
				name := n.Name
				if name == "_" {
					name = fmt.Sprintf("%s%d", prefix, k)
				}
				out = append(out, ParamDecl{Name: name, Type: ty})
				k++
			}
		}
		return out, nil
	}
	if fd.Recv != nil {
		r, _ := fields(fd.Recv, "recv")
		if len(r) != 1 {
			return nil, fmt.Errorf("%s:%d: bad receiver", path, line)
		}
		fc.Recv = &r[0]
		fc.RecvType = r[0].Type
		fc.Key = "(" + r[0].Type + ")." + fc.Name
	} else if fc.PkgAlias != "" {
		fc.Key = fc.PkgAlias + "." + fc.Name
	} else {
		fc.Key = fc.Name
	}
	fc.Params, _ = fields(fd.Type.Params, "p")
	fc.Results, _ = fields(fd.Type.Results, "r")
	// variadic parameters are seen as slices by clause functions
	for i := range fc.Params {
		if strings.HasPrefix(fc.Params[i].Type, "...") {
			fc.Params[i].Type = "[]" + fc.Params[i].Type[3:]
		}
	}
	return fc, nil
}

var labelRe = regexp.MustCompile(`^([A-Za-z][A-Za-z0-9_\-]*)\s*:\s*(.*)$`)

func splitLabel(s string) (label, rest string) {
	s = strings.TrimSpace(s)
	if m := labelRe.FindStringSubmatch(s); m != nil && !strings.HasPrefix(m[2], ":") && !strings.HasPrefix(m[2], "=") {
		return m[1], m[2]
	}
	return "", s
}

func splitTopComma(s string) []string {
	var out []string
	depth := 0
	start := 0
	inStr := byte(0)
	for i := 0; i < len(s); i++ {
		c := s[i]
		if inStr != 0 {
			if c == '\\' {
				i++
			} else if c == inStr {
				inStr = 0
			}
			continue
		}
		switch c {
		case '"', '\'', '`':
			inStr = c
		case '(', '[', '{':
			depth++
		case ')', ']', '}':
			depth--
		case ',':
			if depth == 0 {
				out = append(out, strings.TrimSpace(s[start:i]))
				start = i + 1
			}
		}
	}
	if strings.TrimSpace(s[start:]) != "" {
		out = append(out, strings.TrimSpace(s[start:]))
	}
	return out
}

func parseVarDecls(s string) ([]ParamDecl, error) {
	var out []ParamDecl
	for _, part := range splitTopComma(s) {
		k := strings.IndexAny(part, " \t")
		if k < 0 {
			return nil, fmt.Errorf("bad variable declaration %q (want NAME TYPE)", part)
		}
		out = append(out, ParamDecl{Name: part[:k], Type: strings.TrimSpace(part[k:])})
	}
	return out, nil
}

func (cf *ContractFile) addClause(fc *FuncContract, text string, line int) error {
	kw := text
	rest := ""
	if k := strings.IndexAny(text, " \t"); k >= 0 {
		kw, rest = text[:k], strings.TrimSpace(text[k:])
	}
	bad := func(f string, a ...any) error {
		return fmt.Errorf("%s:%d: %s", cf.Path, line, fmt.Sprintf(f, a...))
	}
	switch kw {
	case "requires", "ensures":
		label, e := splitLabel(rest)
		if label == "" {
			if kw == "ensures" {
				return bad("ensures clause needs a label (ensures name: expr)")
			}
			label = fmt.Sprintf("r%d", len(fc.Requires))
		}
		c := &Clause{Kind: kw, Label: label, Loop: -1, Expr: e, Line: line}
		if kw == "requires" {
			fc.Requires = append(fc.Requires, c)
		} else {
			fc.Ensures = append(fc.Ensures, c)
		}
	case "assert":
		label, e := splitLabel(rest)
		if label == "" {
			return bad("assert needs a label")
		}
		fc.Asserts = append(fc.Asserts, &Clause{Kind: "assert", Label: label, Loop: -1, Expr: e, Line: line})
	case "modifies":
		fc.Modifies = append(fc.Modifies, splitTopComma(rest)...)
	case "pure":
		fc.Pure = true
	case "observer":
		fc.Pure = true
		fc.Observer = rest
	case "inline":
		fc.Inline = append(fc.Inline, splitTopComma(rest)...)
	case "appends":
		fc.Appends = strings.TrimSpace(rest)
	case "fresh":
		fc.Fresh = append(fc.Fresh, splitTopComma(rest)...)
	case "uses":
		fc.Uses = append(fc.Uses, splitTopComma(rest)...)
	case "reveal":
		fc.Reveal = append(fc.Reveal, splitTopComma(rest)...)
	case "induct":
		fc.Induct = append(fc.Induct, strings.Split(rest, ";")...)
	case "trigger":
		fc.Triggers = append(fc.Triggers, rest)
	case "decreases":
		fc.Decreases = &Clause{Kind: "decreases", Label: "measure", Loop: -1, Expr: rest, Line: line}
	case "witness":
		fc.Witness = append(fc.Witness, rest)
	case "trusted":
		if rest == "" {
			rest = "no reason given"
		}
		fc.Trusted = rest
	case "nooverflow":
		if rest == "" {
			rest = "no reason given"
		}
		fc.NoOverflow = rest
	case "maprange":
		fc.MapRange = true
	case "noframe":
		if rest == "" {
			rest = "no reason given"
		}
		fc.NoFrame = rest
	case "callback":
		// callback NAME(params) log LOGNAME EXPR
		op := strings.Index(rest, "(")
		cl := strings.Index(rest, ")")
		if op < 0 || cl < op {
			return bad("callback: expected NAME(params) log LOGNAME EXPR")
		}
		name := strings.TrimSpace(rest[:op])
		ps, err := parseVarDecls(rest[op+1 : cl])
		if err != nil {
			return bad("callback: %v", err)
		}
		tail := strings.Fields(rest[cl+1:])
		if len(tail) < 3 || tail[0] != "log" {
			return bad("callback: expected `log LOGNAME EXPR` after the parameter list")
		}
		expr := strings.TrimSpace(strings.SplitN(strings.TrimSpace(rest[cl+1:]), tail[1], 2)[1])
		fc.Callbacks = append(fc.Callbacks, &CallbackSpec{Param: name, Params: ps, Log: tail[1],
			Clause: &Clause{Kind: "cblog", Label: name + "_" + tail[1], Loop: -1, Expr: expr, Line: line}})
	case "effect":
		k := strings.IndexAny(rest, " \t")
		if k < 0 {
			return bad("effect needs a log name and an expression")
		}
		fc.Effects = append(fc.Effects, &Clause{Kind: "effect", Label: rest[:k], Loop: -1, Expr: strings.TrimSpace(rest[k:]), Line: line})
	case "fuel":
		n, err := strconv.Atoi(strings.TrimSpace(rest))
		if err != nil || n < 1 || n > 12 {
			return bad("fuel must be 1..12")
		}
		fc.Fuel = n
	case "wraparound":
		if rest == "" {
			rest = "signed arithmetic wraps"
		}
		fc.Wraparound = rest
	case "instance":
		fc.Instance = rest
	case "loop":
		k := strings.IndexAny(rest, " \t")
		if k < 0 {
			return bad("bad loop clause")
		}
		ordText := rest[:k]
		base := 0
		// `loop CALLEE.N`: loop N of the inlined callee CALLEE (a function, or a closure written F$1)
		if d := strings.LastIndex(ordText, "."); d > 0 {
			callee := ordText[:d]
			ordText = ordText[d+1:]
			idx := -1
			for i, c := range fc.InlCallees {
				if c == callee {
					idx = i
				}
			}
			if idx < 0 {
				fc.InlCallees = append(fc.InlCallees, callee)
				idx = len(fc.InlCallees) - 1
			}
			base = 1000 * (idx + 1)
		}
		n, err := strconv.Atoi(ordText)
		if err != nil || n < 0 || n >= 1000 {
			return bad("bad loop ordinal %q", rest[:k])
		}
		n += base
		rest = strings.TrimSpace(rest[k:])
		kw2, rest2 := rest, ""
		if k := strings.IndexAny(rest, " \t"); k >= 0 {
			kw2, rest2 = rest[:k], strings.TrimSpace(rest[k:])
		}
		l := fc.loop(n)
		switch kw2 {
		case "vars":
			vs, err := parseVarDecls(rest2)
			if err != nil {
				return bad("%v", err)
			}
			l.Vars = append(l.Vars, vs...)
		case "invariant":
			label, e := splitLabel(rest2)
			if label == "" {
				return bad("invariant needs a label")
			}
			l.Invariants = append(l.Invariants, &Clause{Kind: "invariant", Label: label, Loop: n, Expr: e, Line: line})
		case "assert":
			label, e := splitLabel(rest2)
			if label == "" {
				return bad("assert needs a label")
			}
			l.Asserts = append(l.Asserts, &Clause{Kind: "assert", Label: label, Loop: n, Expr: e, Line: line})
		case "decreases":
			l.Decreases = &Clause{Kind: "decreases", Label: "measure", Loop: n, Expr: rest2, Line: line}
		case "modifies":
			l.Modifies = append(l.Modifies, splitTopComma(rest2)...)
		default:
			return bad("unknown loop clause %q", kw2)
		}
	default:
		return bad("unknown clause %q", kw)
	}
	return nil
}

// ---- expression desugaring --------------------------------------------------

type tok struct {
	pos int
	tok token.Token
	lit string
	end int
}

func scanTokens(src string) ([]tok, error) {
	var s scanner.Scanner
	fset := token.NewFileSet()
	file := fset.AddFile("", fset.Base(), len(src))
	var errs []string
	s.Init(file, []byte(src), func(pos token.Position, msg string) { errs = append(errs, msg) }, 0)
	var out []tok
	for {
		p, t, lit := s.Scan()
		if t == token.EOF {
			break
		}
		if t == token.SEMICOLON && lit == "\n" {
			continue
		}
		off := file.Offset(p)
		txt := lit
		if txt == "" {
			txt = t.String()
		}
		out = append(out, tok{pos: off, tok: t, lit: txt, end: off + len(txt)})
	}
	if len(errs) > 0 {
		return nil, fmt.Errorf("scan %q: %s", src, strings.Join(errs, "; "))
	}
	return out, nil
}

type desugarer struct {
	ptrParams map[string]bool // names of pointer parameters (old() renames them)
	usedOld   map[string]bool
	err       error
}

func (d *desugarer) fail(f string, a ...any) string {
	if d.err == nil {
		d.err = fmt.Errorf(f, a...)
	}
	return "false"
}

// matching returns the index of the token closing the bracket opened at i.
func matching(ts []tok, i int) int {
	depth := 0
	for k := i; k < len(ts); k++ {
		switch ts[k].tok {
		case token.LPAREN, token.LBRACK, token.LBRACE:
			depth++
		case token.RPAREN, token.RBRACK, token.RBRACE:
			depth--
			if depth == 0 {
				return k
			}
		}
	}
	return -1
}

func isImp(ts []tok, i int) bool {
	return i+1 < len(ts) && ts[i].tok == token.EQL && ts[i+1].tok == token.GTR && ts[i].end == ts[i+1].pos
}

func isIff(ts []tok, i int) bool {
	return i+2 < len(ts) && ts[i].tok == token.LEQ && ts[i+1].tok == token.ASSIGN && ts[i+2].tok == token.GTR &&
		ts[i].end == ts[i+1].pos && ts[i+1].end == ts[i+2].pos
}

func isColon2(ts []tok, i int) bool {
	return i+1 < len(ts) && ts[i].tok == token.COLON && ts[i+1].tok == token.COLON && ts[i].end == ts[i+1].pos
}

// expr desugars a token range into Go source.
func (d *desugarer) expr(ts []tok, old bool) string {
	if len(ts) == 0 {
		return d.fail("empty expression")
	}
	// quantifier
	if ts[0].tok == token.IDENT && (ts[0].lit == "forall" || ts[0].lit == "exists") && len(ts) > 3 && ts[1].tok == token.IDENT {
		q := "vForall"
		if ts[0].lit == "exists" {
			q = "vExists"
		}
		name := ts[1].lit
		if ts[2].tok == token.IDENT && ts[2].lit == "in" {
			if ts[3].tok != token.LPAREN {
				return d.fail("quantifier range: expected '(' after in")
			}
			cl := matching(ts, 3)
			if cl < 0 || !isColon2(ts, cl+1) {
				return d.fail("quantifier range: expected (lo, hi) ::")
			}
			inner := ts[4:cl]
			// split at top-level comma
			depth, comma := 0, -1
			for k, t := range inner {
				switch t.tok {
				case token.LPAREN, token.LBRACK, token.LBRACE:
					depth++
				case token.RPAREN, token.RBRACK, token.RBRACE:
					depth--
				case token.COMMA:
					if depth == 0 && comma < 0 {
						comma = k
					}
				}
			}
			if comma < 0 {
				return d.fail("quantifier range: expected (lo, hi)")
			}
			lo := d.expr(inner[:comma], old)
			hi := d.expr(inner[comma+1:], old)
			body := d.expr(ts[cl+3:], old)
			return fmt.Sprintf("%sIn(%s, %s, func(%s int) bool { return %s })", q, lo, hi, name, body)
		}
		// forall x T :: body
		k := 2
		for k < len(ts) && !isColon2(ts, k) {
			k++
		}
		if k >= len(ts) {
			return d.fail("quantifier: missing ::")
		}
		ty := joinToks(ts[2:k])
		body := d.expr(ts[k+2:], old)
		return fmt.Sprintf("%s(func(%s %s) bool { return %s })", q, name, ty, body)
	}
	// <==> (lowest), then ==> (right associative), at depth 0
	depth := 0
	for i := 0; i < len(ts); i++ {
		switch ts[i].tok {
		case token.LPAREN, token.LBRACK, token.LBRACE:
			depth++
		case token.RPAREN, token.RBRACK, token.RBRACE:
			depth--
		}
		if depth == 0 && isIff(ts, i) {
			return fmt.Sprintf("((%s) == (%s))", d.expr(ts[:i], old), d.expr(ts[i+3:], old))
		}
	}
	depth = 0
	for i := 0; i < len(ts); i++ {
		switch ts[i].tok {
		case token.LPAREN, token.LBRACK, token.LBRACE:
			depth++
		case token.RPAREN, token.RBRACK, token.RBRACE:
			depth--
		}
		if depth == 0 && isImp(ts, i) {
			return fmt.Sprintf("(!(%s) || (%s))", d.expr(ts[:i], old), d.expr(ts[i+2:], old))
		}
	}
	// plain token run with recursion into bracket groups
	var sb strings.Builder
	for i := 0; i < len(ts); i++ {
		t := ts[i]
		switch {
		case t.tok == token.IDENT && t.lit == "old" && i+1 < len(ts) && ts[i+1].tok == token.LPAREN && (i == 0 || ts[i-1].tok != token.PERIOD):
			cl := matching(ts, i+1)
			if cl < 0 {
				return d.fail("old(: unbalanced")
			}
			sb.WriteString("(" + d.expr(ts[i+2:cl], true) + ")")
			i = cl
		case t.tok == token.LPAREN || t.tok == token.LBRACK || t.tok == token.LBRACE:
			cl := matching(ts, i)
			if cl < 0 {
				return d.fail("unbalanced bracket")
			}
			sb.WriteString(t.lit)
			// split inner at top-level commas / colons (slices) and desugar each part
			inner := ts[i+1 : cl]
			if len(inner) > 0 && inner[0].tok == token.IDENT && (inner[0].lit == "forall" || inner[0].lit == "exists") {
				sb.WriteString(d.expr(inner, old))
				inner = nil
			}
			start, dp := 0, 0
			for k := 0; k <= len(inner) && len(inner) > 0; k++ {
				if k < len(inner) {
					switch inner[k].tok {
					case token.LPAREN, token.LBRACK, token.LBRACE:
						dp++
					case token.RPAREN, token.RBRACK, token.RBRACE:
						dp--
					}
				}
				if k == len(inner) || (dp == 0 && (inner[k].tok == token.COMMA || (inner[k].tok == token.COLON && t.tok != token.LPAREN))) {
					if k > start {
						sb.WriteString(d.expr(inner[start:k], old))
					}
					if k < len(inner) {
						sb.WriteString(inner[k].lit + " ")
					}
					start = k + 1
				}
			}
			sb.WriteString(ts[cl].lit)
			i = cl
		case t.tok == token.IDENT && old && d.ptrParams[t.lit] && (i == 0 || ts[i-1].tok != token.PERIOD):
			d.usedOld[t.lit] = true
			sb.WriteString(t.lit + "_old")
		case t.tok == token.IDENT && old && t.lit == "vLogStr":
			sb.WriteString("vLogStrOld")
		case t.tok == token.IDENT && old && t.lit == "vCbLog":
			sb.WriteString("vCbLogOld")
		case t.tok == token.IDENT && old && t.lit == "vCbOK":
			sb.WriteString("vCbOKOld")
		default:
			sb.WriteString(t.lit)
		}
		if i+1 < len(ts) {
			sb.WriteString(" ")
		}
	}
	return sb.String()
}

func joinToks(ts []tok) string {
	var parts []string
	for _, t := range ts {
		parts = append(parts, t.lit)
	}
	s := strings.Join(parts, " ")
	s = strings.ReplaceAll(s, " . ", ".")
	s = strings.ReplaceAll(s, "[ ]", "[]")
	s = strings.ReplaceAll(s, "* ", "*")
	s = strings.ReplaceAll(s, "] ", "]")
	return s
}

// Desugar translates a contract expression to Go. ptrParams are renamed X_old inside old().
func Desugar(expr string, ptrParams map[string]bool) (string, map[string]bool, error) {
	ts, err := scanTokens(expr)
	if err != nil {
		return "", nil, err
	}
	d := &desugarer{ptrParams: ptrParams, usedOld: map[string]bool{}}
	out := d.expr(ts, false)
	return out, d.usedOld, d.err
}

// ---- Go generation ------------------------------------------------------------

func sanitizeIdent(s string) string {
	var sb strings.Builder
	for _, r := range s {
		switch {
		case r >= 'a' && r <= 'z', r >= 'A' && r <= 'Z', r >= '0' && r <= '9':
			sb.WriteRune(r)
		default:
			sb.WriteByte('_')
		}
	}
	return sb.String()
}

func (fc *FuncContract) baseName() string {
	n := fc.Name
	if fc.RecvType != "" {
		n = sanitizeIdent(strings.TrimPrefix(fc.RecvType, "*")) + "_" + n
	}
	if fc.PkgAlias != "" {
		n = fc.PkgAlias + "_" + n
	}
	if fc.Extern {
		n = "X_" + n
	}
	if fc.Lemma {
		n = "L_" + n
	}
	return "Verif_" + sanitizeIdent(n)
}

// genClause emits the Go function of one clause.
func (fc *FuncContract) genClause(sb *strings.Builder, c *Clause, withResults bool, vars []ParamDecl, resultType string) error {
	ptr := map[string]bool{}
	all := fc.AllParams()
	for _, p := range all {
		if p.isPtr() {
			ptr[p.Name] = true
		}
	}
	goExpr, usedOld, err := Desugar(c.Expr, ptr)
	if err != nil {
		return fmt.Errorf("%s:%d: %v", fc.File, c.Line, err)
	}
	if len(usedOld) > 0 && c.Kind == "requires" {
		return fmt.Errorf("%s:%d: old() in a requires clause", fc.File, c.Line)
	}
	name := fmt.Sprintf("%s__%s", fc.baseName(), c.Kind)
	if c.Loop >= 0 {
		name += fmt.Sprintf("%d", c.Loop)
	}
	name += "__" + sanitizeIdent(c.Label)
	c.GoFunc = name
	c.Bind = nil
	var ps []string
	for i, p := range all {
		ps = append(ps, p.Name+" "+p.Type)
		c.Bind = append(c.Bind, Binding{Kind: "param", Index: i, Name: p.Name})
	}
	if c.Kind != "requires" && c.Kind != "effect" {
		for i, p := range all {
			if p.isPtr() {
				ps = append(ps, p.Name+"_old "+p.Type)
				c.Bind = append(c.Bind, Binding{Kind: "old", Index: i, Name: p.Name + "_old"})
			}
		}
	}
	if withResults {
		for i, r := range fc.Results {
			ps = append(ps, r.Name+" "+r.Type)
			c.Bind = append(c.Bind, Binding{Kind: "result", Index: i, Name: r.Name})
		}
	}
	for i, v := range vars {
		ps = append(ps, v.Name+" "+v.Type)
		c.Bind = append(c.Bind, Binding{Kind: "var", Index: i, Name: v.Name})
	}
	fmt.Fprintf(sb, "// %s %s: %s\n", c.Kind, c.Label, strings.ReplaceAll(c.Expr, "\n", " "))
	fmt.Fprintf(sb, "//line %s:%d\n", fc.File, c.Line)
	fmt.Fprintf(sb, "func %s%s(%s) %s { return %s }\n\n", name, fc.TParams, strings.Join(ps, ", "), resultType, goExpr)
	return nil
}

// GenGo emits the clause functions of all blocks of a contract file.
func (cf *ContractFile) GenGo(sb *strings.Builder) error {
	for _, fc := range cf.Funcs {
		for _, c := range fc.Requires {
			if err := fc.genClause(sb, c, false, nil, "bool"); err != nil {
				return err
			}
		}
		for _, c := range fc.Ensures {
			if err := fc.genClause(sb, c, !fc.Lemma, nil, "bool"); err != nil {
				return err
			}
		}
		if fc.Decreases != nil {
			if err := fc.genClause(sb, fc.Decreases, false, nil, "int"); err != nil {
				return err
			}
		}
		for _, c := range fc.Asserts {
			if err := fc.genClause(sb, c, false, nil, "bool"); err != nil {
				return err
			}
		}
		for _, c := range fc.Effects {
			if err := fc.genClause(sb, c, true, nil, "string"); err != nil {
				return err
			}
		}
		for _, cb := range fc.Callbacks {
			goExpr, _, err := Desugar(cb.Clause.Expr, nil)
			if err != nil {
				return fmt.Errorf("%s:%d: %v", fc.File, cb.Clause.Line, err)
			}
			cb.Clause.GoFunc = fmt.Sprintf("%s__cblog__%s", fc.baseName(), sanitizeIdent(cb.Clause.Label))
			var ps []string
			for _, p := range cb.Params {
				ps = append(ps, p.Name+" "+p.Type)
			}
			fmt.Fprintf(sb, "// callback %s log %s: %s\n//line %s:%d\nfunc %s(%s) string { return %s }\n\n", cb.Param, cb.Log, cb.Clause.Expr, fc.File, cb.Clause.Line,
				cb.Clause.GoFunc, strings.Join(ps, ", "), goExpr)
		}
		var ns []int
		for n := range fc.Loops {
			ns = append(ns, n)
		}
		sort.Ints(ns)
		for _, n := range ns {
			l := fc.Loops[n]
			for _, c := range l.Invariants {
				if err := fc.genClause(sb, c, false, l.Vars, "bool"); err != nil {
					return err
				}
			}
			for _, c := range l.Asserts {
				if err := fc.genClause(sb, c, false, l.Vars, "bool"); err != nil {
					return err
				}
			}
			if l.Decreases != nil {
				if err := fc.genClause(sb, l.Decreases, false, l.Vars, "int"); err != nil {
					return err
				}
			}
		}
		for k, tr := range fc.Triggers {
			var parts []string
			for _, part := range splitTopComma(tr) {
				parts = append(parts, "vTrig("+part+")")
			}
			c := &Clause{Kind: "trigger", Label: fmt.Sprintf("t%d", k), Loop: -1, Line: fc.Line, Expr: strings.Join(parts, " && ")}
			if err := fc.genClause(sb, c, false, nil, "bool"); err != nil {
				return err
			}
			fc.TriggerClauses = append(fc.TriggerClauses, c)
		}
		if fc.Lemma {
			// induction hypotheses: for each hint tuple ā:  (0 <= m(ā) < m(x̄)) && R(ā) ==> E(ā)
			for k, h := range fc.Induct {
				h = strings.TrimSpace(h)
				if h == "" {
					continue
				}
				if fc.Decreases == nil {
					return fmt.Errorf("%s:%d: lemma %s: induct needs a decreases clause", fc.File, fc.Line, fc.Name)
				}
				args, _, err := Desugar(h, nil)
				if err != nil {
					return err
				}
				var xs []string
				for _, p := range fc.Params {
					xs = append(xs, p.Name)
				}
				var conj []string
				conj = append(conj, fmt.Sprintf("0 <= %s(%s)", fc.Decreases.GoFunc, args))
				conj = append(conj, fmt.Sprintf("%s(%s) < %s(%s)", fc.Decreases.GoFunc, args, fc.Decreases.GoFunc, strings.Join(xs, ", ")))
				for _, r := range fc.Requires {
					conj = append(conj, fmt.Sprintf("%s(%s)", r.GoFunc, args))
				}
				var ens []string
				for _, e := range fc.Ensures {
					ens = append(ens, fmt.Sprintf("%s(%s)", e.GoFunc, args))
				}
				c := &Clause{Kind: "hint", Label: fmt.Sprintf("ih%d", k), Loop: -1, Line: fc.Line,
					Expr: fmt.Sprintf("!(%s) || (%s)", strings.Join(conj, " && "), strings.Join(ens, " && "))}
				if err := fc.genClause(sb, c, false, nil, "bool"); err != nil {
					return err
				}
				fc.Hints = append(fc.Hints, c)
			}
		}
	}
	return nil
}

// ---- overlay assembly -----------------------------------------------------------

// importsUsed filters the import specs of the contract file down to those whose
// name occurs as a selector base in code.
func importsUsed(imps []*ast.ImportSpec, code string) string {
	var sb strings.Builder
	seen := map[string]bool{}
	for _, im := range imps {
		p, _ := strconv.Unquote(im.Path.Value)
		name := filepath.Base(p)
		if im.Name != nil {
			name = im.Name.Name
		}
		if name == "_" || name == "." || seen[name] {
			continue
		}
		re := regexp.MustCompile(`(^|[^A-Za-z0-9_.])` + regexp.QuoteMeta(name) + `\.[A-Za-z_]`)
		if re.MatchString(code) {
			seen[name] = true
			if im.Name != nil {
				fmt.Fprintf(&sb, "import %s %s\n", im.Name.Name, im.Path.Value)
			} else {
				fmt.Fprintf(&sb, "import %s\n", im.Path.Value)
			}
		}
	}
	return sb.String()
}

// ContractSet is everything known about the contracts of one package.
type ContractSet struct {
	PkgDir   string
	PkgName  string
	Files    []*ContractFile
	Overlay  map[string][]byte // absolute path -> content (generated + injected files)
	FromRepo bool              // contract file found in the working tree (else supplied from /verif/contracts)
	Sources  []string
}

// BuildContractSet scans the contract files of a package directory, includes the
// stdlib spec files they `use`, and generates the clause functions.
// mirrorDir is the /verif/contracts/<pkg> directory used when the package has no
// verif_*.go file of its own.
func BuildContractSet(pkgDir, mirrorDir, stdlibDir string) (*ContractSet, error) {
	cs := &ContractSet{PkgDir: pkgDir, Overlay: map[string][]byte{}}
	matches, _ := filepath.Glob(filepath.Join(pkgDir, "verif_*.go"))
	srcs := map[string][]byte{}
	if os.Getenv("GOVC_PREFER_MIRROR") != "" && mirrorDir != "" {
		if ms, _ := filepath.Glob(filepath.Join(mirrorDir, "verif_*.go")); len(ms) > 0 {
			matches = nil // development: the mirror copy overlays the file of the tree
		}
	}
	if len(matches) > 0 {
		cs.FromRepo = true
		for _, m := range matches {
			b, err := os.ReadFile(m)
			if err != nil {
				return nil, err
			}
			srcs[m] = b
		}
	} else if mirrorDir != "" {
		ms, _ := filepath.Glob(filepath.Join(mirrorDir, "verif_*.go"))
		for _, m := range ms {
			b, err := os.ReadFile(m)
			if err != nil {
				return nil, err
			}
			dst := filepath.Join(pkgDir, filepath.Base(m))
			srcs[dst] = b
			cs.Overlay[dst] = b
		}
	}
	if len(srcs) == 0 {
		return nil, fmt.Errorf("no contract file for %s (looked for verif_*.go there and in %s)", pkgDir, mirrorDir)
	}
	var paths []string
	for p := range srcs {
		paths = append(paths, p)
	}
	sort.Strings(paths)
	uses := map[string]bool{"core": true}
	for _, p := range paths {
		cf, err := ScanContractFile(p, srcs[p])
		if err != nil {
			return nil, err
		}
		cs.Files = append(cs.Files, cf)
		cs.PkgName = cf.Package
		cs.Sources = append(cs.Sources, p)
		for _, u := range cf.Uses {
			uses[u] = true
		}
	}
	// stdlib spec files (package clause rewritten); they may `use` further ones
	done := map[string]bool{}
	for changed := true; changed; {
		changed = false
		for _, u := range sortedKeys(uses) {
			if done[u] {
				continue
			}
			done[u] = true
			changed = true
			src, err := os.ReadFile(filepath.Join(stdlibDir, u+".go"))
			if err != nil {
				return nil, fmt.Errorf("use %s: %v", u, err)
			}
			txt := regexp.MustCompile(`(?m)^package PKG$`).ReplaceAllString(string(src), "package "+cs.PkgName)
			dst := filepath.Join(pkgDir, "zz_verif_std_"+u+".go")
			cs.Overlay[dst] = []byte(txt)
			cf, err := ScanContractFile(dst, []byte(txt))
			if err != nil {
				return nil, err
			}
			cs.Files = append(cs.Files, cf)
			cs.Sources = append(cs.Sources, filepath.Join(stdlibDir, u+".go"))
			for _, u2 := range cf.Uses {
				uses[u2] = true
			}
		}
	}
	// sections of repository functions extracted as functions of their own (//@ extract)
	for _, cf := range cs.Files {
		for _, x := range cf.Extracts {
			b, err := extractSource(pkgDir, cs.PkgName, x, cf.Imports)
			if err != nil {
				return nil, err
			}
			name := x.Header
			if k := strings.Index(name, "("); k > 0 {
				name = name[:k]
			}
			cs.Overlay[filepath.Join(pkgDir, "zz_verif_extract_"+sanitizeIdent(strings.TrimSpace(name))+".go")] = b
		}
	}
	// generated clause functions, one gen file per contract file
	for _, cf := range cs.Files {
		var body strings.Builder
		if err := cf.GenGo(&body); err != nil {
			return nil, err
		}
		var out strings.Builder
		out.WriteString("//go:build verif\n\n// Code generated by govc from the //@ blocks of " + filepath.Base(cf.Path) + "; DO NOT EDIT.\n\n")
		out.WriteString("package " + cs.PkgName + "\n\n")
		out.WriteString(importsUsed(cf.Imports, body.String()))
		out.WriteString("\n")
		out.WriteString(body.String())
		base := strings.TrimSuffix(filepath.Base(cf.Path), ".go")
		cs.Overlay[filepath.Join(pkgDir, "zz_verif_gen_"+base+".go")] = []byte(out.String())
	}
	return cs, nil
}

// Extract is a section of a repository function that is wrapped, VERBATIM, as a function of its own so
// that it can carry a contract (the enclosing function being outside the verifier's reach):
//
//	//@ extract NAME(params) (results)
//	//@ xfrom FILE FUNC            FUNC: Name, (*T).Name or (T).Name
//	//@ xstmt PREFIX               the first statement of FUNC (any depth) whose text starts with PREFIX
//	//@ xupto PREFIX2              optional: ... and the sibling statements that follow it, up to and including the one starting with PREFIX2
//	//@ xrewrite OLD => NEW        textual rewrites of the statement (return statements); OLD must occur
//	//@ xtail STMT                 appended after the statement (e.g. `return nil`)
//
// The extraction is redone from the working tree on every run; everything of FUNC outside the
// statement is dropped (and said so in the generated file).
type Extract struct {
	Header   string
	File     string
	Func     string
	Stmt     string
	Upto     string // optional: the section extends over the following sibling statements up to and including the one starting with this prefix
	Rewrites [][2]string
	Tail     string
	Line     int
}

// extractSource builds the overlay file of one extract directive.
func extractSource(pkgDir, pkgName string, x *Extract, extraImports []*ast.ImportSpec) ([]byte, error) {
	path := filepath.Join(pkgDir, x.File)
	src, err := os.ReadFile(path)
	if err != nil {
		return nil, fmt.Errorf("extract %s: %v", x.Header, err)
	}
	fset := token.NewFileSet()
	f, err := parser.ParseFile(fset, path, src, parser.ParseComments)
	if err != nil {
		return nil, fmt.Errorf("extract %s: %v", x.Header, err)
	}
	var fd *ast.FuncDecl
	for _, d := range f.Decls {
		g, ok := d.(*ast.FuncDecl)
		if !ok || g.Body == nil {
			continue
		}
		key := g.Name.Name
		if g.Recv != nil && len(g.Recv.List) == 1 {
			var sb strings.Builder
			printer.Fprint(&sb, fset, g.Recv.List[0].Type)
			key = "(" + sb.String() + ")." + key
		}
		if key == x.Func {
			fd = g
		}
	}
	if fd == nil {
		return nil, fmt.Errorf("extract %s: function %s not found in %s", x.Header, x.Func, x.File)
	}
	norm := func(t string) string { return strings.Join(strings.Fields(t), " ") }
	want := norm(x.Stmt)
	var stmt ast.Stmt
	var siblings []ast.Stmt
	stmtText := func(st ast.Stmt) string {
		return string(src[fset.Position(st.Pos()).Offset:fset.Position(st.End()).Offset])
	}
	ast.Inspect(fd.Body, func(n ast.Node) bool {
		if stmt != nil {
			return false
		}
		var list []ast.Stmt
		switch b := n.(type) {
		case *ast.BlockStmt:
			list = b.List
		case *ast.CaseClause:
			list = b.Body
		case *ast.CommClause:
			list = b.Body
		}
		for k, st := range list {
			if strings.HasPrefix(norm(stmtText(st)), want) {
				stmt = st
				siblings = list[k:]
				return false
			}
		}
		return true
	})
	if stmt == nil {
		return nil, fmt.Errorf("extract %s: no statement of %s starts with %q (the section the contract is about is gone)", x.Header, x.Func, x.Stmt)
	}
	last := stmt
	if x.Upto != "" {
		last = nil
		for _, st := range siblings {
			if strings.HasPrefix(norm(stmtText(st)), norm(x.Upto)) {
				last = st
				break
			}
		}
		if last == nil {
			return nil, fmt.Errorf("extract %s: no statement after %q in the same block starts with %q", x.Header, x.Stmt, x.Upto)
		}
	}
	body := string(src[fset.Position(stmt.Pos()).Offset:fset.Position(last.End()).Offset])
	for _, rw := range x.Rewrites {
		if !strings.Contains(body, rw[0]) {
			return nil, fmt.Errorf("extract %s: rewrite pattern %q does not occur in the extracted statement", x.Header, rw[0])
		}
		body = strings.ReplaceAll(body, rw[0], rw[1])
	}
	code := "func " + x.Header + " {\n\t" + body + "\n\t" + x.Tail + "\n}\n"
	var out strings.Builder
	out.WriteString("//go:build verif\n\n// Extracted MECHANICALLY by govc from " + x.File + ", function " + x.Func + " (the statement starting `" + x.Stmt + "`),\n")
	out.WriteString("// verbatim except for the listed rewrites of return statements; everything else of that function is dropped. DO NOT EDIT.\n\n")
	out.WriteString("package " + pkgName + "\n\n")
	out.WriteString(importsUsed(append(append([]*ast.ImportSpec{}, f.Imports...), extraImports...), code))
	out.WriteString("\n" + code)
	return []byte(out.String()), nil
}

// AllFuncs lists all contract blocks.
func (cs *ContractSet) AllFuncs() []*FuncContract {
	var out []*FuncContract
	for _, f := range cs.Files {
		out = append(out, f.Funcs...)
	}
	return out
}

module govc

go 1.23.0

require golang.org/x/tools v0.32.0

require (
	golang.org/x/mod v0.24.0 // indirect
	golang.org/x/sync v0.13.0 // indirect
)

// govc: contract-based deductive verifier for Go (go/ssa -> SMT), built for /verif.
package main

import (
	"flag"
	"fmt"
	"os"
	"sort"
	"strings"
	"sync"
	"time"

	"govc/internal/eng"
)

func main() {
	if len(os.Args) < 2 {
		fmt.Fprintln(os.Stderr, "usage: govc dev|check ...")
		os.Exit(2)
	}
	switch os.Args[1] {
	case "dev":
		dev(os.Args[2:])
	case "gen":
		gen(os.Args[2:])
	case "check":
		check(os.Args[2:])
	default:
		fmt.Fprintln(os.Stderr, "unknown command", os.Args[1])
		os.Exit(2)
	}
}

// gen prints the generated clause functions of a package (debugging aid).
func gen(args []string) {
	fs := flag.NewFlagSet("gen", flag.ExitOnError)
	repo := fs.String("repo", "/repo", "")
	fs.Parse(args)
	for _, p := range fs.Args() {
		cs, err := eng.BuildContractSet(*repo+"/"+p, verifRoot()+"/contracts/"+p, verifRoot()+"/stdlib")
		if err != nil {
			fmt.Fprintln(os.Stderr, err)
			os.Exit(2)
		}
		var ks []string
		for k := range cs.Overlay {
			ks = append(ks, k)
		}
		sort.Strings(ks)
		for _, k := range ks {
			if strings.Contains(k, "zz_verif_gen") {
				fmt.Printf("==== %s\n%s\n", k, cs.Overlay[k])
			}
		}
	}
}

// dev: verify selected functions of packages and print a table (development driver).
func dev(args []string) {
	fs := flag.NewFlagSet("dev", flag.ExitOnError)
	repo := fs.String("repo", "/repo", "")
	only := fs.String("only", "", "comma-separated substrings of contract keys to verify")
	timeout := fs.Duration("timeout", 10*time.Second, "")
	dump := fs.String("dump", "", "directory for SMT files")
	solvers := fs.String("solvers", "", "")
	verbose := fs.Bool("v", false, "")
	family := fs.String("family", "", "router: generate the router family into -scratch and verify the generated packages")
	setsFlag := fs.String("sets", "", "comma-separated route-set ids (default all corner sets)")
	scratch := fs.String("scratch", "/tmp/govc-family", "")
	moddir := fs.String("moddir", "", "load packages of another module: -moddir DIR ./pkg ...")
	fs.Parse(args)
	t0 := time.Now()
	cfg := eng.Config{RepoDir: *repo, Pkgs: fs.Args(), MirrorDir: verifRoot() + "/contracts", StdlibDir: verifRoot() + "/stdlib"}
	if *family == "router" {
		os.MkdirAll(*scratch, 0o755)
		var sets []eng.RouteSet
		for _, rs := range eng.RouterFamily(1, 24) {
			if *setsFlag == "" || strings.Contains(","+*setsFlag+",", ","+rs.ID+",") {
				sets = append(sets, rs)
			}
		}
		mod, err := eng.GenerateRouterFamily(*repo, sets, *scratch)
		if err != nil {
			fmt.Fprintln(os.Stderr, "family:", err)
			os.Exit(2)
		}
		fmt.Printf("generated %d packages in %.1fs\n", len(sets), time.Since(t0).Seconds())
		cfg.ModDir = mod
		cfg.Pkgs = nil
		for _, rs := range sets {
			cfg.Extra = append(cfg.Extra, eng.ExtraPkg{Dir: mod + "/" + rs.ID, Pattern: "./" + rs.ID})
		}
		cfg.Extra = append(cfg.Extra, eng.ExtraPkg{Dir: *repo + "/uri", Pattern: "github.com/ogen-go/ogen/uri", Mirror: verifRoot() + "/contracts/uri"})
	}
	if *moddir != "" {
		cfg.ModDir = *moddir
		cfg.Pkgs = nil
		for _, p := range fs.Args() {
			cfg.Extra = append(cfg.Extra, eng.ExtraPkg{Dir: *moddir + "/" + strings.TrimPrefix(p, "./"), Pattern: p})
		}
	}
	if *family == "validator" {
		os.MkdirAll(*scratch, 0o755)
		var sets []eng.ValidatorSet
		for _, q := range eng.ValidatorFamily() {
			if *setsFlag == "" || strings.Contains(","+*setsFlag+",", ","+q.ID+",") {
				sets = append(sets, q)
			}
		}
		mod, err := eng.GenerateValidatorFamily(*repo, sets, *scratch)
		if err != nil {
			fmt.Fprintln(os.Stderr, "family:", err)
			os.Exit(2)
		}
		cfg.ModDir = mod
		cfg.Pkgs = nil
		for _, q := range sets {
			cfg.Extra = append(cfg.Extra, eng.ExtraPkg{Dir: mod + "/" + q.ID, Pattern: "./" + q.ID})
		}
		cfg.Extra = append(cfg.Extra, eng.ExtraPkg{Dir: *repo + "/validate", Pattern: "github.com/ogen-go/ogen/validate", Mirror: verifRoot() + "/contracts/validate"})
	}
	if *family == "params" {
		os.MkdirAll(*scratch, 0o755)
		var sets []eng.ParamSet
		for _, q := range append(eng.ParamFamily(), eng.ParamFamilySampled(16)...) {
			if *setsFlag == "" || strings.Contains(","+*setsFlag+",", ","+q.ID+",") {
				sets = append(sets, q)
			}
		}
		mod, err := eng.GenerateParamFamily(*repo, sets, *scratch)
		if err != nil {
			fmt.Fprintln(os.Stderr, "family:", err)
			os.Exit(2)
		}
		cfg.ModDir = mod
		cfg.Pkgs = nil
		for _, q := range sets {
			cfg.Extra = append(cfg.Extra, eng.ExtraPkg{Dir: mod + "/" + q.ID, Pattern: "./" + q.ID})
		}
		cfg.Extra = append(cfg.Extra, eng.ExtraPkg{Dir: *repo + "/uri", Pattern: "github.com/ogen-go/ogen/uri", Mirror: verifRoot() + "/contracts/uri"})
	}
	if *family == "cred" {
		os.MkdirAll(*scratch, 0o755)
		var sets []eng.CredSet
		for _, q := range append(eng.CredFamily(), eng.CredFamilySampled(12)...) {
			if *setsFlag == "" || strings.Contains(","+*setsFlag+",", ","+q.ID+",") {
				sets = append(sets, q)
			}
		}
		mod, err := eng.GenerateCredFamily(*repo, sets, *scratch)
		if err != nil {
			fmt.Fprintln(os.Stderr, "family:", err)
			os.Exit(2)
		}
		cfg.ModDir = mod
		cfg.Pkgs = nil
		for _, q := range sets {
			cfg.Extra = append(cfg.Extra, eng.ExtraPkg{Dir: mod + "/" + q.ID, Pattern: "./" + q.ID})
		}
	}
	if *family == "security" {
		os.MkdirAll(*scratch, 0o755)
		var sets []eng.SecuritySet
		for _, q := range eng.SecurityFamily() {
			if *setsFlag == "" || strings.Contains(","+*setsFlag+",", ","+q.ID+",") {
				sets = append(sets, q)
			}
		}
		mod, err := eng.GenerateSecurityFamily(*repo, sets, *scratch)
		if err != nil {
			fmt.Fprintln(os.Stderr, "family:", err)
			os.Exit(2)
		}
		cfg.ModDir = mod
		cfg.Pkgs = nil
		for _, q := range sets {
			cfg.Extra = append(cfg.Extra, eng.ExtraPkg{Dir: mod + "/" + q.ID, Pattern: "./" + q.ID})
		}
	}
	e, err := eng.Load(cfg)
	if err != nil {
		fmt.Fprintln(os.Stderr, "load:", err)
		os.Exit(2)
	}
	fmt.Printf("loaded in %.1fs\n", time.Since(t0).Seconds())
	sv := eng.AvailableSolvers()
	if *solvers != "" {
		sv = strings.Split(*solvers, ",")
	}
	var fcs []*eng.FuncContract
	for _, cs := range e.Sets {
		for _, fc := range cs.AllFuncs() {
			if fc.Extern {
				continue
			}
			if *only != "" {
				ok := false
				for _, o := range strings.Split(*only, ",") {
					if strings.Contains(fc.Key, o) || strings.Contains(fc.Name, o) {
						ok = true
					}
				}
				if !ok {
					continue
				}
			}
			fcs = append(fcs, fc)
		}
	}
	sort.Slice(fcs, func(i, j int) bool { return fcs[i].File+fcs[i].Key < fcs[j].File+fcs[j].Key })
	var obls []*eng.Obligation
	for _, fc := range fcs {
		r := e.VerifyFunc(fc)
		if r.Err != nil {
			fmt.Printf("%-50s ERROR %v\n", r.Key, r.Err)
			continue
		}
		fmt.Printf("%-50s %d obligations\n", r.Key, len(r.Obligations))
		obls = append(obls, r.Obligations...)
	}
	for _, w := range e.Warnings {
		fmt.Println("warning:", w)
	}
	verdicts := make([]*eng.Verdict, len(obls))
	var wg sync.WaitGroup
	sem := make(chan struct{}, 8)
	for i, o := range obls {
		wg.Add(1)
		go func(i int, o *eng.Obligation) {
			defer wg.Done()
			sem <- struct{}{}
			defer func() { <-sem }()
			verdicts[i] = e.Solve(o, sv, *timeout, *dump)
		}(i, o)
	}
	wg.Wait()
	nfail := 0
	for _, v := range verdicts {
		if v.Status != "discharged" || *verbose || v.Time > 1.5 {
			var rs []string
			for _, r := range v.Results {
				rs = append(rs, fmt.Sprintf("%s=%s(%.2fs)", r.Solver, r.Answer, r.Time))
			}
			fmt.Printf("%-12s %-70s %s %s %s\n", v.Status, v.Obl.Name, fmt.Sprintf("%s:%d", shortFile(v.Obl.Pos.Filename), v.Obl.Pos.Line), strings.Join(rs, " "), v.Err)
		}
		if v.Status != "discharged" {
			nfail++
		}
	}
	fmt.Printf("%d obligations, %d not discharged, %.1fs\n", len(obls), nfail, time.Since(t0).Seconds())
}

func shortFile(s string) string {
	if k := strings.LastIndex(s, "/"); k >= 0 {
		return s[k+1:]
	}
	return s
}

// check: run the check of one property (the command registered in MANIFEST.json).
func check(args []string) {
	fs := flag.NewFlagSet("check", flag.ExitOnError)
	repo := fs.String("repo", "/repo", "")
	verif := fs.String("verif", "/verif", "")
	dump := fs.String("dump", "", "directory for SMT files")
	out := fs.String("out", "", "directory for evidence/ and replay/ (default: the verif directory)")
	verbose := fs.Bool("v", false, "")
	timeout := fs.Duration("timeout", 0, "per-query timeout (default 10s quick, 60s thorough)")
	fs.Parse(args)
	if fs.NArg() < 1 {
		fmt.Fprintln(os.Stderr, "usage: govc check [flags] <property> [quick|thorough]")
		os.Exit(2)
	}
	prop := fs.Arg(0)
	tier := "quick"
	if fs.NArg() > 1 {
		tier = fs.Arg(1)
	}
	if t := os.Getenv("VERIF_TIER"); t != "" && fs.NArg() < 2 {
		tier = t
	}
	seed := 0
	fmt.Sscanf(os.Getenv("VERIF_SEED"), "%d", &seed)
	to := *timeout
	if to == 0 {
		to = 10 * time.Second
		if tier == "thorough" {
			to = 60 * time.Second
		}
	}
	r := eng.RunCheck(prop, eng.CheckOptions{VerifDir: *verif, RepoDir: *repo, Tier: tier, Seed: seed, Timeout: to, DumpDir: *dump, Verbose: *verbose, OutDir: *out})
	os.Exit(r.ExitCode)
}

// verifRoot: the directory holding contracts/ and stdlib/ for the dev command (GOVC_VERIF_ROOT, default /verif).
func verifRoot() string {
	if v := os.Getenv("GOVC_VERIF_ROOT"); v != "" {
		return v
	}
	return "/verif"
}

// ssadump2: development helper — dumps the SSA of selected functions of a /repo package (build tag verif).
package main

import (
	"fmt"
	"os"
	"strings"

	"golang.org/x/tools/go/packages"
	"golang.org/x/tools/go/ssa"
	"golang.org/x/tools/go/ssa/ssautil"
)

func main() {
	dir := os.Args[1]
	pkgPath := os.Args[2]
	names := os.Args[3:]
	cfg := &packages.Config{Mode: packages.LoadAllSyntax, Dir: dir, BuildFlags: []string{"-tags=verif"}}
	pkgs, err := packages.Load(cfg, pkgPath)
	if err != nil {
		panic(err)
	}
	if packages.PrintErrors(pkgs) > 0 {
		os.Exit(1)
	}
	prog, spkgs := ssautil.AllPackages(pkgs, ssa.InstantiateGenerics)
	prog.Build()
	for _, p := range spkgs {
		if p == nil {
			continue
		}
		for fn := range ssautil.AllFunctions(prog) {
			if fn.Pkg != p {
				continue
			}
			for _, n := range names {
				if strings.Contains(fn.String(), n) {
					fn.WriteTo(os.Stdout)
					fmt.Println()
				}
			}
		}
	}
}

#!/bin/sh
# Runs the must-fail corpus with one runner per property, several at a time, then the must-pass corpus.
# usage: selftest/run_parallel.sh [jobs]    logs: /tmp/selftest-par/<prop>.log
cd /verif || exit 2
J=${1:-5}
mkdir -p /tmp/selftest-par; rm -f /tmp/selftest-par/*.log
props=$(python3 -c "import json; print(' '.join(sorted({m['property'] for m in json.load(open('selftest/mutants.json'))})))")
echo $props | tr ' ' '\n' | xargs -P $J -I{} sh -c 'python3 selftest/run.py {} > /tmp/selftest-par/{}.log 2>&1'
grep -h "^selftest:" /tmp/selftest-par/*.log
grep -h "^MISS\|SELFTEST-ERROR" /tmp/selftest-par/*.log

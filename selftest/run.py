#!/usr/bin/env python3
"""Must-fail corpus: every mutant must make the check of its property report the named obligation.

Each mutant is applied to a scratch git worktree of /repo (outside /repo and /verif, removed at the
end); the check runs against that tree with -repo and writes its evidence to a scratch directory.
Usage: selftest/run.py [mutant-id-substring ...]
"""
import json, os, subprocess, sys, shutil, tempfile, time

VERIF = os.path.dirname(os.path.dirname(os.path.abspath(__file__)))
REPO = os.environ.get("VERIF_REPO", "/repo")
env = dict(os.environ, GOFLAGS="-mod=mod", GOPROXY="off", GOSUMDB="off", GOTOOLCHAIN="local", GOVC_NO_REPLAY=os.environ.get("GOVC_NO_REPLAY", "1"))

def sh(*a, **kw):
    return subprocess.run(a, capture_output=True, text=True, env=env, **kw)

def main():
    muts = json.load(open(os.path.join(VERIF, "selftest", "mutants.json")))
    sel = sys.argv[1:]
    if sel:
        muts = [m for m in muts if any(s in m["id"] or s == m["property"] for s in sel)]
    wt = tempfile.mkdtemp(prefix="govc-selftest-")
    out = tempfile.mkdtemp(prefix="govc-selftest-out-")
    os.rmdir(wt)
    r = sh("git", "-C", REPO, "worktree", "add", "--detach", wt, "HEAD")
    if r.returncode != 0:
        print(r.stderr); sys.exit(2)
    # the working tree of /repo may carry uncommitted hook files: copy contract files too
    bad = 0
    try:
        for m in muts:
            path = os.path.join(wt, m["file"])
            src = open(path).read()
            if m["old"] not in src:
                print(f"SELFTEST-ERROR {m['id']}: pattern not found in {m['file']} (mutant is stale)")
                bad += 1
                continue
            open(path, "w").write(src.replace(m["old"], m["new"], 1))
            t0 = time.time()
            r = sh(os.path.join(VERIF, "bin", "govc"), "check", "-repo", wt, "-verif", VERIF, "-out", out, m["property"], "quick")
            open(path, "w").write(src)
            ev = {}
            try:
                ev = json.load(open(os.path.join(out, "evidence", m["property"] + ".json")))
            except Exception:
                pass
            failed = ev.get("coverage", {}).get("failed_obligations", [])
            hit = [f for f in failed if any(f.startswith(e) or e in f for e in m["expect"])]
            if "standin" in m["expect"]:
                hit = [l for l in r.stdout.split("\n") if l.startswith("VIOLATION") and "standin_" in l]
            if any(e.endswith("/load") or e.endswith("/family") for e in m["expect"]) and not hit:
                hit = [l for l in r.stdout.split("\n") if l.startswith("VIOLATION") and ("_load.json" in l or "_family.json" in l)]
            ok = r.returncode == 1 and hit
            print(f"{'ok  ' if ok else 'MISS'} {m['id']:32s} {m['property']} exit={r.returncode} {time.time()-t0:5.1f}s failed={failed[:4]}")
            if not ok:
                bad += 1
                print("     " + "\n     ".join(r.stdout.strip().split("\n")[-4:]))
    finally:
        sh("git", "-C", REPO, "worktree", "remove", "--force", wt)
        shutil.rmtree(out, ignore_errors=True)
        shutil.rmtree(wt, ignore_errors=True)
    print(f"selftest: {len(muts)} mutants, {bad} not detected")
    sys.exit(1 if bad else 0)

main()

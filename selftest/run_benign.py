#!/usr/bin/env python3
"""Must-pass corpus: behaviour-preserving edits of code under contract. Every check must stay silent
(exit 0, no VIOLATION line) on each of them; an alarm here is a false alarm of the machinery.

Each edit is applied to a scratch git worktree of /repo (outside /repo and /verif, removed at the end).
Usage: selftest/run_benign.py [id-substring ...]
"""
import json, os, subprocess, sys, shutil, tempfile, time

VERIF = os.path.dirname(os.path.dirname(os.path.abspath(__file__)))
REPO = os.environ.get("VERIF_REPO", "/repo")
env = dict(os.environ, GOFLAGS="-mod=mod", GOPROXY="off", GOSUMDB="off", GOTOOLCHAIN="local")

def sh(*a, **kw):
    return subprocess.run(a, capture_output=True, text=True, env=env, **kw)

def main():
    muts = json.load(open(os.path.join(VERIF, "selftest", "benign.json")))
    sel = sys.argv[1:]
    if sel:
        muts = [m for m in muts if any(s in m["id"] or s == m["property"] for s in sel)]
    wt = tempfile.mkdtemp(prefix="govc-benign-")
    out = tempfile.mkdtemp(prefix="govc-benign-out-")
    os.rmdir(wt)
    r = sh("git", "-C", REPO, "worktree", "add", "--detach", wt, "HEAD")
    if r.returncode != 0:
        print(r.stderr); sys.exit(2)
    bad = 0
    try:
        for m in muts:
            path = os.path.join(wt, m["file"])
            src = open(path).read()
            new = src
            stale = False
            for old, rep in m.get("edits") or [[m["old"], m["new"]]]:
                if old not in new:
                    stale = True
                new = new.replace(old, rep, 1)
            if stale:
                print(f"BENIGN-ERROR {m['id']}: pattern not found in {m['file']} (edit is stale)")
                bad += 1
                continue
            open(path, "w").write(new)
            b = sh("go", "build", "./...", cwd=wt)
            if b.returncode != 0:
                print(f"BENIGN-ERROR {m['id']}: does not build: {b.stderr[-300:]}")
                open(path, "w").write(src); bad += 1
                continue
            t0 = time.time()
            r = sh(os.path.join(VERIF, "bin", "govc"), "check", "-repo", wt, "-verif", VERIF, "-out", out, m["property"], "quick")
            open(path, "w").write(src)
            alarm = r.returncode != 0 or "VIOLATION" in r.stdout
            print(f"{'ALARM' if alarm else 'quiet'} {m['id']:32s} {m['property']} exit={r.returncode} {time.time()-t0:5.1f}s")
            if alarm:
                bad += 1
                print("     " + "\n     ".join([l for l in r.stdout.strip().split("\n") if "VIOLATION" in l][:6]))
    finally:
        sh("git", "-C", REPO, "worktree", "remove", "--force", wt)
        shutil.rmtree(out, ignore_errors=True)
    print(f"benign: {len(muts)-bad}/{len(muts)} quiet")
    sys.exit(1 if bad else 0)

main()

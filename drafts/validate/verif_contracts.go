//go:build verif

// DRAFT (round 0) contract file for package validate — see /verif/drafts/README.md.

package validate

// specAbs: |v| as a mathematical integer; it fits uint64 (|MinInt64| = 2^63) and
// the computation below never overflows, so the executable form and the SMT
// translation (wrap-exact) agree.
func specAbs(v int64) uint64 {
	if v < 0 {
		return uint64(-(v + 1)) + 1
	}
	return uint64(v)
}

// specIntValid: JSON Schema (draft-4 style boolean exclusive bounds, as OpenAPI 3.0)
// for an integer instance v.
func specIntValid(t Int, v int64) bool {
	if t.MinSet && (v < t.Min || t.MinExclusive && v == t.Min) {
		return false
	}
	if t.MaxSet && (v > t.Max || t.MaxExclusive && v == t.Max) {
		return false
	}
	return !t.MultipleOfSet || specAbs(v)%t.MultipleOf == 0
}

func specLenValid(t Array, n int) bool {
	return !(t.MaxLengthSet && n > t.MaxLength) && !(t.MinLengthSet && n < t.MinLength)
}

func specPropsValid(t Object, n int) bool {
	return !(t.MaxPropertiesSet && n > t.MaxProperties) && !(t.MinPropertiesSet && n < t.MinProperties)
}

func specDistinctFrom[T comparable](x T, rest []T) bool {
	return len(rest) == 0 || x != rest[0] && specDistinctFrom(x, rest[1:])
}

func specPairwiseDistinct[T comparable](xs []T) bool {
	return len(xs) == 0 || specDistinctFrom(xs[0], xs[1:]) && specPairwiseDistinct(xs[1:])
}

//@ func (t Int) Validate(v int64) (err error)
//@   requires t.MultipleOfSet ==> t.MultipleOf > 0            // carried by ir.Validators.SetInt + jsonschema.parseSchema (C03 chain)
//@   ensures (err == nil) == specIntValid(t, v)
//@ func (t Array) ValidateLength(v int) (err error)            ensures (err == nil) == specLenValid(t, v)
//@ func (t Object) ValidateProperties(v int) (err error)       ensures (err == nil) == specPropsValid(t, v)
//@ func UniqueItems[S ~[]T, T comparable](arr S) (err error)   ensures (err == nil) == specPairwiseDistinct(arr)
//@   loop 0 invariant specPairwiseDistinct(arr) == specPairwiseDistinct(arr[i:]) ... (outer), loop 1: specDistinctFrom(a, arr[i+1:i+1+j])
//@ func (t Float) Validate(v float64) (err error)
//@   ensures nan: v != v ==> err != nil
//@   ensures inf: isInf(v) ==> err != nil
//@   ensures cmp: !t.MultipleOfSet && v == v && !isInf(v) ==> (err == nil) == (!(t.MinSet && (v < t.Min || t.MinExclusive && v == t.Min)) && !(t.MaxSet && (v > t.Max || t.MaxExclusive && v == t.Max)))

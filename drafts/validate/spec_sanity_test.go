//go:build verif

package validate

import (
	"math"
	"testing"
)

func TestDraftSpecInt(t *testing.T) {
	vals := []int64{math.MinInt64, math.MinInt64 + 1, -7, -6, -1, 0, 1, 2, 3, 6, 7, math.MaxInt64 - 1, math.MaxInt64}
	mults := []uint64{1, 2, 3, 7, 1 << 62, 1 << 63, math.MaxUint64}
	n := 0
	for _, mn := range vals {
		for _, mx := range vals {
			for _, flags := range []int{0, 1, 2, 3, 4, 5, 6, 7, 8, 9, 10, 11, 12, 13, 14, 15} {
				for mi := -1; mi < len(mults); mi++ {
					tt := Int{Min: mn, Max: mx, MinSet: flags&1 != 0, MaxSet: flags&2 != 0, MinExclusive: flags&4 != 0, MaxExclusive: flags&8 != 0}
					if mi >= 0 {
						tt.MultipleOfSet, tt.MultipleOf = true, mults[mi]
					}
					for _, v := range vals {
						n++
						if (tt.Validate(v) == nil) != specIntValid(tt, v) {
							t.Fatalf("Int%+v.Validate(%d): real ok=%v spec %v", tt, v, tt.Validate(v) == nil, specIntValid(tt, v))
						}
					}
				}
			}
		}
	}
	t.Logf("%d cases", n)
}

func TestDraftSpecUnique(t *testing.T) {
	for _, xs := range [][]int{nil, {1}, {1, 1}, {1, 2}, {1, 2, 1}, {1, 2, 3}, {3, 2, 2}, {1, 2, 3, 1}} {
		if (UniqueItems(xs) == nil) != specPairwiseDistinct(xs) {
			t.Errorf("%v", xs)
		}
	}
}

//go:build verif

// DRAFT (round 0) contract file for package jsonpointer — see /verif/drafts/README.md.

package jsonpointer

import "github.com/go-faster/yaml"

// ---------------------------------------------------------------------------
// Spec functions: RFC 6901 evaluation, written from the RFC, value form.
// ---------------------------------------------------------------------------

func str1(c byte) string { return string([]byte{c}) }

func indexB(s string, d byte) int {
	if len(s) == 0 {
		return -1
	}
	if s[0] == d {
		return 0
	}
	if k := indexB(s[1:], d); k >= 0 {
		return k + 1
	}
	return -1
}

// rfcUnescape: RFC 6901 §4 — "first transforming any occurrence of the sequence '~1'
// to '/', and then transforming any occurrence of the sequence '~0' to '~'".
// Written as the two sequential passes the RFC prescribes.
func rfcPass(s string, second byte, to byte) string {
	if len(s) == 0 {
		return ""
	}
	if len(s) >= 2 && s[0] == '~' && s[1] == second {
		return str1(to) + rfcPass(s[2:], second, to)
	}
	return s[:1] + rfcPass(s[1:], second, to)
}

func rfcUnescape(tok string) string { return rfcPass(rfcPass(tok, '1', '/'), '0', '~') }

// rfcArrayIndex: RFC 6901 §4 ABNF  array-index = %x30 / ( %x31-39 *(%x30-39) ).
// Returns (value, true) for a well-formed index that fits in uint64.
func rfcDigits(s string) bool {
	return len(s) == 0 || '0' <= s[0] && s[0] <= '9' && rfcDigits(s[1:])
}

func rfcDecVal(s string, acc uint64) (uint64, bool) { // overflow-checked
	if len(s) == 0 {
		return acc, true
	}
	d := uint64(s[0] - '0')
	if acc > (1<<64-1-d)/10 {
		return 0, false
	}
	return rfcDecVal(s[1:], acc*10+d)
}

func rfcArrayIndex(tok string) (uint64, bool) {
	if len(tok) == 0 || !rfcDigits(tok) {
		return 0, false
	}
	if len(tok) > 1 && tok[0] == '0' {
		return 0, false // leading zeros are not an array-index
	}
	return rfcDecVal(tok, 0)
}

// kfLeadingZero: the known-finding class candidate for C16 (DESIGN §8/C16):
// digit strings with a superfluous leading zero, which strconv.ParseUint accepts.
func kfLeadingZero(tok string) bool { return len(tok) > 1 && tok[0] == '0' && rfcDigits(tok) }

func rfcMember(n *yaml.Node, i int, key string) (*yaml.Node, bool) { // first member with that name
	if i+1 >= len(n.Content) {
		return nil, false
	}
	if n.Content[i].Value == key {
		return n.Content[i+1], true
	}
	return rfcMember(n, i+2, key)
}

func rfcStep(n *yaml.Node, tok string) (*yaml.Node, bool) {
	key := rfcUnescape(tok)
	switch n.Kind {
	case yaml.MappingNode:
		return rfcMember(n, 0, key)
	case yaml.SequenceNode:
		idx, ok := rfcArrayIndex(key)
		if !ok || idx >= uint64(len(n.Content)) {
			return nil, false
		}
		return n.Content[idx], true
	default:
		return nil, false
	}
}

// rfc6901: ptr is "" or "/tok/tok…" (JSON string representation, §5).
func rfc6901(n *yaml.Node, ptr string) (*yaml.Node, bool) {
	if ptr == "" {
		return n, true
	}
	if ptr[0] != '/' {
		return nil, false
	}
	rest := ptr[1:]
	k := indexB(rest, '/')
	if k < 0 {
		return rfcStep(n, rest)
	}
	m, ok := rfcStep(n, rest[:k])
	if !ok {
		return nil, false
	}
	return rfc6901(m, rest[k:])
}

func docRoot(n *yaml.Node) *yaml.Node {
	if n.Kind == yaml.DocumentNode && len(n.Content) > 0 {
		return n.Content[0]
	}
	return n
}

// ---------------------------------------------------------------------------
// Contracts
// ---------------------------------------------------------------------------

//@ pred wfYAML(n *yaml.Node) := n != nil && (n.Kind == yaml.MappingNode ==> len(n.Content) % 2 == 0) && forall c in n.Content :: wfYAML(c)
//@      // assumed of the yaml decoder's output (DESIGN §11.5); the spec function rfcMember is total without it

//@ func unescape(part string) (r string)     ensures r == rfcUnescape(part)
//@      // assumed: (*strings.Replacer).Replace for ("~1","/","~0","~") is one left-to-right pass;
//@      // lemma onePassEqualsTwoPasses relates that pass to rfcUnescape (induction len(part))
//@ func findKey(n *yaml.Node, part string) (r *yaml.Node, ok bool)
//@   requires n != nil && len(n.Content) % 2 == 0
//@   ensures (r, ok) == rfcMember(n, 0, part)
//@   loop 0 invariant 0 <= i && i <= len(children) && i % 2 == 0 && rfcMember(n, i, part) == rfcMember(n, 0, part)
//@   loop 0 decreases len(children) - i
//@ func findIdx(n *yaml.Node, part string) (r *yaml.Node, ok bool, err error)
//@   requires n != nil && !kfLeadingZero(part)
//@   ensures err == nil && ok  ==> rfcArrayIndex(part) == (idx, true) && idx < len(n.Content) && r == n.Content[idx]
//@   ensures err != nil || !ok ==> !(rfcArrayIndex(part) is (idx, true) with idx < len(n.Content))
//@ func find(ptr string, node *yaml.Node) (r *yaml.Node, err error)       //@ inline splitFunc, find$1
//@   requires wfYAML(node)
//@   ensures sound:    err == nil ==> rfc6901(node, ptr) == (r, true)
//@   ensures complete: rfc6901(node, ptr) == (m, true) && !kfLeadingZeroSomewhere(ptr) ==> err == nil && r == m
//@   loop 0 (the loop of splitFunc) invariant  rfc6901(node, "/" + s) == rfc6901(old(node), old(ptr))    // node: the captured variable
//@   loop 0 decreases len(s)
//@ func Resolve(ptr string, node *yaml.Node) (r *yaml.Node, err error)
//@   requires node != nil ==> wfYAML(node)
//@   ensures plain:    (ptr == "" || ptr[0] == '/') ==> (err == nil ==> rfc6901(docRoot(node), ptr) == (r, true))
//@   ensures fragment: len(ptr) > 0 && ptr[0] == '#' ==> (err == nil ==> rfc6901(docRoot(node), pctDecode(ptr[1:])) == (r, true))

//go:build verif

package jsonpointer

import (
	"testing"

	"github.com/go-faster/yaml"
)

const sanityDoc = `{"": 0, "a": [10, 11, {"b": 12}, [13]], "a/b": 1, "m~n": 2, "~1": 3, "01": 4, "1": {"": 5, " ": 6}, "k": null}`

func enumStrings(alphabet string, maxLen int, f func(string)) {
	var rec func(prefix []byte)
	rec = func(prefix []byte) {
		f(string(prefix))
		if len(prefix) == maxLen {
			return
		}
		for i := 0; i < len(alphabet); i++ {
			rec(append(prefix[:len(prefix):len(prefix)], alphabet[i]))
		}
	}
	rec(nil)
}

func TestDraftSpecRFC6901(t *testing.T) {
	var root yaml.Node
	if err := yaml.Unmarshal([]byte(sanityDoc), &root); err != nil {
		t.Fatal(err)
	}
	n, agree, known, bad := 0, 0, 0, 0
	enumStrings("/a01~b", 6, func(ptr string) {
		if ptr != "" && ptr[0] != '/' {
			return // other forms go through url.Parse; plain form only here
		}
		n++
		got, err := Resolve(ptr, &root)
		want, ok := rfc6901(docRoot(&root), ptr)
		switch {
		case (err == nil) == ok && (!ok || got == want):
			agree++
		default:
			// is it the leading-zero class?
			lz := false
			rest := ptr
			for len(rest) > 0 {
				rest = rest[1:]
				k := indexB(rest, '/')
				tok := rest
				if k >= 0 {
					tok, rest = rest[:k], rest[k:]
				} else {
					rest = ""
				}
				if kfLeadingZero(rfcUnescape(tok)) {
					lz = true
				}
			}
			if lz {
				known++
			} else {
				bad++
				if bad < 10 {
					t.Errorf("Resolve(%q): real (%v, err=%v) spec (%v, %v)", ptr, got != nil, err, want != nil, ok)
				}
			}
		}
	})
	t.Logf("%d pointers: %d agree, %d in class kfLeadingZero, %d unexpected", n, agree, known, bad)
}

func TestDraftSpecUnescape(t *testing.T) {
	enumStrings("~01/a", 6, func(s string) {
		if unescape(s) != rfcUnescape(s) {
			t.Errorf("unescape(%q)=%q rfc two-pass %q", s, unescape(s), rfcUnescape(s))
		}
	})
}

//go:build verif

// DRAFT (round 0) of the contract file for package uri. It is kept under
// /verif/drafts and is NOT yet a hook in /repo; it is compiled and sanity-run
// against the real package through `go test -overlay` (see ../README.md).
//
// Layout: (1) spec functions — pure, total, value-form Go (DESIGN Appendix A.0);
// (2) //@ contract blocks keyed by function; (3) harness functions (DESIGN §3.2).

package uri

import "net/url"

// ---------------------------------------------------------------------------
// 1. Spec functions
// ---------------------------------------------------------------------------

func specIsHex(c byte) bool {
	return '0' <= c && c <= '9' || 'a' <= c && c <= 'f' || 'A' <= c && c <= 'F'
}

func specHexVal(c byte) byte {
	switch {
	case '0' <= c && c <= '9':
		return c - '0'
	case 'a' <= c && c <= 'f':
		return c - 'a' + 10
	default: // 'A'..'F' under specIsHex
		return c - 'A' + 10
	}
}

func specUpperHexDigit(n byte) byte { // n < 16
	if n < 10 {
		return '0' + n
	}
	return 'A' + n - 10
}

// specUnreserved: RFC 3986 §2.3 — the octets that need no escaping in a path.
func specUnreserved(c byte) bool {
	return 'a' <= c && c <= 'z' || 'A' <= c && c <= 'Z' || '0' <= c && c <= '9' ||
		c == '-' || c == '_' || c == '.' || c == '~'
}

func str1(c byte) string { return string([]byte{c}) } // translator intrinsic: unit(c)

// escAt: s has a well-formed escape at its front.
func escAt(s string) bool {
	return len(s) >= 3 && s[0] == '%' && specIsHex(s[1]) && specIsHex(s[2])
}

// wellEscaped: every '%' starts a well-formed escape.
func wellEscaped(s string) bool {
	if len(s) == 0 {
		return true
	}
	if s[0] == '%' {
		return escAt(s) && wellEscaped(s[3:])
	}
	return wellEscaped(s[1:])
}

// pctDecode: the octets a well-escaped string denotes.
func pctDecode(s string) string {
	if len(s) == 0 {
		return ""
	}
	if escAt(s) {
		return str1(specHexVal(s[1])<<4|specHexVal(s[2])) + pctDecode(s[3:])
	}
	return s[:1] + pctDecode(s[1:])
}

// canonicalPath: well-escaped, hex digits upper-case, only octets that must be escaped are escaped.
func canonicalPath(s string) bool {
	if len(s) == 0 {
		return true
	}
	if s[0] == '%' {
		if !escAt(s) {
			return false
		}
		b := specHexVal(s[1])<<4 | specHexVal(s[2])
		upper := !('a' <= s[1] && s[1] <= 'f') && !('a' <= s[2] && s[2] <= 'f')
		return upper && !specUnreserved(b) && canonicalPath(s[3:])
	}
	return canonicalPath(s[1:])
}

// nf: token-wise canonical re-encoding of a well-escaped string.
func nf(s string) string {
	if len(s) == 0 {
		return ""
	}
	if escAt(s) {
		b := specHexVal(s[1])<<4 | specHexVal(s[2])
		if specUnreserved(b) {
			return str1(b) + nf(s[3:])
		}
		return "%" + str1(specUpperHexDigit(b>>4)) + str1(specUpperHexDigit(b&15)) + nf(s[3:])
	}
	return s[:1] + nf(s[1:])
}

// --- cookies ---------------------------------------------------------------

// specCookieNeedsEsc is transcribed from RFC 6265 cookie-octet (what net/http would
// otherwise drop or quote) plus the escape character itself. The contract of
// escapeCookie additionally states that the real table cookieEscapeChars agrees
// with it for every c < 128 (a 128-case ground obligation).
func specCookieNeedsEsc(c byte) bool {
	return c <= ' ' || c == '"' || c == ',' || c == ';' || c == '\\' || c >= 0x7f || c == '%'
}

func escC(s string) string {
	if len(s) == 0 {
		return ""
	}
	if specCookieNeedsEsc(s[0]) {
		return "%" + str1(specUpperHexDigit(s[0]>>4)) + str1(specUpperHexDigit(s[0]&15)) + escC(s[1:])
	}
	return s[:1] + escC(s[1:])
}

func unescC(s string) string { return pctDecode(s) } // same token grammar; ok-flag is wellEscaped(s)

// --- splitting / joining ----------------------------------------------------

func indexB(s string, d byte) int {
	if len(s) == 0 {
		return -1
	}
	if s[0] == d {
		return 0
	}
	if k := indexB(s[1:], d); k >= 0 {
		return k + 1
	}
	return -1
}

func containsB(s string, d byte) bool { return indexB(s, d) >= 0 }

// pieces / okPieces: what the cursor-based decoders (parseArray) deliver for s, and
// whether they succeed: an empty remainder is an error (io.EOF).
func okPieces(s string, d byte) bool {
	k := indexB(s, d)
	if k >= 0 {
		return okPieces(s[k+1:], d)
	}
	return len(s) > 0
}

func pieces(s string, d byte) []string {
	k := indexB(s, d)
	if k >= 0 {
		return append([]string{s[:k]}, pieces(s[k+1:], d)...)
	}
	if len(s) > 0 {
		return []string{s}
	}
	return nil
}

// splitB: strings.Split(s, string(d)) for a one-byte separator.
func splitB(s string, d byte) []string {
	k := indexB(s, d)
	if k >= 0 {
		return append([]string{s[:k]}, splitB(s[k+1:], d)...)
	}
	return []string{s}
}

func joinB(xs []string, d string) string {
	if len(xs) == 0 {
		return ""
	}
	if len(xs) == 1 {
		return xs[0]
	}
	return xs[0] + d + joinB(xs[1:], d)
}

func noneContains(xs []string, d byte) bool {
	return len(xs) == 0 || !containsB(xs[0], d) && noneContains(xs[1:], d)
}

func joinFields(fs []Field, kv, fsep string) string {
	if len(fs) == 0 {
		return ""
	}
	if len(fs) == 1 {
		return fs[0].Name + kv + fs[0].Value
	}
	return fs[0].Name + kv + fs[0].Value + fsep + joinFields(fs[1:], kv, fsep)
}

func mapEsc(xs []string) []string {
	if len(xs) == 0 {
		return nil
	}
	return append([]string{url.PathEscape(xs[0])}, mapEsc(xs[1:])...)
}

func mapEscFields(fs []Field) []Field {
	if len(fs) == 0 {
		return nil
	}
	return append([]Field{{Name: url.PathEscape(fs[0].Name), Value: url.PathEscape(fs[0].Value)}}, mapEscFields(fs[1:])...)
}

// --- the OpenAPI style table for path parameters (DESIGN Appendix F) --------
//
// oasPath gives the serialization with every piece already percent-encoded by
// pctEscapeSeg = url.PathEscape (assumed contract), because the table is about
// the characters *between* pieces.

func oasPathValue(style PathStyle, name, val string) string {
	switch style {
	case PathStyleLabel:
		return "." + url.PathEscape(val)
	case PathStyleMatrix:
		return ";" + url.PathEscape(name) + "=" + url.PathEscape(val)
	default:
		return url.PathEscape(val)
	}
}

func oasPathArray(style PathStyle, explode bool, name string, items []string) string {
	esc := mapEsc(items)
	switch style {
	case PathStyleLabel:
		if explode {
			return "." + joinB(esc, ".")
		}
		return "." + joinB(esc, ",")
	case PathStyleMatrix:
		p := ";" + url.PathEscape(name) + "="
		if explode {
			return p + joinB(esc, p)
		}
		return p + joinB(esc, ",")
	default:
		return joinB(esc, ",")
	}
}

func oasPathObject(style PathStyle, explode bool, name string, fields []Field) string {
	esc := mapEscFields(fields)
	switch style {
	case PathStyleLabel:
		if explode {
			return "." + joinFields(esc, "=", ".")
		}
		return "." + joinFields(esc, ",", ",")
	case PathStyleMatrix:
		if explode {
			return ";" + joinFields(esc, "=", ";")
		}
		return ";" + url.PathEscape(name) + "=" + joinFields(esc, ",", ",")
	default:
		if explode {
			return joinFields(esc, "=", ",")
		}
		return joinFields(esc, ",", ",")
	}
}

// activeArrayDelim: the byte an array item must not contain (the separator that
// the table puts between items for this style/explode).
func activeArrayDelim(style PathStyle, explode bool) byte {
	switch {
	case style == PathStyleLabel && explode:
		return '.'
	case style == PathStyleMatrix && explode:
		return ';'
	default:
		return ','
	}
}

// Known-finding classes (DESIGN §7, C06).
func kfTrailingEmpty(items []string) bool { return len(items) > 0 && items[len(items)-1] == "" }

// ---------------------------------------------------------------------------
// 2. Contracts
// ---------------------------------------------------------------------------

//@ func ishex(c byte) (r bool)            ensures r == specIsHex(c)
//@ func unhex(c byte) (r byte)            ensures specIsHex(c) ==> r == specHexVal(c)
//@                                        ensures !specIsHex(c) ==> r == 0
//@ func asciiToUpper(c byte) (r byte)     ensures ('a' <= c && c <= 'f') ==> r == c - 32
//@                                        ensures !('a' <= c && c <= 'f') ==> r == c
//@ func asciiIsLowercase(c byte) (r bool) ensures r == ('a' <= c && c <= 'z')
//@ func shouldEscapePath(c byte) (r bool) ensures r == !specUnreserved(c)

//@ func NormalizeEscapedPath(s string) (out string, ok bool)
//@   ensures verdict:   ok == wellEscaped(s)
//@   ensures nf:        ok ==> out == nf(s)
//@   ensures rejected:  !ok ==> out == ""
//@   ensures fixpoint:  canonicalPath(s) ==> ok && out == s
//@   loop 0 invariant suffix:   len(iter) <= len(s) && iter == s[len(s)-len(iter):]
//@   loop 0 invariant seen:     wellEscaped(s[:len(s)-len(iter)]) && canonicalPath(s[:len(s)-len(iter)])
//@   loop 0 invariant boundary: wellEscaped(s) == wellEscaped(iter) && nf(s) == s[:len(s)-len(iter)] + nf(iter)
//@   loop 0 decreases len(iter)
//@   loop 1 invariant range:    0 <= i && i <= len(s)
//@   loop 1 invariant rest:     wellEscaped(s[i:])                      // cannot be established before the fix
//@   loop 1 invariant acc:      t + nf(s[i:]) == nf(s)
//@   loop 1 decreases len(s) - i
//@ lemma nfDecodes(s string)     requires wellEscaped(s) ensures pctDecode(nf(s)) == pctDecode(s)      induction len(s)
//@ lemma nfCanonical(s string)   requires wellEscaped(s) ensures canonicalPath(nf(s))                  induction len(s)
//@ lemma canonFix(s string)      requires canonicalPath(s) ensures nf(s) == s && wellEscaped(s)         induction len(s)
//@ lemma nfIdempotent(s string)  requires wellEscaped(s) ensures nf(nf(s)) == nf(s)                    by nfCanonical(s), canonFix(nf(s))
//@ lemma nfHexCase(a, b string)  // strings equal up to the case of hex digits inside escapes have equal nf

//@ func escapeCookie(s string) (out string)
//@   ensures table:  forall c byte :: c < 128 ==> (cookieEscapeChars[c] == 1) == specCookieNeedsEsc(c)
//@   ensures out == escC(s)
//@   loop 0 invariant n == countEsc(s[:i]) ...            // only needed for: n == 0 ==> escC(s) == s
//@   loop 1 invariant acc: sb + escC(s[i:]) == escC(s)
//@ func unescapeCookie(s string) (out string, ok bool)
//@   ensures ok == wellEscaped(s) && (ok ==> out == pctDecode(s)) && (!ok ==> out == "")
//@ lemma cookieInverse(s string)  ensures wellEscaped(escC(s)) && pctDecode(escC(s)) == s               induction len(s)

//@ pred wfCursor(c *cursor) := 0 <= c.pos && c.pos <= len(c.src)
//@ func (c *cursor) readValue(sep byte) (v string, hasNext bool, err error)
//@   requires wfCursor(c) && sep < 0x80
//@   modifies c.pos
//@   ensures frame: c.src == old(c.src) && wfCursor(c)
//@   ensures more:  indexB(rest, sep) >= 0 ==> err == nil && hasNext && v == rest[:indexB(rest, sep)] && c.pos == old(c.pos) + indexB(rest, sep) + 1
//@   ensures last:  indexB(rest, sep) < 0 && rest != "" ==> err == nil && !hasNext && v == rest && c.pos == len(c.src)
//@   ensures empty: indexB(rest, sep) < 0 && rest == "" ==> err == io.EOF && !hasNext && v == "" && c.pos == old(c.pos)
//@   where rest := old(c.src[c.pos:])
//@ func parseArray(cur *cursor, delim byte, f func(Decoder) error) (err error)
//@   requires wfCursor(cur) && delim < 0x80
//@   modifies cur.pos, log(f)
//@   ensures ok:    allNil(results(f)) ==> (err == nil) == okPieces(rest, delim)
//@   ensures log:   err == nil ==> log(f) == old(log(f)) + constvals(pieces(rest, delim))
//@   loop 0 invariant acc: log(f) + constvals(pieces(cur.src[cur.pos:], delim)) == old(log(f)) + constvals(pieces(rest, delim))
//@   loop 0 invariant ok:  okPieces(cur.src[cur.pos:], delim) == okPieces(rest, delim)
//@   loop 0 decreases len(cur.src) - cur.pos
//@   where rest := old(cur.src[cur.pos:])
//@ lemma piecesOfJoin(xs []string, d byte)
//@   requires len(xs) >= 1 && noneContains(xs, d) && !kfTrailingEmpty(xs)
//@   ensures  okPieces(joinB(xs, str1(d)), d) && pieces(joinB(xs, str1(d)), d) == xs                    induction len(xs)

//@ func (e *PathEncoder) Result() (r string, err error)
//@   requires e.typ != typeNotSet
//@   requires e.style == PathStyleSimple || e.style == PathStyleLabel || e.style == PathStyleMatrix
//@   modifies e.val, e.items[*], e.fields[*]
//@   ensures refuseArr: e.typ == typeArray ==> (err != nil) == (!noneContains(old(e.items), activeArrayDelim(e.style, e.explode)) || (e.style == PathStyleMatrix && containsB(e.param, '=')))
//@   ensures tableVal:  e.typ == typeValue && err == nil ==> r == oasPathValue(e.style, rawParam(e), old(e.val))
//@   ensures tableArr:  e.typ == typeArray && err == nil ==> r == oasPathArray(e.style, e.explode, rawParam(e), old(e.items))
//@   ensures tableObj:  e.typ == typeObject && err == nil ==> r == oasPathObject(e.style, e.explode, rawParam(e), old(e.fields))

// ---------------------------------------------------------------------------
// 3. Harness functions (property-level lemmas; also what replay executes)
// ---------------------------------------------------------------------------

//@ func verifPathArrayRoundTrip(style PathStyle, explode bool, name string, items []string, f func(Decoder) error) (err error)
//@   requires style == PathStyleSimple || style == PathStyleLabel || style == PathStyleMatrix
//@   requires len(items) >= 1 && noneContains(items, activeArrayDelim(style, explode)) && !containsB(name, '=')
//@   requires !kfTrailingEmpty(items)
//@   ensures  roundtrip: allNil(results(f)) ==> err == nil && log(f) == constvals(items)
func verifPathArrayRoundTrip(style PathStyle, explode bool, name string, items []string, f func(Decoder) error) error {
	e := NewPathEncoder(PathEncoderConfig{Param: name, Style: style, Explode: explode})
	if err := e.EncodeArray(func(e Encoder) error {
		for _, it := range items {
			if err := e.EncodeValue(it); err != nil {
				return err
			}
		}
		return nil
	}); err != nil {
		return err
	}
	s, err := e.Result()
	if err != nil {
		return err
	}
	arg, err := url.PathUnescape(s) // what the generated server does with the cut argument
	if err != nil {
		return err
	}
	return NewPathDecoder(PathDecoderConfig{Param: name, Value: arg, Style: style, Explode: explode}).DecodeArray(f)
}

// ---------------------------------------------------------------------------
// 4. Remaining rows of the style table (DESIGN Appendix F): objects in the path,
//    query (as url.Values content), header, cookie — spec functions + harnesses.
// ---------------------------------------------------------------------------

// kv / field separators of the table for flat objects.
func objSeps(loc string, style string, explode bool) (kv, fs string) {
	if !explode {
		return ",", ","
	}
	switch {
	case loc == "path" && style == "label":
		return "=", "."
	case loc == "path" && style == "matrix":
		return "=", ";"
	default: // path simple, header simple (exploded)
		return "=", ","
	}
}

func fieldsHaveDelim(fs []Field, kv, fsep byte) bool {
	return len(fs) > 0 && (containsB(fs[0].Name, kv) || containsB(fs[0].Value, fsep) || fieldsHaveDelim(fs[1:], kv, fsep))
}

// pairs / okPairs: what decodeObject delivers for s (alternating reads until kv, then fs).
func okPairs(s string, kv, fs byte) bool {
	k := indexB(s, kv)
	if k < 0 {
		return false // name without value: the value read hits an empty or absent remainder
	}
	rest := s[k+1:]
	j := indexB(rest, fs)
	if j < 0 {
		return len(rest) > 0
	}
	return okPairs(rest[j+1:], kv, fs)
}

func pairs(s string, kv, fs byte) []Field {
	k := indexB(s, kv)
	if k < 0 {
		return nil
	}
	rest := s[k+1:]
	j := indexB(rest, fs)
	if j < 0 {
		return []Field{{Name: s[:k], Value: rest}}
	}
	return append([]Field{{Name: s[:k], Value: rest[:j]}}, pairs(rest[j+1:], kv, fs)...)
}

func kfTrailingEmptyField(fs []Field) bool { return len(fs) > 0 && fs[len(fs)-1].Value == "" }

// Query rows, as the content of url.Values (key → values); "&"-joining and escaping are url.Values.Encode.
func oasQueryArray(style QueryStyle, explode bool, name string, items []string) map[string][]string {
	if explode {
		return map[string][]string{name: items}
	}
	sep := ","
	if style == QueryStylePipeDelimited {
		sep = "|"
	}
	return map[string][]string{name: {joinB(items, sep)}}
}

func oasQueryObject(style QueryStyle, explode bool, name string, fs []Field) map[string][]string {
	m := map[string][]string{}
	switch {
	case style == QueryStyleDeepObject:
		for _, f := range fs {
			m[name+"["+f.Name+"]"] = []string{f.Value}
		}
	case explode:
		for _, f := range fs {
			m[f.Name] = []string{f.Value}
		}
	default:
		m[name] = []string{joinFields(fs, ",", ",")}
	}
	return m
}

// Header rows (simple style): the header value.
func oasHeaderArray(items []string) string { return joinB(items, ",") }
func oasHeaderObject(explode bool, fs []Field) string {
	kv, fsep := objSeps("header", "simple", explode)
	return joinFields(fs, kv, fsep)
}

// Cookie rows (form, explode=false for arrays/objects): the cookie value before escapeCookie.
func oasCookieArray(items []string) string   { return joinB(items, ",") }
func oasCookieObject(fs []Field) string      { return joinFields(fs, ",", ",") }

//@ func decodeObject(cur *cursor, kvSep, fieldSep byte, f func(field, value string) error) (err error)
//@   requires wfCursor(cur) && kvSep < 0x80 && fieldSep < 0x80
//@   modifies cur.pos, log(f)
//@   ensures ok:  allNil(results(f)) ==> (err == nil) == okPairs(rest, kvSep, fieldSep)
//@   ensures log: err == nil ==> log(f) == old(log(f)) + pairs(rest, kvSep, fieldSep)
//@   where rest := old(cur.src[cur.pos:])
//@ lemma pairsOfJoin(fs []Field, kv, fsep byte)
//@   requires len(fs) >= 1 && !fieldsHaveDelim(fs, kv, fsep) && (kv != fsep ==> namesFreeOf(fs, fsep)) && !kfTrailingEmptyField(fs)
//@   ensures  okPairs(joinFields(fs, str1(kv), str1(fsep)), kv, fsep) && pairs(joinFields(fs, str1(kv), str1(fsep)), kv, fsep) == fs

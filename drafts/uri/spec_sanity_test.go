//go:build verif

// Sanity run of the DRAFT spec functions against the real package (round 0).
// Purpose: debug the *specifications* before the verifier exists. This is not a
// check of any property and is not registered anywhere.

package uri

import (
	"fmt"
	"net/url"
	"reflect"
	"testing"
)

func enumStrings(alphabet string, maxLen int, f func(string)) {
	var rec func(prefix []byte)
	rec = func(prefix []byte) {
		f(string(prefix))
		if len(prefix) == maxLen {
			return
		}
		for i := 0; i < len(alphabet); i++ {
			rec(append(prefix[:len(prefix):len(prefix)], alphabet[i]))
		}
	}
	rec(nil)
}

func TestDraftSpecNormalize(t *testing.T) {
	type disagreement struct{ in, what string }
	var ds []disagreement
	n := 0
	enumStrings("%4fAg-/", 5, func(s string) {
		n++
		var out string
		var ok bool
		panicked := func() (p bool) {
			defer func() {
				if recover() != nil {
					p = true
				}
			}()
			out, ok = NormalizeEscapedPath(s)
			return false
		}()
		switch {
		case panicked:
			ds = append(ds, disagreement{s, "panic"})
		case ok != wellEscaped(s):
			ds = append(ds, disagreement{s, fmt.Sprintf("verdict: real ok=%v out=%q, spec wellEscaped=%v", ok, out, wellEscaped(s))})
		case ok && out != nf(s):
			ds = append(ds, disagreement{s, fmt.Sprintf("nf: real %q spec %q", out, nf(s))})
		}
		// spec-internal lemmas
		if wellEscaped(s) {
			if pctDecode(nf(s)) != pctDecode(s) {
				t.Errorf("lemma nfDecodes fails for %q", s)
			}
			if !canonicalPath(nf(s)) {
				t.Errorf("lemma nfCanonical fails for %q", s)
			}
			if nf(nf(s)) != nf(s) {
				t.Errorf("lemma nfIdempotent fails for %q", s)
			}
			if u, err := url.PathUnescape(s); err != nil || u != pctDecode(s) {
				t.Errorf("assumed contract PathUnescape==pctDecode fails for %q: %q %v vs %q", s, u, err, pctDecode(s))
			}
		} else if _, err := url.PathUnescape(s); err == nil {
			t.Errorf("assumed contract: PathUnescape accepts non-wellEscaped %q", s)
		}
		if canonicalPath(s) && nf(s) != s {
			t.Errorf("lemma canonFix fails for %q", s)
		}
	})
	t.Logf("%d strings, %d disagreements between real NormalizeEscapedPath and draft spec", n, len(ds))
	kinds := map[string]int{}
	firstOf := map[string]string{}
	for _, d := range ds {
		k := d.what
		if len(k) > 7 {
			k = k[:7]
		}
		kinds[k]++
		if _, ok := firstOf[k]; !ok {
			firstOf[k] = fmt.Sprintf("%q: %s", d.in, d.what)
		}
	}
	for k, c := range kinds {
		t.Logf("  %s ×%d, e.g. %s", k, c, firstOf[k])
	}
	// every disagreement must be in the known class: an escape that needs rewriting
	// followed later by a malformed escape (DESIGN §2).
	for _, d := range ds {
		if wellEscaped(d.in) {
			t.Errorf("disagreement on a well-escaped input %q: %s", d.in, d.what)
		}
	}
}

func TestDraftSpecCookie(t *testing.T) {
	n := 0
	for c := 0; c < 128; c++ {
		if (cookieEscapeChars[c] == 1) != specCookieNeedsEsc(byte(c)) {
			t.Errorf("table differs from RFC 6265 transcription at %#x", c)
		}
	}
	enumStrings("a %,\x7f\xff\"", 4, func(s string) {
		n++
		e := escapeCookie(s)
		if e != escC(s) {
			t.Errorf("escapeCookie(%q)=%q spec %q", s, e, escC(s))
		}
		u, ok := unescapeCookie(e)
		if !ok || u != s {
			t.Errorf("inverse fails for %q", s)
		}
		u2, ok2 := unescapeCookie(s)
		if ok2 != wellEscaped(s) || (ok2 && u2 != pctDecode(s)) {
			t.Errorf("unescapeCookie(%q)=%q,%v spec %q,%v", s, u2, ok2, pctDecode(s), wellEscaped(s))
		}
	})
	t.Logf("%d strings", n)
}

func TestDraftSpecPathArray(t *testing.T) {
	styles := []PathStyle{PathStyleSimple, PathStyleLabel, PathStyleMatrix}
	var items [][]string
	enumStrings("a,.;=%", 2, func(s string) {
		items = append(items, []string{s}, []string{"x", s}, []string{s, "y"}, []string{s, "", "z"})
	})
	total, known, bad := 0, 0, 0
	for _, st := range styles {
		for _, ex := range []bool{false, true} {
			for _, it := range items {
				total++
				// encoder vs table
				e := NewPathEncoder(PathEncoderConfig{Param: "p", Style: st, Explode: ex})
				_ = e.EncodeArray(func(e Encoder) error {
					for _, x := range it {
						_ = e.EncodeValue(x)
					}
					return nil
				})
				r, err := e.Result()
				refuse := !noneContains(it, activeArrayDelim(st, ex))
				if (err != nil) != refuse {
					t.Errorf("refuse %s/%v %q: err=%v spec refuse=%v", st, ex, it, err, refuse)
					bad++
					continue
				}
				if err == nil && r != oasPathArray(st, ex, "p", it) {
					t.Errorf("table %s/%v %q: real %q spec %q", st, ex, it, r, oasPathArray(st, ex, "p", it))
					bad++
				}
				if err != nil {
					continue
				}
				// harness
				var got []string
				herr := verifPathArrayRoundTrip(st, ex, "p", it, func(d Decoder) error {
					v, err := d.DecodeValue()
					got = append(got, v)
					return err
				})
				if kfTrailingEmpty(it) {
					known++
					continue
				}
				if herr != nil || !reflect.DeepEqual(got, it) {
					t.Errorf("roundtrip %s/%v %q: got %q err %v", st, ex, it, got, herr)
					bad++
				}
			}
		}
	}
	t.Logf("%d combinations, %d in known-finding class kfTrailingEmpty, %d unexpected", total, known, bad)
}

func TestDraftSpecPieces(t *testing.T) {
	enumStrings("a,", 6, func(s string) {
		cur := &cursor{src: s}
		var got []string
		err := parseArray(cur, ',', func(d Decoder) error {
			v, _ := d.DecodeValue()
			got = append(got, v)
			return nil
		})
		if (err == nil) != okPieces(s, ',') {
			t.Errorf("okPieces(%q)=%v real err=%v", s, okPieces(s, ','), err)
		}
		if err == nil && !reflect.DeepEqual(got, pieces(s, ',')) {
			t.Errorf("pieces(%q)=%q real %q", s, pieces(s, ','), got)
		}
	})
}

//go:build verif

package uri

import (
	"net/http"
	"net/url"
	"reflect"
	"testing"
)

func encFields(e Encoder, fs []Field) error {
	for _, f := range fs {
		f := f
		if err := e.EncodeField(f.Name, func(e Encoder) error { return e.EncodeValue(f.Value) }); err != nil {
			return err
		}
	}
	return nil
}

func sanityFieldLists() [][]Field {
	var vals []string
	enumStrings("a,=.;", 2, func(s string) { vals = append(vals, s) })
	var out [][]Field
	for _, n := range vals {
		for _, v := range vals {
			out = append(out, []Field{{n, v}}, []Field{{"k", "v"}, {n, v}}, []Field{{n, v}, {"k2", "w"}})
		}
	}
	return out
}

func TestDraftSpecPathObject(t *testing.T) {
	total, known, bad := 0, 0, 0
	classes := map[string]int{}
	for _, st := range []PathStyle{PathStyleSimple, PathStyleLabel, PathStyleMatrix} {
		for _, ex := range []bool{false, true} {
			kvS, fsS := objSeps("path", string(st), ex)
			kv, fsep := kvS[0], fsS[0]
			for _, fs := range sanityFieldLists() {
				total++
				e := NewPathEncoder(PathEncoderConfig{Param: "p", Style: st, Explode: ex})
				_ = encFields(e, fs)
				r, err := e.Result()
				refuse := fieldsHaveDelim(fs, kv, fsep)
				if (err != nil) != refuse {
					bad++
					t.Errorf("refuse %s/%v %v: err=%v spec=%v", st, ex, fs, err, refuse)
					continue
				}
				if err != nil {
					continue
				}
				if want := oasPathObject(st, ex, "p", fs); r != want {
					bad++
					t.Errorf("table %s/%v %v: real %q spec %q", st, ex, fs, r, want)
					continue
				}
				arg, _ := url.PathUnescape(r)
				var got []Field
				derr := NewPathDecoder(PathDecoderConfig{Param: "p", Value: arg, Style: st, Explode: ex}).DecodeFields(func(name string, d Decoder) error {
					v, err := d.DecodeValue()
					got = append(got, Field{name, v})
					return err
				})
				if derr == nil && reflect.DeepEqual(got, fs) {
					continue
				}
				// classify
				namesHaveFs := false
				for _, f := range fs {
					if kv != fsep && containsB(f.Name, fsep) {
						namesHaveFs = true
					}
				}
				switch {
				case kfTrailingEmptyField(fs):
					known++
					classes["trailing empty value"]++
				case namesHaveFs:
					classes["name contains field separator"]++
					// name contains the field separator: table serialization is ambiguous, encoder does not refuse
					known++
					if testing.Verbose() && known < 40 {
						t.Logf("name-with-field-separator class: %s/%v %v -> %q -> %v err=%v", st, ex, fs, r, got, derr)
					}
				default:
					bad++
					t.Errorf("roundtrip %s/%v %v -> %q -> %v err=%v", st, ex, fs, r, got, derr)
				}
			}
		}
	}
	t.Logf("%d combinations, %d in known classes %v, %d unexpected", total, known, classes, bad)
}

func TestDraftSpecHeaderCookieQuery(t *testing.T) {
	var items [][]string
	enumStrings("a,|", 2, func(s string) {
		items = append(items, []string{s}, []string{"x", s}, []string{s, "y"})
	})
	items = append(items, []string{})
	stats := map[string]int{}
	// header arrays
	for _, it := range items {
		h := http.Header{}
		err := NewHeaderEncoder(h).EncodeParam(HeaderParameterEncodingConfig{Name: "X-P"}, func(e Encoder) error {
			return e.EncodeArray(func(e Encoder) error {
				for _, x := range it {
					_ = e.EncodeValue(x)
				}
				return nil
			})
		})
		refuse := !noneContains(it, ',')
		if (err != nil) != refuse {
			t.Errorf("header refuse %q: %v", it, err)
			continue
		}
		if err != nil {
			continue
		}
		if h.Get("X-P") != oasHeaderArray(it) {
			t.Errorf("header table %q: %q", it, h.Get("X-P"))
		}
		var got []string
		_ = NewHeaderDecoder(h).DecodeParam(HeaderParameterDecodingConfig{Name: "X-P"}, func(d Decoder) error {
			return d.DecodeArray(func(d Decoder) error { v, _ := d.DecodeValue(); got = append(got, v); return nil })
		})
		if !reflect.DeepEqual(got, it) && !(len(got) == 0 && len(it) == 0) {
			if len(it) == 0 {
				stats["header: [] -> [\"\"]"]++
			} else {
				t.Errorf("header roundtrip %q -> %q", it, got)
			}
		}
	}
	// query arrays: form and pipe, explode false/true
	for _, st := range []QueryStyle{QueryStyleForm, QueryStylePipeDelimited} {
		for _, ex := range []bool{false, true} {
			sep := byte(',')
			if st == QueryStylePipeDelimited {
				sep = '|'
			}
			for _, it := range items {
				q := NewQueryEncoder()
				err := q.EncodeParam(QueryParameterEncodingConfig{Name: "p", Style: st, Explode: ex}, func(e Encoder) error {
					return e.EncodeArray(func(e Encoder) error {
						for _, x := range it {
							_ = e.EncodeValue(x)
						}
						return nil
					})
				})
				refuse := !ex && !noneContains(it, sep)
				if (err != nil) != refuse {
					t.Errorf("query refuse %s/%v %q: %v", st, ex, it, err)
					continue
				}
				if err != nil {
					continue
				}
				want := oasQueryArray(st, ex, "p", it)
				if !reflect.DeepEqual(map[string][]string(q.Values()), want) && !(len(it) == 0 && ex) {
					t.Errorf("query table %s/%v %q: %v want %v", st, ex, it, q.Values(), want)
				}
				vals, _ := url.ParseQuery(q.Values().Encode())
				var got []string
				derr := NewQueryDecoder(vals).DecodeParam(QueryParameterDecodingConfig{Name: "p", Style: st, Explode: ex}, func(d Decoder) error {
					return d.DecodeArray(func(d Decoder) error { v, _ := d.DecodeValue(); got = append(got, v); return nil })
				})
				if derr == nil && (reflect.DeepEqual(got, it) || len(got) == 0 && len(it) == 0) {
					continue
				}
				switch {
				case len(it) == 0 && ex:
					stats["query explode: [] -> parameter absent (error)"]++
				case len(it) == 0:
					stats["query "+string(st)+" non-explode: [] -> [\"\"]"]++
				case st == QueryStyleForm && !ex && len(it) == 1 && it[0] == "":
					stats["query form non-explode: [\"\"] -> []"]++
				default:
					t.Errorf("query roundtrip %s/%v %q -> %q err=%v", st, ex, it, got, derr)
				}
			}
		}
	}
	for k, v := range stats {
		t.Logf("class %s ×%d", k, v)
	}
}

//go:build verif

// Round-0 sanity of the C13 pairing contracts for package conv (draft): for every
// (XToString, ToX) pair, ToX(XToString(v)) == v on exhaustive small domains and
// boundary values. Decides nothing; it tells which pairing obligations to expect to
// fail (floats) and validates the assumed stdlib inverse contracts on these values.

package conv

import (
	"math"
	"net"
	"net/netip"
	"net/url"
	"testing"
	"time"

	"github.com/google/uuid"
)

func TestDraftPairsIntegers(t *testing.T) {
	for v := math.MinInt8; v <= math.MaxInt8; v++ {
		if r, err := ToInt8(Int8ToString(int8(v))); err != nil || r != int8(v) {
			t.Fatalf("int8 %d", v)
		}
		if r, err := ToStringInt8(StringInt8ToString(int8(v))); err != nil || r != int8(v) {
			t.Fatalf("string int8 %d", v)
		}
	}
	for v := 0; v <= math.MaxUint8; v++ {
		if r, err := ToUint8(Uint8ToString(uint8(v))); err != nil || r != uint8(v) {
			t.Fatalf("uint8 %d", v)
		}
	}
	for v := math.MinInt16; v <= math.MaxInt16; v++ {
		if r, err := ToInt16(Int16ToString(int16(v))); err != nil || r != int16(v) {
			t.Fatalf("int16 %d", v)
		}
	}
	for v := 0; v <= math.MaxUint16; v++ {
		if r, err := ToUint16(Uint16ToString(uint16(v))); err != nil || r != uint16(v) {
			t.Fatalf("uint16 %d", v)
		}
	}
	for _, v := range []int64{math.MinInt64, math.MinInt64 + 1, math.MinInt32 - 1, math.MinInt32, -1, 0, 1, math.MaxInt32, math.MaxInt32 + 1, math.MaxInt64 - 1, math.MaxInt64} {
		if r, err := ToInt64(Int64ToString(v)); err != nil || r != v {
			t.Errorf("int64 %d", v)
		}
		if r, err := ToInt(IntToString(int(v))); err != nil || r != int(v) {
			t.Errorf("int %d", v)
		}
		if int64(int32(v)) == v {
			if r, err := ToInt32(Int32ToString(int32(v))); err != nil || r != int32(v) {
				t.Errorf("int32 %d", v)
			}
		}
	}
	for _, v := range []uint64{0, 1, math.MaxUint32, math.MaxUint32 + 1, math.MaxUint64 - 1, math.MaxUint64} {
		if r, err := ToUint64(Uint64ToString(v)); err != nil || r != v {
			t.Errorf("uint64 %d", v)
		}
		if r, err := ToUint(UintToString(uint(v))); err != nil || r != uint(v) {
			t.Errorf("uint %d", v)
		}
		if uint64(uint32(v)) == v {
			if r, err := ToUint32(Uint32ToString(uint32(v))); err != nil || r != uint32(v) {
				t.Errorf("uint32 %d", v)
			}
		}
	}
	for _, b := range []bool{false, true} {
		if r, err := ToBool(BoolToString(b)); err != nil || r != b {
			t.Errorf("bool %v", b)
		}
	}
}

func TestDraftPairsFloats(t *testing.T) {
	vals64 := []float64{0, 1, -1, 0.1, 0.1 + 0.2, 1e-20, 1e20, 1e300, math.SmallestNonzeroFloat64, math.MaxFloat64, 123456.789012345678, 1.0 / 3}
	fail := map[string][]float64{}
	for _, v := range vals64 {
		if r, err := ToFloat64(Float64ToString(v)); err != nil || r != v {
			fail["Float64ToString 'f',10"] = append(fail["Float64ToString 'f',10"], v)
		}
		if r, err := ToStringFloat64(StringFloat64ToString(v)); err != nil || r != v {
			fail["StringFloat64ToString 'g',10"] = append(fail["StringFloat64ToString 'g',10"], v)
		}
		f := float32(v)
		if math.IsInf(float64(f), 0) {
			continue
		}
		if r, err := ToFloat32(Float32ToString(f)); err != nil || r != f {
			fail["Float32ToString 'f',10"] = append(fail["Float32ToString 'f',10"], float64(f))
		}
		if r, err := ToStringFloat32(StringFloat32ToString(f)); err != nil || r != f {
			fail["StringFloat32ToString 'g',10"] = append(fail["StringFloat32ToString 'g',10"], float64(f))
		}
	}
	for k, v := range fail {
		t.Logf("known class kfFloatPrecision — %s loses %d of %d sample values, e.g. %v", k, len(v), len(vals64), v[0])
	}
}

func TestDraftPairsTimeAndOthers(t *testing.T) {
	base := time.Date(2024, 2, 29, 23, 59, 58, 0, time.UTC)
	for _, v := range []time.Time{base, time.Unix(0, 0).UTC(), time.Date(1, 1, 1, 0, 0, 0, 0, time.UTC), time.Date(9999, 12, 31, 23, 59, 59, 0, time.UTC), base.In(time.FixedZone("x", 3*3600+1800))} {
		if r, err := ToDateTime(DateTimeToString(v)); err != nil || !r.Equal(v) {
			t.Errorf("date-time %v -> %v %v", v, r, err)
		}
		if r, err := ToDate(DateToString(v)); err != nil || r.Year() != v.Year() || r.YearDay() != v.YearDay() {
			t.Errorf("date %v -> %v %v", v, r, err)
		}
		if r, err := ToTime(TimeToString(v)); err != nil || r.Hour() != v.Hour() || r.Minute() != v.Minute() || r.Second() != v.Second() {
			t.Errorf("time %v -> %v %v", v, r, err)
		}
		if r, err := ToUnixSeconds(UnixSecondsToString(v)); err != nil || !r.Equal(v) {
			t.Errorf("unix %v", v)
		}
		if r, err := ToUnixMilli(UnixMilliToString(v)); err != nil || !r.Equal(v) {
			t.Errorf("unix-milli %v", v)
		}
		if r, err := ToUnixMicro(UnixMicroToString(v)); err != nil || !r.Equal(v) {
			t.Errorf("unix-micro %v", v)
		}
		if v.Year() > 1700 && v.Year() < 2200 { // UnixNano is only defined in that range
			if r, err := ToUnixNano(UnixNanoToString(v)); err != nil || !r.Equal(v) {
				t.Errorf("unix-nano %v", v)
			}
		}
	}
	for _, d := range []time.Duration{0, 1, -1, time.Microsecond + 1, 90 * time.Minute, math.MaxInt64, math.MinInt64} {
		if r, err := ToDuration(DurationToString(d)); err != nil || r != d {
			t.Errorf("duration %v -> %v %v", d, r, err)
		}
	}
	u := uuid.MustParse("6ba7b810-9dad-11d1-80b4-00c04fd430c8")
	if r, err := ToUUID(UUIDToString(u)); err != nil || r != u {
		t.Errorf("uuid")
	}
	for _, a := range []string{"1.2.3.4", "::1", "fe80::1%eth0", "::ffff:1.2.3.4"} {
		ip := netip.MustParseAddr(a)
		if r, err := ToAddr(AddrToString(ip)); err != nil || r != ip {
			t.Errorf("addr %v", a)
		}
	}
	for _, m := range []net.HardwareAddr{{1, 2, 3, 4, 5, 6}, {1, 2, 3, 4, 5, 6, 7, 8}, {1, 2, 3}} {
		r, err := ToMAC(MACToString(m))
		if err != nil || r.String() != m.String() {
			t.Logf("class: MAC of length %d does not round-trip: %v (error, not a different value)", len(m), err)
		}
	}
	for _, s := range []string{"http://a/b?x=1#f", "a/b", "//h/p", "mailto:x@y"} {
		u, _ := url.Parse(s)
		if r, err := ToURL(URLToString(*u)); err != nil || r != *u {
			t.Errorf("url %q -> %+v %v", s, r, err)
		}
	}
}

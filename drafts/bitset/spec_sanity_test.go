//go:build verif

package bitset

import "testing"

func TestDraftSpecBitset(t *testing.T) {
	for _, start := range []Bitset{nil, {0}, {0xff}, {1, 2, 3}} {
		for i := 0; i < 40; i++ {
			for _, v := range []bool{false, true} {
				r := append(Bitset(nil), start...)
				old := append(Bitset(nil), start...)
				r.Set(i, v)
				if len(r) != max2(len(old), i/8+1) {
					t.Fatalf("len after Set(%d,%v) on %v: %d", i, v, old, len(r))
				}
				for j := 0; j < 64; j++ {
					if bit(r, j) != (bit(old, j) || (j == i && v)) {
						t.Fatalf("bit %d after Set(%d,%v) on %v", j, i, v, old)
					}
				}
			}
		}
	}
	for n := 0; n < 20; n++ {
		s := make([]int, n)
		r := Build(s, func(i int, _ int) bool { return i%3 == 0 })
		if len(r) != max2(1, (n+7)/8) {
			t.Fatalf("Build len for n=%d: %d", n, len(r))
		}
		for j := 0; j < 64; j++ {
			if bit(r, j) != (j < n && j%3 == 0) {
				t.Fatalf("Build bit %d n=%d", j, n)
			}
		}
	}
}

//go:build verif

// DRAFT (round 0) contract file for package internal/bitset — see /verif/drafts/README.md.

package bitset

// bit: the abstract view of a Bitset — bit j, false beyond the end.
func bit(r Bitset, j int) bool {
	return j >= 0 && j/8 < len(r) && (r[j/8]>>(uint(j)%8))&1 == 1
}

func max2(a, b int) int {
	if a > b {
		return a
	}
	return b
}

//@ func (r *Bitset) Set(i int, v bool)
//@   requires i >= 0                       // negative i: index out of range / negative shift — call sites pass slice indices
//@   modifies *r
//@   ensures len:  len(*r) == max2(len(old(*r)), i/8+1)
//@   ensures view: forall j int :: j >= 0 ==> bit(*r, j) == (bit(old(*r), j) || (j == i && v))
//@   loop 0 invariant len(*r) >= len(old(*r)) && len(*r) <= max2(len(old(*r)), i/8+1)
//@   loop 0 invariant forall j int :: j >= 0 ==> bit(*r, j) == bit(old(*r), j)       // appended bytes are zero
//@   loop 0 decreases i/8 + 1 - len(*r)
//@ func Build[T any](s []T, cb func(int, T) bool) (r Bitset)
//@   ensures len:  len(r) == max2(1, (len(s)+7)/8)
//@   ensures view: forall j int :: 0 <= j && j < len(s) ==> bit(r, j) == results(cb)[j]
//@   ensures calls: log(cb) == indexed(s)                                              // called once per element, in order
//@   ensures clean: forall j int :: j >= len(s) ==> !bit(r, j)

//go:build verif

// Round-0 sanity for C18 (draft): json.Equal on numbers versus exact rational equality.

package json

import (
	"math/big"
	"testing"
)

func TestDraftEqualNumbers(t *testing.T) {
	nums := []string{"0", "-0", "0.0", "0e5", "1", "1.0", "1e0", "10e-1", "0.1e1", "100", "1e2", "1E2", "1.00e+2",
		"0.1", "0.10", "1e-1", "0.10000000000000001", "0.1000000000000000055511151231257827",
		"9007199254740992", "9007199254740993", "9007199254740992.0", "9007199254740993.0", "9.007199254740993e15",
		"1e400", "10e399", "2e400", "-1e400", "1e-400", "2e-400", "0e-400",
		"123456789012345678901234567890", "123456789012345678901234567891", "1.23456789012345678901234567890e29"}
	rat := func(s string) *big.Rat {
		r, ok := new(big.Rat).SetString(s)
		if !ok {
			t.Fatalf("bad %q", s)
		}
		return r
	}
	wrongTrue, wrongFalse, errs, total := 0, 0, 0, 0
	var ex []string
	for _, a := range nums {
		for _, b := range nums {
			total++
			got, err := Equal([]byte(a), []byte(b))
			if err != nil {
				errs++
				continue
			}
			want := rat(a).Cmp(rat(b)) == 0
			if got && !want {
				wrongTrue++
				if len(ex) < 8 {
					ex = append(ex, a+" == "+b)
				}
			}
			if !got && want {
				wrongFalse++
				ex = append(ex, a+" != "+b+" (should be equal)")
			}
		}
	}
	t.Logf("%d pairs: %d wrongly equal, %d wrongly different, %d errors", total, wrongTrue, wrongFalse, errs)
	for _, e := range ex {
		t.Logf("   %s", e)
	}
	// symmetry / reflexivity on this set
	for _, a := range nums {
		if ok, err := Equal([]byte(a), []byte(a)); err != nil || !ok {
			t.Errorf("not reflexive on %q: %v %v", a, ok, err)
		}
		for _, b := range nums {
			x, _ := Equal([]byte(a), []byte(b))
			y, _ := Equal([]byte(b), []byte(a))
			if x != y {
				t.Errorf("not symmetric on %q %q", a, b)
			}
		}
	}
}

//go:build verif

// Round-0 pre-sweep: bounded-exhaustive calls of small front-end functions of package
// gen under recover, to learn which `panic`/`bounds` obligations of the C11 sweep to
// expect. Throw-away; decides nothing.

package gen

import (
	"go/token"
	"testing"
)

func enumStrings(alphabet string, maxLen int, f func(string)) {
	var rec func(prefix []byte)
	rec = func(prefix []byte) {
		f(string(prefix))
		if len(prefix) == maxLen {
			return
		}
		for i := 0; i < len(alphabet); i++ {
			rec(append(prefix[:len(prefix):len(prefix)], alphabet[i]))
		}
	}
	rec(nil)
}

func guarded(t *testing.T, what string, in string, f func()) {
	defer func() {
		if r := recover(); r != nil {
			t.Errorf("%s(%q) panics: %v", what, in, r)
		}
	}()
	f()
}

func TestSweepNames(t *testing.T) {
	n, bad := 0, 0
	enumStrings("aZ9_ -+/.\xffé", 4, func(s string) {
		n++
		guarded(t, "pascal", s, func() {
			if r, err := pascal(s); err == nil && r != "" && !token.IsIdentifier(r) {
				bad++
				t.Errorf("pascal(%q) = %q is not an identifier", s, r)
			}
		})
		guarded(t, "pascalSpecial", s, func() {
			if r, err := pascalSpecial(s); err == nil && r != "" && !token.IsIdentifier(r) {
				t.Errorf("pascalSpecial(%q) = %q is not an identifier", s, r)
			}
		})
		guarded(t, "pascalNonEmpty", s, func() {
			if r, err := pascalNonEmpty(s); err == nil && !token.IsIdentifier(r) {
				t.Errorf("pascalNonEmpty(%q) = %q is not an identifier", s, r)
			}
		})
		guarded(t, "camel", s, func() {
			if r, err := camel(s); err == nil && r != "" && !token.IsIdentifier(r) {
				t.Errorf("camel(%q) = %q is not an identifier", s, r)
			}
		})
		guarded(t, "cleanSpecial", s, func() { _ = cleanSpecial(s) })
	})
	t.Logf("%d inputs", n)
}

func TestSweepRouteHelpers(t *testing.T) {
	enumStrings("/a{}b", 6, func(s string) {
		guarded(t, "nextPathPart", s, func() {
			has, st, en, err := nextPathPart(s)
			if err == nil && has && !(0 <= st && st < en && en <= len(s) && s[st] == '{' && s[en-1] == '}') {
				t.Errorf("nextPathPart(%q) = %v %d %d", s, has, st, en)
			}
		})
		enumStrings("/a{", 3, func(u string) {
			guarded(t, "longestPrefix", s+"|"+u, func() {
				k := longestPrefix(s, u)
				if k < 0 || k > len(s) || k > len(u) || s[:k] != u[:k] || (k < len(s) && k < len(u) && s[k] == u[k]) {
					t.Errorf("longestPrefix(%q,%q)=%d", s, u, k)
				}
			})
		})
	})
}

func TestSweepAddRoute(t *testing.T) {
	// routes over a tiny grammar, inserted in both orders, must never panic
	var paths []string
	enumStrings("/a{x}b", 6, func(s string) {
		if len(s) > 0 && s[0] == '/' {
			paths = append(paths, s)
		}
	})
	n := 0
	for i, p := range paths {
		for j, q := range paths {
			if (i*7+j)%23 != 0 { // thin out
				continue
			}
			n++
			guarded(t, "addRoute", p+" then "+q, func() {
				var tree RouteTree
				_ = tree.addRoute(Route{Method: "GET", Path: p})
				_ = tree.addRoute(Route{Method: "GET", Path: q})
			})
		}
	}
	t.Logf("%d pairs", n)
}

//go:build verif

package parser

import "testing"

func enumStrings(alphabet string, maxLen int, f func(string)) {
	var rec func(prefix []byte)
	rec = func(prefix []byte) {
		f(string(prefix))
		if len(prefix) == maxLen {
			return
		}
		for i := 0; i < len(alphabet); i++ {
			rec(append(prefix[:len(prefix):len(prefix)], alphabet[i]))
		}
	}
	rec(nil)
}

func TestSweepPathParser(t *testing.T) {
	n := 0
	enumStrings("/a{}%4\xff", 6, func(s string) {
		n++
		func() {
			defer func() {
				if r := recover(); r != nil {
					t.Errorf("pathID(%q) panics: %v", s, r)
				}
			}()
			_, _ = pathID(s)
		}()
		func() {
			defer func() {
				if r := recover(); r != nil {
					t.Errorf("parsePath(%q) panics: %v", s, r)
				}
			}()
			_, _ = parsePath(s, nil)
		}()
	})
	t.Logf("%d inputs", n)
}
